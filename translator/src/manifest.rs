//! The manifest: which items of which source file are translated, in emission order
//! (an item must come after everything it refers to).

#[derive(Clone, Copy, Debug)]
pub enum Sel {
    /// `const NAME: T = …;`
    Const(&'static str),
    /// `struct Name { … }`
    Struct(&'static str),
    /// `enum Name { … }`
    Enum(&'static str),
    /// free `fn name`
    Fn(&'static str),
    /// `impl Type { fn name }` (inherent impl)
    Method(&'static str, &'static str),
    /// `impl From<Src> for Dst { fn from }`: (Dst, Src) — used by `?`
    From(&'static str, &'static str),
}

pub const MANIFEST: &[(&str, &[Sel])] = &[
    (
        "renet/src/packet.rs",
        &[
            Sel::Const("SLICE_SIZE"),
            Sel::Struct("Slice"),
            Sel::Enum("Packet"),
            Sel::Enum("SerializationError"),
            Sel::From("SerializationError", "BufferTooShortError"),
            Sel::Method("Packet", "to_bytes"),
            Sel::Method("Packet", "from_bytes"),
        ],
    ),
    (
        "renetcode/src/replay_protection.rs",
        &[
            Sel::Const("NETCODE_REPLAY_BUFFER_SIZE"),
            Sel::Const("EMPTY"),
            Sel::Struct("ReplayProtection"),
            Sel::Method("ReplayProtection", "new"),
            Sel::Method("ReplayProtection", "already_received"),
            Sel::Method("ReplayProtection", "advance_sequence"),
        ],
    ),
    ("renetcode/src/client.rs", &[Sel::Enum("DisconnectReason")]),
    ("renetcode/src/token.rs", &[Sel::Enum("TokenGenerationError")]),
    ("renetcode/src/error.rs", &[Sel::Enum("NetcodeError")]),
    (
        "renetcode/src/packet.rs",
        &[
            Sel::Enum("PacketType"),
            Sel::Method("PacketType", "from_u8"),
            Sel::Method("PacketType", "apply_replay_protection"),
            Sel::Fn("sequence_bytes_required"),
            Sel::Fn("encode_prefix"),
            Sel::Fn("decode_prefix"),
        ],
    ),
    ("renet/src/error.rs", &[Sel::Enum("ChannelError")]),
    (
        "renet/src/channel/slice_constructor.rs",
        &[
            Sel::Struct("SliceConstructor"),
            Sel::Method("SliceConstructor", "new"),
            Sel::Method("SliceConstructor", "process_slice"),
        ],
    ),
];

/// External types that are not translated but mapped to an opaque RustSem type
/// (last path segments, Lean name).
pub const OPAQUE_TYPES: &[(&[&str], &str)] = &[(&["io", "Error"], "RustSem.IoError")];
