//! The manifest: which items of which source file are translated, in emission order
//! (an item must come after everything it refers to).

#[derive(Clone, Copy, Debug)]
pub enum Sel {
    /// `const NAME: T = …;`
    Const(&'static str),
    /// `struct Name { … }`
    Struct(&'static str),
    /// struct VIEW: only the listed fields are translated (the generated structure has exactly these);
    /// a selected method that touches any other field is a TRANSLATE-ERROR
    StructView(&'static str, &'static [&'static str]),
    /// `type Name = T;` (transparent: every use of `Name` is `T`)
    TypeAlias(&'static str),
    /// struct without the named IGNORED fields: statements that only write them (assignments, method calls on them,
    /// `let`s / `if`s of values computed from them) are dropped like `log::…!`; any other read of them is an error
    StructIgnore(&'static str, &'static [&'static str]),
    /// `enum Name { … }`
    Enum(&'static str),
    /// free `fn name`
    Fn(&'static str),
    /// `impl Type { fn name }` (inherent impl)
    Method(&'static str, &'static str),
    /// `impl From<Src> for Dst { fn from }`: (Dst, Src) — used by `?`
    From(&'static str, &'static str),
    /// `impl Trait for Type { fn name }` of a trait WITHOUT generic arguments (`impl Default for T { fn default }`):
    /// (Trait, Type, name) — translated like the inherent method `Type::name`
    TraitFn(&'static str, &'static str, &'static str),
}

/// One selected item with its group (flat work list in emission order)
#[derive(Clone, Debug)]
pub struct WorkItem {
    pub group: String,
    pub file: String,
    pub sel: Sel,
    /// added by the translator because a selected function calls it (not listed in the manifest)
    pub followed: bool,
}

/// Groups in emission order (a group may only refer to items of earlier groups); each group becomes
/// `Generated/Src/<Group>.lean`.  `Common` holds plain consts / enums that several groups use.
pub const GROUPS: &[(&str, &[(&str, &[Sel])])] = &[
    (
        "Common",
        &[
            (
                "renet/src/packet.rs",
                &[Sel::Const("SLICE_SIZE"), Sel::TypeAlias("Payload"), Sel::Struct("Slice"), Sel::Enum("Packet"), Sel::Enum("SerializationError")],
            ),
            (
                "renetcode/src/lib.rs",
                &[
                    Sel::Const("NETCODE_VERSION_INFO"),
                    Sel::Const("NETCODE_USER_DATA_BYTES"),
                    Sel::Const("NETCODE_CONNECT_TOKEN_PRIVATE_BYTES"),
                    Sel::Const("NETCODE_CHALLENGE_TOKEN_BYTES"),
                    Sel::Const("NETCODE_CONNECT_TOKEN_XNONCE_BYTES"),
                ],
            ),
            ("renetcode/src/client.rs", &[Sel::Enum("DisconnectReason")]),
            ("renetcode/src/token.rs", &[Sel::Enum("TokenGenerationError")]),
            ("renetcode/src/error.rs", &[Sel::Enum("NetcodeError")]),
            ("renet/src/error.rs", &[Sel::Enum("ChannelError")]),
        ],
    ),
    (
        "Replay",
        &[(
            "renetcode/src/replay_protection.rs",
            &[
                Sel::Const("NETCODE_REPLAY_BUFFER_SIZE"),
                Sel::Const("EMPTY"),
                Sel::Struct("ReplayProtection"),
                Sel::Method("ReplayProtection", "new"),
                Sel::Method("ReplayProtection", "already_received"),
                Sel::Method("ReplayProtection", "advance_sequence"),
            ],
        )],
    ),
    (
        "Prefix",
        &[(
            "renetcode/src/packet.rs",
            &[
                Sel::Enum("PacketType"),
                Sel::Method("PacketType", "from_u8"),
                Sel::Method("PacketType", "apply_replay_protection"),
                Sel::Fn("sequence_bytes_required"),
                Sel::Fn("encode_prefix"),
                Sel::Fn("decode_prefix"),
            ],
        )],
    ),
    (
        "Slice",
        &[(
            "renet/src/channel/slice_constructor.rs",
            &[Sel::Struct("SliceConstructor"), Sel::Method("SliceConstructor", "new"), Sel::Method("SliceConstructor", "process_slice")],
        )],
    ),
    (
        "Packet",
        &[(
            "renet/src/packet.rs",
            &[
                Sel::From("SerializationError", "BufferTooShortError"),
                Sel::Method("Packet", "to_bytes"),
                Sel::Method("Packet", "from_bytes"),
            ],
        )],
    ),
    (
        "SendUnrel",
        &[(
            "renet/src/channel/unreliable.rs",
            &[
                Sel::Struct("SendChannelUnreliable"),
                Sel::Method("SendChannelUnreliable", "new"),
                Sel::Method("SendChannelUnreliable", "can_send_message"),
                Sel::Method("SendChannelUnreliable", "available_memory"),
                Sel::Method("SendChannelUnreliable", "send_message"),
                Sel::Method("SendChannelUnreliable", "get_packets_to_send"),
            ],
        )],
    ),
    (
        "RecvUnrel",
        &[(
            "renet/src/channel/unreliable.rs",
            &[
                Sel::Struct("ReceiveChannelUnreliable"),
                Sel::Method("ReceiveChannelUnreliable", "new"),
                Sel::Method("ReceiveChannelUnreliable", "process_message"),
                Sel::Method("ReceiveChannelUnreliable", "process_slice"),
                Sel::Method("ReceiveChannelUnreliable", "discard_incomplete_old_slices"),
                Sel::Method("ReceiveChannelUnreliable", "receive_message"),
            ],
        )],
    ),
    // reliable SEND channel
    (
        "SendRel",
        &[(
            "renet/src/channel/reliable.rs",
            &[
                Sel::Enum("UnackedMessage"),
                Sel::Method("UnackedMessage", "new_sliced"),
                Sel::Struct("SendChannelReliable"),
                Sel::Method("SendChannelReliable", "new"),
                Sel::Method("SendChannelReliable", "available_memory"),
                Sel::Method("SendChannelReliable", "can_send_message"),
                Sel::Method("SendChannelReliable", "get_packets_to_send"),
                Sel::Method("SendChannelReliable", "send_message"),
                Sel::Method("SendChannelReliable", "process_message_ack"),
                Sel::Method("SendChannelReliable", "process_slice_message_ack"),
            ],
        )],
    ),
    // reliable RECEIVE channel
    (
        "RecvRel",
        &[(
            "renet/src/channel/reliable.rs",
            &[
                Sel::Enum("ReliableOrder"),
                Sel::Struct("ReceiveChannelReliable"),
                Sel::Method("ReceiveChannelReliable", "new"),
                Sel::Method("ReceiveChannelReliable", "process_message"),
                Sel::Method("ReceiveChannelReliable", "process_slice"),
                Sel::Method("ReceiveChannelReliable", "receive_message"),
            ],
        )],
    ),
    // types of the connection object (`RenetClient` without its statistics fields)
    (
        "ConnTypes",
        &[
            ("renet/src/channel/mod.rs", &[Sel::Enum("SendType"), Sel::Struct("ChannelConfig")]),
            ("renet/src/error.rs", &[Sel::Enum("DisconnectReason")]),
            (
                "renet/src/remote_connection.rs",
                &[
                    Sel::Struct("ConnectionConfig"),
                    Sel::Enum("PacketSentInfo"),
                    Sel::Struct("PacketSent"),
                    Sel::Enum("ChannelOrder"),
                    Sel::Enum("RenetConnectionStatus"),
                    Sel::StructIgnore("RenetClient", &["stats", "rtt"]),
                ],
            ),
        ],
    ),
    (
        "Acks",
        &[(
            "renet/src/remote_connection.rs",
            &[
                Sel::Method("RenetClient", "add_pending_ack"),
                Sel::Method("RenetClient", "acked_largest"),
            ],
        )],
    ),
    // the connection object: construction, status, per-channel send / receive entry points
    (
        "Conn",
        &[(
            "renet/src/remote_connection.rs",
            &[
                Sel::Method("RenetClient", "is_connected"),
                Sel::Method("RenetClient", "is_connecting"),
                Sel::Method("RenetClient", "is_disconnected"),
                Sel::Method("RenetClient", "disconnect_reason"),
                Sel::Method("RenetClient", "disconnect_with_reason"),
                Sel::Method("RenetClient", "set_connected"),
                Sel::Method("RenetClient", "set_connecting"),
                Sel::Method("RenetClient", "disconnect"),
                Sel::Method("RenetClient", "disconnect_due_to_transport"),
                Sel::Method("RenetClient", "from_channels"),
                Sel::Method("RenetClient", "new"),
                Sel::Method("RenetClient", "new_from_server"),
                Sel::Method("RenetClient", "channel_available_memory"),
                Sel::Method("RenetClient", "can_send_message"),
                Sel::Method("RenetClient", "send_message"),
                Sel::Method("RenetClient", "receive_message"),
            ],
        )],
    ),
    // the connection object: packets of one tick
    (
        "ConnSend",
        &[("renet/src/remote_connection.rs", &[Sel::Method("RenetClient", "get_packets_to_send")])],
    ),
    // the connection object: the clock and an incoming packet
    (
        "ConnRecv",
        &[(
            "renet/src/remote_connection.rs",
            &[Sel::Method("RenetClient", "update"), Sel::Method("RenetClient", "process_packet")],
        )],
    ),
    // the server's connection table and event queue
    (
        "Server",
        &[
            ("renet/src/lib.rs", &[Sel::TypeAlias("ClientId")]),
            ("renet/src/error.rs", &[Sel::Struct("ClientNotFound")]),
            (
                "renet/src/server.rs",
                &[
                    Sel::Enum("ServerEvent"),
                    Sel::Struct("RenetServer"),
                    Sel::Method("RenetServer", "new"),
                    Sel::Method("RenetServer", "add_connection"),
                    Sel::Method("RenetServer", "get_event"),
                    Sel::Method("RenetServer", "has_connections"),
                    Sel::Method("RenetServer", "disconnect_reason"),
                    Sel::Method("RenetServer", "remove_connection"),
                    Sel::Method("RenetServer", "disconnect"),
                    Sel::Method("RenetServer", "disconnect_all"),
                    Sel::Method("RenetServer", "broadcast_message"),
                    Sel::Method("RenetServer", "broadcast_message_except"),
                    Sel::Method("RenetServer", "channel_available_memory"),
                    Sel::Method("RenetServer", "can_send_message"),
                    Sel::Method("RenetServer", "send_message"),
                    Sel::Method("RenetServer", "receive_message"),
                    Sel::Method("RenetServer", "clients_id_iter"),
                    Sel::Method("RenetServer", "clients_id"),
                    Sel::Method("RenetServer", "disconnections_id_iter"),
                    Sel::Method("RenetServer", "disconnections_id"),
                    Sel::Method("RenetServer", "connected_clients"),
                    Sel::Method("RenetServer", "is_connected"),
                    Sel::Method("RenetServer", "update"),
                    Sel::Method("RenetServer", "get_packets_to_send"),
                    Sel::Method("RenetServer", "process_packet_from"),
                    Sel::Method("RenetServer", "new_local_client"),
                    Sel::Method("RenetServer", "disconnect_local_client"),
                    Sel::Method("RenetServer", "process_local_client"),
                ],
            ),
        ],
    ),
    // renetcode server: types
    (
        "NcServerTypes",
        &[(
            "renetcode/src/server.rs",
            &[
                Sel::Enum("ConnectionState"),
                Sel::Struct("Connection"),
                Sel::Struct("ConnectTokenEntry"),
                Sel::Struct("NetcodeServer"),
                Sel::Enum("ServerResult"),
                Sel::Enum("ServerAuthentication"),
                Sel::Struct("ServerConfig"),
            ],
        )],
    ),
    (
        "TokenTable",
        &[("renetcode/src/server.rs", &[Sel::Method("NetcodeServer", "find_or_add_connect_token_entry")])],
    ),
    (
        "NcSerialize",
        &[
            (
                "renetcode/src/serialize.rs",
                &[Sel::Fn("read_u64"), Sel::Fn("read_u32"), Sel::Fn("read_u16"), Sel::Fn("read_u8"), Sel::Fn("read_bytes"), Sel::Fn("read_i32")],
            ),
            ("renetcode/src/packet.rs", &[Sel::Fn("read_sequence"), Sel::Fn("get_additional_data")]),
        ],
    ),
    // the only byte-level writer that depends on group Prefix (`sequence_bytes_required`)
    ("NcSequence", &[("renetcode/src/packet.rs", &[Sel::Fn("write_sequence")])]),
    (
        "NcToken",
        &[(
            "renetcode/src/packet.rs",
            &[
                Sel::Struct("ChallengeToken"),
                Sel::Method("ChallengeToken", "new"),
                Sel::Method("ChallengeToken", "read"),
                Sel::Method("ChallengeToken", "write"),
            ],
        )],
    ),
    // server address list of the connect tokens
    (
        "NcAddr",
        &[
            (
                "renetcode/src/lib.rs",
                &[Sel::Const("NETCODE_ADDRESS_NONE"), Sel::Const("NETCODE_ADDRESS_IPV4"), Sel::Const("NETCODE_ADDRESS_IPV6")],
            ),
            ("renetcode/src/token.rs", &[Sel::Fn("write_server_addresses"), Sel::Fn("read_server_addresses")]),
        ],
    ),
    // connect tokens: (de)serialisation of the public and the private part
    (
        "NcConnToken",
        &[
            ("renetcode/src/lib.rs", &[Sel::Const("NETCODE_KEY_BYTES"), Sel::Const("NETCODE_ADDITIONAL_DATA_SIZE")]),
            ("renetcode/src/error.rs", &[Sel::From("NetcodeError", "Error")]),
            (
                "renetcode/src/token.rs",
                &[
                    Sel::Struct("ConnectToken"),
                    Sel::Struct("PrivateConnectToken"),
                    Sel::Method("ConnectToken", "write"),
                    Sel::Method("ConnectToken", "read"),
                    Sel::Method("PrivateConnectToken", "write"),
                    Sel::Method("PrivateConnectToken", "read"),
                    Sel::Fn("get_additional_data"),
                ],
            ),
        ],
    ),
    // renetcode packets: body reader / writer (the type shares its simple name with renet's `Packet`)
    (
        "NcPacket",
        &[(
            "renetcode/src/packet.rs",
            &[
                Sel::Enum("Packet"),
                Sel::Method("Packet", "packet_type"),
                Sel::Method("Packet", "id"),
                Sel::Method("Packet", "write"),
                Sel::Method("Packet", "read"),
            ],
        )],
    ),
    // sealing / opening on top of the (de)serialisers: the AEAD of crypto.rs is an abstract parameter
    (
        "NcCodec",
        &[
            ("renetcode/src/lib.rs", &[Sel::Const("NETCODE_MAC_BYTES")]),
            ("renetcode/src/error.rs", &[Sel::From("NetcodeError", "CryptoError"), Sel::From("NetcodeError", "TokenGenerationError")]),
            (
                "renetcode/src/token.rs",
                &[
                    Sel::From("TokenGenerationError", "Error"),
                    Sel::From("TokenGenerationError", "CryptoError"),
                    Sel::Method("PrivateConnectToken", "encode"),
                    Sel::Method("PrivateConnectToken", "decode"),
                ],
            ),
            (
                "renetcode/src/packet.rs",
                &[
                    Sel::Method("ChallengeToken", "decode"),
                    Sel::Method("Packet", "generate_challenge"),
                    Sel::Method("Packet", "encode"),
                    Sel::Method("Packet", "decode"),
                ],
            ),
        ],
    ),
    // renetcode server: lookups, accessors, clock
    (
        "NcServerQuery",
        &[
            ("renetcode/src/lib.rs", &[Sel::Const("NETCODE_MAX_CLIENTS")]),
            (
                "renetcode/src/server.rs",
                &[
                    Sel::Fn("find_client_by_id"),
                    Sel::Fn("find_client_slot_by_id"),
                    Sel::Method("NetcodeServer", "addresses"),
                    Sel::Method("NetcodeServer", "current_time"),
                    Sel::Method("NetcodeServer", "user_data"),
                    Sel::Method("NetcodeServer", "time_since_last_received_packet"),
                    Sel::Method("NetcodeServer", "client_addr"),
                    Sel::Method("NetcodeServer", "clients_slot"),
                    Sel::Method("NetcodeServer", "clients_id_iter"),
                    Sel::Method("NetcodeServer", "clients_id"),
                    Sel::Method("NetcodeServer", "max_clients"),
                    Sel::Method("NetcodeServer", "set_max_clients"),
                    Sel::Method("NetcodeServer", "connected_clients"),
                    Sel::Method("NetcodeServer", "is_client_connected"),
                    Sel::Method("NetcodeServer", "update"),
                ],
            ),
        ],
    ),
    // renetcode server: packets to a connected client
    (
        "NcServerSend",
        &[
            (
                "renetcode/src/lib.rs",
                &[Sel::Const("NETCODE_MAX_PAYLOAD_BYTES"), Sel::Const("NETCODE_SEND_RATE")],
            ),
            (
                "renetcode/src/server.rs",
                &[
                    Sel::Fn("find_client_mut_by_id"),
                    Sel::Method("NetcodeServer", "generate_payload_packet"),
                    Sel::Method("NetcodeServer", "update_client"),
                    Sel::Method("NetcodeServer", "disconnect"),
                ],
            ),
        ],
    ),
    // renetcode server: construction, handshake, incoming packets
    (
        "NcServerRecv",
        &[
            ("renetcode/src/lib.rs", &[Sel::Const("NETCODE_MAX_PACKET_BYTES"), Sel::Const("NETCODE_MAX_PENDING_CLIENTS")]),
            (
                "renetcode/src/server.rs",
                &[
                    Sel::Fn("find_client_mut_by_addr"),
                    Sel::Method("NetcodeServer", "new"),
                    Sel::Method("NetcodeServer", "handle_connection_request"),
                    Sel::Method("NetcodeServer", "process_packet_internal"),
                    Sel::Method("NetcodeServer", "process_packet"),
                ],
            ),
        ],
    ),
    // renetcode: connect-token generation (client side / matchmaker)
    (
        "NcTokenGen",
        &[(
            "renetcode/src/token.rs",
            &[Sel::Method("PrivateConnectToken", "generate"), Sel::Method("ConnectToken", "generate")],
        )],
    ),
    // renetcode client
    (
        "NcClient",
        &[
            ("renetcode/src/packet.rs", &[Sel::Method("Packet", "connection_request_from_token")]),
            (
                "renetcode/src/client.rs",
                &[
                    Sel::Enum("ClientState"),
                    Sel::Enum("ClientAuthentication"),
                    Sel::Struct("NetcodeClient"),
                    Sel::Method("NetcodeClient", "new"),
                    Sel::Method("NetcodeClient", "is_connecting"),
                    Sel::Method("NetcodeClient", "is_connected"),
                    Sel::Method("NetcodeClient", "is_disconnected"),
                    Sel::Method("NetcodeClient", "current_time"),
                    Sel::Method("NetcodeClient", "client_id"),
                    Sel::Method("NetcodeClient", "time_since_last_received_packet"),
                    Sel::Method("NetcodeClient", "disconnect_reason"),
                    Sel::Method("NetcodeClient", "server_addr"),
                    Sel::Method("NetcodeClient", "disconnect"),
                    Sel::Method("NetcodeClient", "process_packet"),
                    Sel::Method("NetcodeClient", "generate_payload_packet"),
                    Sel::Method("NetcodeClient", "update_internal_state"),
                    Sel::Method("NetcodeClient", "generate_packet"),
                    Sel::Method("NetcodeClient", "update"),
                ],
            ),
        ],
    ),
    // renet_netcode: the UDP transports (socket = semantic-model type `RustSem.UdpSocket`)
    (
        "TrServer",
        &[
            (
                "renet_netcode/src/lib.rs",
                &[
                    Sel::Enum("NetcodeTransportError"),
                    Sel::From("NetcodeTransportError", "NetcodeError"),
                    Sel::From("NetcodeTransportError", "DisconnectReason"),
                    Sel::From("NetcodeTransportError", "Error"),
                ],
            ),
            (
                "renet_netcode/src/server.rs",
                &[
                    Sel::Struct("NetcodeServerTransport"),
                    Sel::Fn("handle_server_result"),
                    Sel::Method("NetcodeServerTransport", "new"),
                    Sel::Method("NetcodeServerTransport", "addresses"),
                    Sel::Method("NetcodeServerTransport", "max_clients"),
                    Sel::Method("NetcodeServerTransport", "set_max_clients"),
                    Sel::Method("NetcodeServerTransport", "connected_clients"),
                    Sel::Method("NetcodeServerTransport", "user_data"),
                    Sel::Method("NetcodeServerTransport", "client_addr"),
                    Sel::Method("NetcodeServerTransport", "disconnect_all"),
                    Sel::Method("NetcodeServerTransport", "time_since_last_received_packet"),
                    Sel::Method("NetcodeServerTransport", "update"),
                    Sel::Method("NetcodeServerTransport", "send_packets"),
                ],
            ),
        ],
    ),
    (
        "TrClient",
        &[(
            "renet_netcode/src/client.rs",
            &[
                Sel::Struct("NetcodeClientTransport"),
                Sel::Method("NetcodeClientTransport", "new"),
                Sel::Method("NetcodeClientTransport", "client_id"),
                Sel::Method("NetcodeClientTransport", "time_since_last_received_packet"),
                Sel::Method("NetcodeClientTransport", "disconnect"),
                Sel::Method("NetcodeClientTransport", "disconnect_reason"),
                Sel::Method("NetcodeClientTransport", "send_packets"),
                Sel::Method("NetcodeClientTransport", "update"),
            ],
        )],
    ),
    // renetcode: the four functions of crypto.rs, translated from the source text.  The RustCrypto calls they make
    // (`Nonce::from`, `XNonce::from_slice`, `Tag::from_slice`, `Key::from_slice`, `(X)ChaCha20Poly1305::new`,
    // `encrypt_in_place_detached`, `decrypt_in_place_detached`) are the external interface: builtins of
    // `Base/RustSemCrypto.lean` over the abstract `[RustSem.Aead]`.  Every OTHER group keeps calling the hand-written
    // `RustSem.encrypt_in_place` … builtins (see `Cx::find_fn`); `Props/SrcTieNcCrypto.lean` proves the two equal.
    // (last: it refers to `NETCODE_MAC_BYTES` of group NcCodec)
    (
        "NcCrypto",
        &[(
            "renetcode/src/crypto.rs",
            &[
                Sel::Fn("dencrypted_in_place"),
                Sel::Fn("dencrypted_in_place_xnonce"),
                Sel::Fn("encrypt_in_place"),
                Sel::Fn("encrypt_in_place_xnonce"),
            ],
        )],
    ),
    // renet: the library's DEFAULT configuration (`ConnectionConfig::default()`, built from `DefaultChannel::config()`).
    // (last, so that the emission order — and with it the text — of every earlier group is unchanged; it refers to
    // `ChannelConfig` / `SendType` / `ConnectionConfig` of group ConnTypes)
    (
        "Config",
        &[
            (
                "renet/src/channel/mod.rs",
                &[Sel::Enum("DefaultChannel"), Sel::From("u8", "DefaultChannel"), Sel::Method("DefaultChannel", "config")],
            ),
            ("renet/src/remote_connection.rs", &[Sel::TraitFn("Default", "ConnectionConfig", "default")]),
        ],
    ),
];

pub fn work_list() -> Vec<WorkItem> {
    let mut v = Vec::new();
    for (g, files) in GROUPS {
        for (f, sels) in *files {
            for s in *sels {
                v.push(WorkItem { group: g.to_string(), file: f.to_string(), sel: *s, followed: false });
            }
        }
    }
    v
}

pub fn group_names() -> Vec<String> {
    GROUPS.iter().map(|(g, _)| g.to_string()).collect()
}

/// Fuel of `while` loops: (file, fn as `Type::name` or `name`, one Rust expression per `while` in source
/// order).  The expression is evaluated at loop entry; the emitted loop runs its body at most that many
/// times (the last run is the one whose condition fails) and otherwise panics at the distinguished site
/// `"<file>:<fn>: fuel exhausted"` — the equivalence proofs show that this site is never reached.
pub const WHILE_FUEL: &[(&str, &str, &[&str])] = &[
    ("renet/src/remote_connection.rs", "RenetClient::acked_largest", &["self.pending_acks.len() + 1"]),
    (
        "renet/src/channel/unreliable.rs",
        "SendChannelUnreliable::get_packets_to_send",
        &["self.unreliable_messages.len() + 1"],
    ),
    // every round removes one element of the set
    (
        "renet/src/channel/reliable.rs",
        "ReceiveChannelReliable::receive_message",
        &["received_messages.len() + 1"],
    ),
    // `loop { match socket.recv_from(..) { .. } }`: every round consumes one event of the socket's script (`pending()` is
    // the model-only observer `RustSem.UdpSocket.pending`) or ends the loop
    ("renet_netcode/src/server.rs", "NetcodeServerTransport::update", &["self.socket.pending() + 1"]),
    ("renet_netcode/src/client.rs", "NetcodeClientTransport::update", &["self.socket.pending() + 1"]),
];

/// `for v in <hash map>.values_mut()` loops that are accepted although the iteration order of a `HashMap` is
/// unspecified: (file, fn, receiver text, justification).  The translator ADDITIONALLY checks what the justification
/// claims: the body assigns nothing but (through) the loop variable and has no `break` / `return` / `?` / labelled
/// jump (a plain `continue` only ends its own round), so the rounds commute and the final map does not depend on their order (the generated loop visits the
/// values in key order; which of several panicking rounds fires first is the only observable difference, and panics
/// are compared up to their site).
pub const HASHMAP_VALUES_MUT_OK: &[(&str, &str, &str, &str)] = &[
    (
        "renet/src/remote_connection.rs",
        "RenetClient::update",
        "self.receive_unreliable_channels",
        "each iteration touches only its own value",
    ),
    ("renet/src/server.rs", "RenetServer::disconnect_all", "self.connections", "each iteration touches only its own connection"),
    ("renet/src/server.rs", "RenetServer::broadcast_message", "self.connections", "each iteration touches only its own connection"),
    (
        "renet/src/server.rs",
        "RenetServer::broadcast_message_except",
        "self.connections",
        "each iteration touches only its own connection (the key is only compared)",
    ),
    ("renet/src/server.rs", "RenetServer::update", "self.connections", "each iteration touches only its own connection"),
    (
        "renetcode/src/server.rs",
        "NetcodeServer::update",
        "self.pending_clients",
        "each iteration touches only its own pending connection",
    ),
];

/// read-only `hash_map.iter()` chains that are accepted although the iteration order of a `HashMap` is unspecified:
/// (file, fn, receiver text, justification).  The generated code visits the bindings in key order.  Either the result
/// does not depend on the order (`count()`), or it exposes the order and the equivalence theorems claim it only up
/// to a permutation (see the header of `Base/RustSem.lean`).
pub const HASHMAP_ITER_ORDER_OK: &[(&str, &str, &str, &str)] = &[
    ("renet/src/server.rs", "RenetServer::clients_id_iter", "self.connections", "result claimed up to permutation"),
    ("renet/src/server.rs", "RenetServer::disconnections_id_iter", "self.connections", "result claimed up to permutation"),
    ("renet/src/server.rs", "RenetServer::connected_clients", "self.connections", "`count()` does not depend on the order"),
];

/// Types whose fields hold `&mut` references and that are nevertheless translated by value: (file, type, justification).
/// Everywhere else a `&mut` inside a struct / enum field is a TRANSLATE-ERROR.
pub const BORROWED_FIELDS_OK: &[(&str, &str, &str)] = &[(
    "renetcode/src/server.rs",
    "ServerResult",
    "result type only: its `&'s mut [u8]` payloads are slices of the server's scratch buffer `out`, built in return \
     position; the value is the snapshot of those bytes at the return (the buffer is rewritten before it is read again)",
)];

/// Functions whose RETURN type holds a `&mut` reference that is nevertheless translated by value: (file, fn, justification).
/// (Finders — see `FnInfo::ref_ret` — need no entry; every other `&mut` in a return type is a TRANSLATE-ERROR.)
pub const BORROWED_RETURN_OK: &[(&str, &str, &str)] = &[
    (
        "renetcode/src/server.rs",
        "NetcodeServer::generate_payload_packet",
        "returns `&mut self.out[..len]`, a slice of the scratch buffer built in return position: the value is the snapshot of \
         those bytes at the return",
    ),
    ("renetcode/src/client.rs", "NetcodeClient::disconnect", "returns `&mut self.out[..len]` (as above)"),
    ("renetcode/src/client.rs", "NetcodeClient::generate_payload_packet", "returns `&mut self.out[..len]` (as above)"),
    ("renetcode/src/client.rs", "NetcodeClient::generate_packet", "returns `&mut self.out[..encoded]` (as above)"),
    ("renetcode/src/client.rs", "NetcodeClient::update", "passes on the slice `generate_packet` returns"),
];

/// External types that are not translated but mapped to an opaque RustSem type
/// (last path segments, Lean name).
pub const OPAQUE_TYPES: &[(&[&str], &str)] = &[
    (&["io", "Error"], "RustSem.IoError"),
    (&["SocketAddr"], "RustSem.SocketAddr"),
    // `std::net`: a `SocketAddrV4` / `SocketAddrV6` is a `SocketAddr` of that variant (bound by `SocketAddr::V4(a)`),
    // `Ipv4Addr` / `Ipv6Addr` are their octets (see `conv_ty`)
    (&["SocketAddrV4"], "RustSem.SocketAddrV4"),
    (&["SocketAddrV6"], "RustSem.SocketAddrV6"),
    (&["IpAddr"], "RustSem.IpAddr"),
    // `chacha20poly1305::aead::Error as CryptoError`: the one-point error of the external AEAD
    (&["CryptoError"], "RustSem.CryptoError"),
];

/// External sources of randomness (not translated): a call `f()` of one of these fns (by simple name; it must not be a
/// translated fn) becomes an EXPLICIT parameter `rand<k> : List Nat` of the generated function — the k-th call site in
/// textual order (the fresh bytes the call returns).  Call sites inside loops / closures are rejected.  A translated fn
/// that calls a fn with such parameters gets one parameter of its own per parameter of the callee (same rule).
pub const RANDOM_SOURCES: &[(&str, &str)] = &[("renetcode/src/crypto.rs", "generate_random_bytes")];
