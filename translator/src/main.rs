//! Rust -> Lean translator for the renet verification project.
//!
//! `translator --repo <repo root> (--out <…/Generated/Src.lean> | --out-dir <…/Generated/Src>) [--module-prefix M] [--list-groups]`
//!
//! Parses the source files named in `manifest::GROUPS` with `syn`, finds the selected items and emits one
//! Lean file PER GROUP (`<out-dir>/<Group>.lean`, namespace `RenetVerif.Src.<crate>.<module>`) plus the umbrella
//! `<out-dir>.lean` importing all of them.  The definitions call the primitives of
//! `RenetVerif/Base/RustSem.lean`.  The Lean text is derived from the AST expression by expression
//! and statement by statement (`trans.rs`); there are no per-function special cases.  Anything
//! outside the supported subset stops the run with
//!     TRANSLATE-ERROR <file>:<line>: <what>
//! (one line per failed group, suffixed ` [group X]`) and a non-zero exit status.  Only the file of the failed
//! group is replaced by a stub that does not compile (so a stale translation can never be checked); all other
//! groups are generated normally.  A call of a fn / inherent method of the same crate that is not in the manifest
//! is FOLLOWED: the callee is located in the crate's sources and translated into the same group file.  The output is a deterministic function of the source text.
//!
//! Supported subset (everything else is a TRANSLATE-ERROR):
//!   items      `const` (pure initialiser), `struct` with named fields, `enum` (unit / tuple / struct variants,
//!              explicit discriminants), free `fn`, inherent methods (`&self`, `self`, `&mut self`),
//!              `impl From<A> for B { fn from }` (used by `?`); no generics (lifetimes are ignored)
//!              (`B` may be a primitive integer: `Self` is then that integer type), `impl Trait for T { fn name }` of a trait
//!              without generic arguments, selected by `Sel::TraitFn` (`impl Default for T { fn default }`), as the method `T::name`
//!   types      `u8 u16 u32 u64 usize` (Nat + width), `bool`, `()`, tuples, `[T; N]` / `Vec<T>` / `&[T]` / `Bytes`
//!              (List), `Option<T>`, `Result<T, E>` (return type only), selected structs/enums, `&T`/`&mut T`
//!              transparent; table-mapped: `io::Error`, `Range<u64>`, `octets::{OctetsMut, Octets, BufferTooShortError}`
//!   statements `let` (ident / `_` / tuple pattern, optional type), assignment and compound assignment to
//!              places (`x`, `x.f`, `x[i]`, nested), `if` / `else if` / `if let`, `match`, blocks,
//!              `for i in a..b`, `for x in list` / `&list` / `list.iter()` (ident, `_`, tuple pattern),
//!              early `return`, `use Enum::*;`, `log::…!` (ignored), `unreachable!`/`panic!`/`todo!` (panic)
//!   expressions literals (int with unsigned suffix, bool, byte, byte string), paths (locals, selected consts,
//!              enum variants, `uN::MAX`), `+ - * / %` (checked), `<< >>` (checked amount), `& | ^ !`,
//!              comparisons, `&& ||` (short-circuit kept when the right side can panic), `as` casts to unsigned
//!              (from unsigned, bool, field-less enum), field access, indexing, `[a..b]` slices, tuples,
//!              struct / enum-variant literals, `[x; n]`, `[a, b]`, `vec![x; n]`, `vec![..]`, `matches!`,
//!              `Some(..)`/`None`, `Ok(..)`/`Err(..)` in return position, `?` on calls of translated /
//!              semantic-model `Result` fns, calls of selected fns, `a..b` as `Range<u64>` value, `std::mem::take`
//!   methods    ints: `checked_/wrapping_/saturating_{add,sub,mul}`, `to_le_bytes`, `to_be_bytes`, `min`, `max`;
//!              `uN::from_le_bytes/from_be_bytes/from`; lists: `len is_empty to_vec clone into iter rev next`,
//!              statements `resize push extend_from_slice clear truncate reverse copy_from_slice`;
//!              `Option`: `is_some is_none unwrap`; `Vec::new`, `Vec::with_capacity`, `Bytes::from`;
//!              octets model: `put_u8 put_u16 put_u32 put_u64 put_varint put_bytes cap`,
//!              `get_u8 get_u16 get_u32 get_u64 get_varint get_bytes get_bytes_with_varint_length len is_empty to_vec`
//!   stage 2    struct VIEWS (manifest: only the named fields; other fields ⇒ error), `while` loops on manifest FUEL
//!              (`RustSem.whileFuel`; `continue` / `break` / `return` inside; panic site "<file>:<fn>: fuel exhausted"),
//!              `let x = &mut place;` aliases, `Vec::insert` / `remove`, `Range::contains` / `is_empty`,
//!              `for (i, x) in v.iter().enumerate()`, `Duration` (ns; compare / copy / `Duration::MAX`), `SocketAddr`,
//!              `Box<T>`, `==` / `!=` on arrays / structs / enums / table types, `let mut x = None; … x = Some(e)`,
//!              `&mut impl io::Read` / `&mut impl io::Write` parameters (cursor models; `read_exact(&mut buf[..])`,
//!              `write_all`, `write`), calls that pass such cursors on, `Result` tail calls, `const N: usize`
//!              generics (argument from turbofish or the array type of the `let`), `io::Error::new`, `i32` pass-through
//!   stage 3    per-group output files and failure isolation; FOLLOWED calls (free fns / inherent methods of the same
//!              crate that are not in the manifest are located and translated into the caller's group);
//!              `Option::is_some_and(|x| e)`, `map_or(d, |x| e)`, `unwrap_or(v)`, `uN::leading_zeros/trailing_zeros`,
//!              `for x in v.iter_mut()` / `for (i, x) in v.iter_mut().enumerate()` (≡ index loop with `x` an alias of `v[i]`)
//!   stage 4    `VecDeque` (list; `push_back`, `pop_front`), `while let PAT = e` (fuelled), `&mut uN` parameters (threaded),
//!              `Bytes::slice(a..b)`, `uN::div_ceil`, `octets::varint_len`
//!   stage 5    `Result` fns with `&mut` state return `Res (E × State) (State × T)` (the `Err` carries the state);
//!              `BTreeMap<uN, V>` / `HashMap<uN, V>` as key-sorted association lists (`contains_key get insert remove len
//!              is_empty`, `entry(k).or_insert_with(|| e)` / `or_insert(e)` as alias of the entry, `remove` as value,
//!              `for (k, v) in btree.iter()`; HashMap iteration rejected), `Duration` `+ -`, `from_secs`, `from_millis`,
//!              nested `const`, `Option::expect`;
//!              `let PAT = e else { diverging }` (the rest of the block is the match arm), `let Some(x) = map.get_mut(&k)
//!              else {..}` (`x` is an alias of the entry); a struct-variant pattern matched against a `&mut` place
//!              (`match alias {..}`, `let V {..} = alias else {..}`) binds ALIASES of the variant's fields (read through
//!              the generated accessor `E.V.f?`, written through `E.V.set_f`); other patterns on a `&mut` place bind
//!              values and any assignment through them is rejected; `break` / `continue` in `for` loops and loop labels
//!              (`forRangeExit` / `forEachExit`: the early-exit channel of the body carries a `LoopExit`; a labelled jump
//!              out of an inner loop is `LoopExit.ret` of the outer loop's `LoopExit`); `for (&k, v) in btree.iter_mut()`
//!              (a loop over the positions; `v` is an alias of the value of the `i`-th binding);
//!              `BTreeSet<uN>` as the ascending list of its elements (`new contains insert remove len is_empty iter`),
//!              `match &mut place {..}` / `if let .. = &mut place`, `if let Entry::Vacant(e) = map.entry(k) { .. e.insert(v) .. }`
//!              (≡ `if !map.contains_key(k) { .. map.insert(k, v) .. }`), `btree.pop_first()` / `first_key_value()`,
//!              `e?` in a fn returning `Option`, a tail `if` / `match` whose branches assign outer variables;
//!              types of different crates that share a simple name (the later one is keyed `<crate>::<Name>`; Lean names
//!              are the simple name in the module's namespace), or-patterns whose alternatives bind the same variables,
//!              `let x = &mut <call>` (the variable owns the temporary), `io::Cursor::new(slice)` as a `ReadCursor`,
//!              const-generic array length of `let x = f(..)?` inferred from the array-typed struct / variant field that
//!              `x` later initialises, a diverging macro as the value of a `Result` match arm;
//!              `std::net` (`SocketAddr::V4(a)` / `V6(a)` patterns, `a.ip().octets()`, `port()`, `SocketAddr::new`,
//!              `IpAddr::V4/V6`, `Ipv4Addr::from` / `Ipv6Addr::from`), `iter().filter(|x| pure bool).count()`,
//!              `iter().flatten()` over `Option`s, `for x in place.iter_mut().take(n)`, integer `match` with `const`
//!              patterns (an `if` chain), arithmetic in `const` initialisers (exact: evaluated by the compiler),
//!              `i32::to_le_bytes`; a variable holding a `&mut` reference / cursor that is passed as a bare call
//!              argument counts as assigned (it is threaded through the enclosing loop / branch)
//!   stage 6    manifest `StructIgnore(name, fields)`: the struct without the IGNORED fields — an assignment to an ignored
//!              field, a method call on it, a `let` of a value computed from ignored fields / floats and an `if` whose
//!              condition reads them and whose branches only write them are DROPPED (their translatable operands are
//!              still evaluated for their panics); any other read of an ignored field is a TRANSLATE-ERROR;
//!              `fn f<I: Into<T>>(x: I)` (`x` is a `T`, `x.into()` the identity); `map.insert(k, v)` as a value;
//!              `assert!`; `if let Some(x) = map.get_mut(&k) {..} else ..` (alias); a `Result` call inspected by the
//!              caller (`if let Err(e) = f(..)`, `match f(..) { Ok(x) => .., Err(e) => .. }`: `Exec.attempt`, the `&mut`
//!              state is written back after `Ok` AND after `Err`)
//!              manifest `TypeAlias` (`type Payload = Vec<u8>`); `let x = map.get_mut(&k).unwrap()` (alias);
//!              `&mut` integer arguments of a `&mut self` method call on a place / alias (receiver and places written
//!              back, also through `Exec.attempt`); `v.append(&mut tmp)`; `xs.iter().map(|pat| e).collect()` (pure
//!              closure → `List.map`), `last()` / `first()`; `OctetsMut::with_slice(&mut local_buffer)` (the buffer
//!              follows the cursor's writes); value-position `match` / `if` whose arms assign outer variables
//!              `for v in map.values_mut()` (BTreeMap; a HashMap only under the manifest whitelist
//!              HASHMAP_VALUES_MUT_OK and the check that the body touches nothing but its own value);
//!              `btree.range(r)` with a `Range<u64>` value
//!   stage 7    (RenetServer) unit structs; `#[derive(Clone)]` → `clone()` identity on translated types; `&mut T` parameters of a
//!              translated struct type; `impl Iterator<Item = T>` return types (lists, eager); `filter` closures that call
//!              translated fns (`RustSem.filterM`); `match map.get_mut(&k) { Some(x) => .., None => .. }`; HashMap
//!              `iter_mut()` / `values_mut()` with `continue` under HASHMAP_VALUES_MUT_OK; read-only HashMap `iter()` chains
//!              under HASHMAP_ITER_ORDER_OK (order-independent, or claimed up to permutation)
//!   stage 8    (netcode codec) `renetcode/src/crypto.rs` as an EXTERNAL interface: its four functions are builtins over the
//!              abstract instance parameter `[RustSem.Aead]` (files of the groups that use them, transitively, declare
//!              `variable [RustSem.Aead]`); `&mut [u8]` / array parameters; `&mut buf[a..b]` arguments (`Place::Range`);
//!              writing `io::Cursor::new(&mut buf)` with the buffer following the cursor, reader / writer chosen by the
//!              callee's parameter type or by lookahead; `position()` / `set_position()`; `Option<&mut T>` parameters
//!              (`Place::OptSome` / `OptWrap`); nested `&mut` in parameter / return types rejected
//!   stage 9    (netcode server) `HashMap<SocketAddr, V>` = `RustSem.AMap`; `retain(|k, v| pure)`; `find` / `find_map` /
//!              `filter_map` / `any` / `position` / `Option::map` / `enumerate` adaptors (pure or monadic closures); match
//!              guards (desugared); `Box<[T]>`, `mem::take` of it, `into_vec` / `into_boxed_slice`; `Duration::as_secs`;
//!              methods named like fields get a `'`; `&mut` in struct / enum fields rejected unless BORROWED_FIELDS_OK
//!              finder fns (`-> Option<&mut T>` with body `iter_mut().flatten().find(..)`: position + call-site alias);
//!              BORROWED_RETURN_OK (a returned `&[u8]` slice of `self` by value); `&mut buf[a..b]` rvalue snapshots; `i32`
//!              comparisons and `as uW` casts (`RustSem.cast_i32`); `if let Some(x) = &mut place`; `Option::take` on a place
//!   stage 10   (netcode server, receive side) manifest RANDOM_SOURCES: `generate_random_bytes()` = explicit `rand<k>` parameters
//!              (`Globals::rand_counts`, `analysis::RandScan`); `Box::new`; `slice.contains`; `Cx::snapshots` (write-back of a
//!              callee's `Err` state into indexed / map / `Option` places); early `return tail_call(..)`; `Exec.attempt2`;
//!              `Doc::Typed` (tuple binds whose branches all leave the fn)
//!   stage 11   (netcode client, token generation) `vec.into_iter()`; or-patterns inside tuple patterns (distributed);
//!              randomness parameters threaded through callers (`ConnectToken::generate` → `NetcodeClient::new`)
//!   stage 12   (renet_netcode transports) cross-crate `use` resolution (`IMPORTS` / `OWNERS` / `CRATES`); the builtin model
//!              type `UdpSocket` (`recv_from`, `send_to`, `set_nonblocking`, model-only `pending`), `&UdpSocket` threaded
//!              as state; `io::ErrorKind` / `e.kind()`; `loop {}` = `while true` (manifest fuel); local closures inlined
//!              at their call sites (`Cx::local_closures`); guards on a call scrutinee (fresh `scrut_<k>`), consecutive
//!              same-pattern guarded arms → one if-else chain; `Cx::range_capture` (`let x = match .. { .. => &mut
//!              p[a..b], .. }`); `.into()` / `?` through selected `From` impls; `Result::unwrap()`; `break` / `continue`
//!              in value position
//!   stage 13   (netcode crypto) `renetcode/src/crypto.rs` itself (group NcCrypto): `let (a, b) = place.split_at_mut(mid)` (two
//!              `Place::Range` aliases of `place`, bounds-checked once), a `let` that shadows an alias in its own scope; the
//!              RustCrypto calls are builtins of `Base/RustSemCrypto.lean` (imported by the groups that use them) over
//!              `[RustSem.Aead]`; callers in other files keep the hand-written `RustSem.encrypt_in_place` … builtins
//!              (`Cx::find_fn`), proved equal to the translation in `Props/SrcTieNcCrypto.lean`
//!   not supported: valued `break`, closures other than the pure `map` / `or_insert_with` ones, generics, traits, signed integers, floats,
//!              references stored in data, `ref mut`, `&mut` parameters other than `self`, unsigned integers and the
//!              octets / io cursors.

mod doc;
mod follow;
mod globals;
mod manifest;
mod trans;
mod ty;

use std::process::exit;

/// a call of a fn / method that is not (yet) translated: the driver may follow it
#[derive(Clone, Debug)]
pub struct Missing {
    pub self_ty: Option<String>,
    pub name: String,
}

#[derive(Clone, Debug)]
pub struct TErr {
    pub file: String,
    pub line: usize,
    pub msg: String,
    pub missing: Option<Missing>,
}
pub type R<T> = Result<T, TErr>;

fn usage() -> ! {
    eprintln!("usage: translator --repo <repo root> (--out <…/Src.lean> | --out-dir <…/Src>) [--module-prefix <Lean module prefix>] [--list-groups]");
    exit(2);
}

fn main() {
    let args: Vec<String> = std::env::args().collect();
    let mut repo: Option<String> = None;
    let mut out: Option<String> = None;
    let mut out_dir: Option<String> = None;
    let mut module_prefix: Option<String> = None;
    let mut list = false;
    let mut i = 1;
    while i < args.len() {
        match args[i].as_str() {
            "--repo" if i + 1 < args.len() => {
                repo = Some(args[i + 1].clone());
                i += 2;
            }
            "--out" if i + 1 < args.len() => {
                out = Some(args[i + 1].clone());
                i += 2;
            }
            "--out-dir" if i + 1 < args.len() => {
                out_dir = Some(args[i + 1].clone());
                i += 2;
            }
            "--module-prefix" if i + 1 < args.len() => {
                module_prefix = Some(args[i + 1].clone());
                i += 2;
            }
            "--list-groups" => {
                list = true;
                i += 1;
            }
            _ => usage(),
        }
    }
    // `--out F.lean` ≡ `--out-dir F`: the directory of group files and the umbrella `<dir>.lean` next to it
    let dir: Option<String> = match (&out_dir, &out) {
        (Some(d), _) => Some(d.trim_end_matches('/').to_string()),
        (None, Some(f)) => Some(f.trim_end_matches(".lean").to_string()),
        (None, None) => None,
    };
    let repo = match repo {
        Some(r) => r,
        None => usage(),
    };
    let result = run(&repo);
    if list {
        for gname in manifest::group_names() {
            let file = match &dir {
                Some(d) => format!("{}/{}.lean", d, gname),
                None => format!("<out-dir>/{}.lean", gname),
            };
            println!("group {} -> {}", gname, file);
            for w in result.work.iter().filter(|w| w.group == gname) {
                println!("    {}: {}{}", w.file, sel_text(&w.sel), if w.followed { "   (followed call)" } else { "" });
            }
        }
        if dir.is_none() {
            exit(0);
        }
    }
    let dir = match dir {
        Some(d) => d,
        None => usage(),
    };
    let prefix = match module_prefix {
        Some(p) => p,
        None => {
            let comps: Vec<&str> = dir.split('/').filter(|c| !c.is_empty()).collect();
            match comps.iter().rposition(|c| *c == "RenetVerif") {
                Some(ix) => comps[ix..].join("."),
                None => {
                    eprintln!("translator: cannot derive the Lean module prefix from `{}` (no `RenetVerif` path component): pass --module-prefix", dir);
                    exit(2);
                }
            }
        }
    };
    if let Err(e) = std::fs::create_dir_all(&dir) {
        eprintln!("translator: cannot create {}: {}", dir, e);
        exit(2);
    }
    let mut any_failed = false;
    let names = manifest::group_names();
    // groups whose definitions (transitively) call the external AEAD of `renetcode/src/crypto.rs`: their files declare the
    // instance variable `[RustSem.Aead]` (Lean adds it to exactly the definitions that use it)
    let mut aead: std::collections::BTreeSet<String> = std::collections::BTreeSet::new();
    loop {
        let mut changed = false;
        for gname in &names {
            if aead.contains(gname) {
                continue;
            }
            if let Some(Ok((body, imports))) = result.groups.get(gname) {
                let direct = body.contains("RustSem.encrypt_in_place") || body.contains("RustSem.dencrypted_in_place") || uses_rustcrypto(body);
                let via = imports.iter().any(|im| im.rsplit('.').next().map(|g| aead.contains(g)).unwrap_or(false));
                if direct || via {
                    aead.insert(gname.clone());
                    changed = true;
                }
            }
        }
        if !changed {
            break;
        }
    }
    for gname in &names {
        let path = format!("{}/{}.lean", dir, gname);
        let text = match result.groups.get(gname) {
            Some(Ok((body, imports))) => {
                let mut t = String::new();
                t.push_str(&format!("-- GENERATED by /verif/translator (group {}) from the Rust sources — do not edit\n", gname));
                t.push_str("-- regenerate: translator --repo <repo root> --out-dir <directory of this file>\n");
                t.push_str("import RenetVerif.Base.RustSem\n");
                if uses_rustcrypto(body) {
                    // the RustCrypto interface of renetcode/src/crypto.rs (group NcCrypto): a separate file of primitives
                    t.push_str("import RenetVerif.Base.RustSemCrypto\n");
                }
                for im in imports {
                    t.push_str(&format!("import {}.{}\n", prefix, im));
                }
                t.push_str("set_option linter.unusedVariables false\n");
                t.push_str("namespace RenetVerif.Src\n");
                t.push_str("open RenetVerif\n");
                t.push_str("open RenetVerif.RustSem (Exec)\n");
                if aead.contains(gname) {
                    t.push_str("-- the AEAD of renetcode/src/crypto.rs is a parameter (see the header of Base/RustSem.lean)\n");
                    t.push_str("variable [RustSem.Aead]\n");
                }
                t.push_str(body);
                t.push_str("\nend RenetVerif.Src\n");
                t
            }
            Some(Err(e)) => {
                any_failed = true;
                let line = format!("TRANSLATE-ERROR {}:{}: {} [group {}]", e.file, e.line, e.msg, gname);
                println!("{}", line);
                eprintln!("{}", line);
                let msg = line.replace('"', "'").replace('\\', "/");
                format!(
                    "-- {}\n-- GENERATED by /verif/translator — translation of group {} FAILED, this file intentionally does not compile\nimport RenetVerif.Base.RustSem\ntheorem RenetVerif.Src.translate_error_{} : False := \"{}\"\n",
                    msg, gname, gname, msg
                )
            }
            None => continue,
        };
        if let Err(e) = std::fs::write(&path, text) {
            eprintln!("translator: cannot write {}: {}", path, e);
            exit(2);
        }
    }
    // umbrella
    let mut u = String::new();
    u.push_str("-- GENERATED by /verif/translator — umbrella importing every group file; do not edit\n");
    for gname in &names {
        u.push_str(&format!("import {}.{}\n", prefix, gname));
    }
    if let Err(e) = std::fs::write(format!("{}.lean", dir), u) {
        eprintln!("translator: cannot write {}.lean: {}", dir, e);
        exit(2);
    }
    // stale group files of earlier manifests
    if let Ok(rd) = std::fs::read_dir(&dir) {
        for ent in rd.flatten() {
            let n = ent.file_name().to_string_lossy().to_string();
            if let Some(stem) = n.strip_suffix(".lean") {
                if !names.iter().any(|g| g == stem) {
                    let _ = std::fs::remove_file(ent.path());
                }
            }
        }
    }
    if any_failed {
        exit(1);
    }
}

/// does the group body call the RustCrypto builtins (`globals::register_builtins`) that live in `Base/RustSemCrypto.lean`?
fn uses_rustcrypto(body: &str) -> bool {
    ["RustSem.ChaCha20Poly1305.", "RustSem.XChaCha20Poly1305.", "RustSem.Key.", "RustSem.Tag.", "RustSem.Nonce.", "RustSem.XNonce."]
        .iter()
        .any(|m| body.contains(m))
}

fn sel_text(s: &manifest::Sel) -> String {
    use manifest::Sel::*;
    match s {
        Const(n) => format!("const {}", n),
        Struct(n) => format!("struct {}", n),
        TypeAlias(n) => format!("type {}", n),
        StructView(n, f) => format!("struct {} (view: {})", n, f.join(", ")),
        StructIgnore(n, f) => format!("struct {} (ignored fields: {})", n, f.join(", ")),
        Enum(n) => format!("enum {}", n),
        Fn(n) => format!("fn {}", n),
        Method(t, n) => format!("fn {}::{}", t, n),
        From(d, s) => format!("impl From<{}> for {}", s, d),
        TraitFn(tr, t, n) => format!("impl {} for {} {{ fn {} }}", tr, t, n),
    }
}

pub struct RunResult {
    pub work: Vec<manifest::WorkItem>,
    /// per group: body text and imported groups, or the error
    pub groups: std::collections::BTreeMap<String, Result<(String, Vec<String>), TErr>>,
}

fn run(repo: &str) -> RunResult {
    use std::collections::BTreeMap;
    let mut cache = globals::FileCache::new(repo);
    let mut work = manifest::work_list();
    let names = manifest::group_names();
    let mut rounds = 0;
    loop {
        rounds += 1;
        let mut failed: BTreeMap<String, TErr> = BTreeMap::new();
        for w in &work {
            if let Err(e) = cache.ensure(&w.file) {
                failed.entry(w.group.clone()).or_insert(e);
            }
        }
        let g = globals::Globals::build(&work, &cache, &mut failed);
        let mut groups: BTreeMap<String, Result<(String, Vec<String>), TErr>> = BTreeMap::new();
        let mut retry = false;
        for gname in &names {
            if let Some(e) = failed.get(gname) {
                groups.insert(gname.clone(), Err(e.clone()));
                continue;
            }
            let items: Vec<(usize, &manifest::WorkItem)> =
                work.iter().enumerate().filter(|(_, w)| &w.group == gname).map(|(i, w)| (i + 1, w)).collect();
            g.take_used();
            match trans::emit_group(&g, &cache, &items) {
                Ok(body) => {
                    let imports: Vec<String> = g.take_used().into_iter().filter(|x| x != gname).collect();
                    // a group that depends on a failed group cannot be checked either, but its own file is still written
                    groups.insert(gname.clone(), Ok((body, imports)));
                }
                Err((e, pos)) => {
                    // follow a call of an untranslated fn / method of the same crate
                    if rounds < 64 {
                        if let Some(m) = &e.missing {
                            let caller_idx = items[pos].0 - 1;
                            let caller_file = work[caller_idx].file.clone();
                            if let Some((file, sel)) = follow::locate(&mut cache, &caller_file, m) {
                                let dup = work.iter().any(|w| w.file == file && follow::same_sel(&w.sel, &sel));
                                if !dup {
                                    work.insert(caller_idx, manifest::WorkItem { group: gname.clone(), file, sel, followed: true });
                                    retry = true;
                                    break;
                                }
                            }
                        }
                    }
                    groups.insert(gname.clone(), Err(e));
                }
            }
        }
        if !retry {
            return RunResult { work, groups };
        }
    }
}
