//! Rust -> Lean translator for the renet verification project.
//!
//! `translator --repo <repo root> --out <path to Src.lean>`
//!
//! Parses the source files named in `manifest::MANIFEST` with `syn`, finds the selected items and
//! emits ONE Lean file (namespace `RenetVerif.Src`) whose definitions call the primitives of
//! `RenetVerif/Base/RustSem.lean`.  The Lean text is derived from the AST expression by expression
//! and statement by statement (`trans.rs`); there are no per-function special cases.  Anything
//! outside the supported subset stops the run with
//!     TRANSLATE-ERROR <file>:<line>: <what>
//! and a non-zero exit status (the output file is then overwritten with a file that does not compile,
//! so a stale translation can never be checked).  The output is a deterministic function of the source text.
//!
//! Supported subset (everything else is a TRANSLATE-ERROR):
//!   items      `const` (pure initialiser), `struct` with named fields, `enum` (unit / tuple / struct variants,
//!              explicit discriminants), free `fn`, inherent methods (`&self`, `self`, `&mut self`),
//!              `impl From<A> for B { fn from }` (used by `?`); no generics (lifetimes are ignored)
//!   types      `u8 u16 u32 u64 usize` (Nat + width), `bool`, `()`, tuples, `[T; N]` / `Vec<T>` / `&[T]` / `Bytes`
//!              (List), `Option<T>`, `Result<T, E>` (return type only), selected structs/enums, `&T`/`&mut T`
//!              transparent; table-mapped: `io::Error`, `Range<u64>`, `octets::{OctetsMut, Octets, BufferTooShortError}`
//!   statements `let` (ident / `_` / tuple pattern, optional type), assignment and compound assignment to
//!              places (`x`, `x.f`, `x[i]`, nested), `if` / `else if` / `if let`, `match`, blocks,
//!              `for i in a..b`, `for x in list` / `&list` / `list.iter()` (ident, `_`, tuple pattern),
//!              early `return`, `use Enum::*;`, `log::…!` (ignored), `unreachable!`/`panic!`/`todo!` (panic)
//!   expressions literals (int with unsigned suffix, bool, byte, byte string), paths (locals, selected consts,
//!              enum variants, `uN::MAX`), `+ - * / %` (checked), `<< >>` (checked amount), `& | ^ !`,
//!              comparisons, `&& ||` (short-circuit kept when the right side can panic), `as` casts to unsigned
//!              (from unsigned, bool, field-less enum), field access, indexing, `[a..b]` slices, tuples,
//!              struct / enum-variant literals, `[x; n]`, `[a, b]`, `vec![x; n]`, `vec![..]`, `matches!`,
//!              `Some(..)`/`None`, `Ok(..)`/`Err(..)` in return position, `?` on calls of translated /
//!              semantic-model `Result` fns, calls of selected fns, `a..b` as `Range<u64>` value, `std::mem::take`
//!   methods    ints: `checked_/wrapping_/saturating_{add,sub,mul}`, `to_le_bytes`, `to_be_bytes`, `min`, `max`;
//!              `uN::from_le_bytes/from_be_bytes/from`; lists: `len is_empty to_vec clone into iter rev next`,
//!              statements `resize push extend_from_slice clear truncate reverse copy_from_slice`;
//!              `Option`: `is_some is_none unwrap`; `Vec::new`, `Vec::with_capacity`, `Bytes::from`;
//!              octets model: `put_u8 put_u16 put_u32 put_u64 put_varint put_bytes cap`,
//!              `get_u8 get_u16 get_u32 get_u64 get_varint get_bytes get_bytes_with_varint_length len is_empty to_vec`
//!   stage 2    struct VIEWS (manifest: only the named fields; other fields ⇒ error), `while` loops on manifest FUEL
//!              (`RustSem.whileFuel`; `continue` / `break` / `return` inside; panic site "<file>:<fn>: fuel exhausted"),
//!              `let x = &mut place;` aliases, `Vec::insert` / `remove`, `Range::contains` / `is_empty`,
//!              `for (i, x) in v.iter().enumerate()`, `Duration` (ns; compare / copy / `Duration::MAX`), `SocketAddr`,
//!              `Box<T>`, `==` / `!=` on arrays / structs / enums / table types, `let mut x = None; … x = Some(e)`,
//!              `&mut impl io::Read` / `&mut impl io::Write` parameters (cursor models; `read_exact(&mut buf[..])`,
//!              `write_all`, `write`), calls that pass such cursors on, `Result` tail calls, `const N: usize`
//!              generics (argument from turbofish or the array type of the `let`), `io::Error::new`, `i32` pass-through
//!   not supported: `loop`, labelled loops, `break`/`continue` in `for`, closures, generics, traits, signed integers, floats,
//!              references stored in data, `&mut` parameters other than `self` and the octets cursors,
//!              `Err` returned from a `&mut self` method after `self` was mutated.

mod doc;
mod globals;
mod manifest;
mod trans;
mod ty;

use std::process::exit;

pub struct TErr {
    pub file: String,
    pub line: usize,
    pub msg: String,
}
pub type R<T> = Result<T, TErr>;

fn main() {
    let args: Vec<String> = std::env::args().collect();
    let mut repo: Option<String> = None;
    let mut out: Option<String> = None;
    let mut i = 1;
    while i < args.len() {
        match args[i].as_str() {
            "--repo" if i + 1 < args.len() => {
                repo = Some(args[i + 1].clone());
                i += 2;
            }
            "--out" if i + 1 < args.len() => {
                out = Some(args[i + 1].clone());
                i += 2;
            }
            _ => {
                eprintln!("usage: translator --repo <repo root> --out <path to Src.lean>");
                exit(2);
            }
        }
    }
    let (repo, out) = match (repo, out) {
        (Some(r), Some(o)) => (r, o),
        _ => {
            eprintln!("usage: translator --repo <repo root> --out <path to Src.lean>");
            exit(2);
        }
    };
    match run(&repo) {
        Ok(text) => {
            if let Err(e) = std::fs::write(&out, text) {
                eprintln!("translator: cannot write {}: {}", out, e);
                exit(2);
            }
        }
        Err(e) => {
            println!("TRANSLATE-ERROR {}:{}: {}", e.file, e.line, e.msg);
            eprintln!("TRANSLATE-ERROR {}:{}: {}", e.file, e.line, e.msg);
            // fail-safe: never leave a stale generated file behind — the output does not compile
            let msg = format!("TRANSLATE-ERROR {}:{}: {}", e.file, e.line, e.msg).replace('"', "'").replace('\\', "/");
            let poison = format!(
                "-- {}\n-- GENERATED by /verif/translator — translation FAILED, this file intentionally does not compile\nimport RenetVerif.Base.RustSem\ntheorem RenetVerif.Src.translate_error : False := \"{}\"\n",
                msg, msg
            );
            let _ = std::fs::write(&out, poison);
            exit(1);
        }
    }
}

fn run(repo: &str) -> R<String> {
    // parse every file of the manifest once
    let mut files: Vec<(String, syn::File)> = Vec::new();
    for (path, _) in manifest::MANIFEST {
        if files.iter().any(|(p, _)| p == path) {
            continue;
        }
        let full = format!("{}/{}", repo.trim_end_matches('/'), path);
        let text = std::fs::read_to_string(&full).map_err(|e| TErr {
            file: path.to_string(),
            line: 0,
            msg: format!("cannot read source file: {}", e),
        })?;
        let parsed = syn::parse_file(&text).map_err(|e| TErr {
            file: path.to_string(),
            line: e.span().start().line,
            msg: format!("syn parse error: {}", e),
        })?;
        files.push((path.to_string(), parsed));
    }
    let g = globals::Globals::build(&files)?;
    trans::emit_all(&g, &files)
}
