//! Rust -> Lean translator for the renet verification project.
//!
//! `translator --repo <repo root> --out <path to Src.lean>`
//!
//! Parses the source files named in `manifest::MANIFEST` with `syn`, finds the selected items and
//! emits ONE Lean file (namespace `RenetVerif.Src`) whose definitions call the primitives of
//! `RenetVerif/Base/RustSem.lean`.  The Lean text is derived from the AST expression by expression
//! and statement by statement (`trans.rs`); there are no per-function special cases.  Anything
//! outside the supported subset stops the run with
//!     TRANSLATE-ERROR <file>:<line>: <what>
//! and a non-zero exit status.  The output is a deterministic function of the source text.

mod doc;
mod globals;
mod manifest;
mod trans;
mod ty;

use std::process::exit;

pub struct TErr {
    pub file: String,
    pub line: usize,
    pub msg: String,
}
pub type R<T> = Result<T, TErr>;

fn main() {
    let args: Vec<String> = std::env::args().collect();
    let mut repo: Option<String> = None;
    let mut out: Option<String> = None;
    let mut i = 1;
    while i < args.len() {
        match args[i].as_str() {
            "--repo" if i + 1 < args.len() => {
                repo = Some(args[i + 1].clone());
                i += 2;
            }
            "--out" if i + 1 < args.len() => {
                out = Some(args[i + 1].clone());
                i += 2;
            }
            _ => {
                eprintln!("usage: translator --repo <repo root> --out <path to Src.lean>");
                exit(2);
            }
        }
    }
    let (repo, out) = match (repo, out) {
        (Some(r), Some(o)) => (r, o),
        _ => {
            eprintln!("usage: translator --repo <repo root> --out <path to Src.lean>");
            exit(2);
        }
    };
    match run(&repo) {
        Ok(text) => {
            if let Err(e) = std::fs::write(&out, text) {
                eprintln!("translator: cannot write {}: {}", out, e);
                exit(2);
            }
        }
        Err(e) => {
            println!("TRANSLATE-ERROR {}:{}: {}", e.file, e.line, e.msg);
            eprintln!("TRANSLATE-ERROR {}:{}: {}", e.file, e.line, e.msg);
            exit(1);
        }
    }
}

fn run(repo: &str) -> R<String> {
    // parse every file of the manifest once
    let mut files: Vec<(String, syn::File)> = Vec::new();
    for (path, _) in manifest::MANIFEST {
        if files.iter().any(|(p, _)| p == path) {
            continue;
        }
        let full = format!("{}/{}", repo.trim_end_matches('/'), path);
        let text = std::fs::read_to_string(&full).map_err(|e| TErr {
            file: path.to_string(),
            line: 0,
            msg: format!("cannot read source file: {}", e),
        })?;
        let parsed = syn::parse_file(&text).map_err(|e| TErr {
            file: path.to_string(),
            line: e.span().start().line,
            msg: format!("syn parse error: {}", e),
        })?;
        files.push((path.to_string(), parsed));
    }
    let g = globals::Globals::build(&files)?;
    trans::emit_all(&g, &files)
}
