//! Types of the supported subset.

#[derive(Clone, Debug, PartialEq, Eq)]
pub enum ListKind {
    Array,
    Vec,
    Slice,
    Bytes,
    /// `slice.iter()` (possibly `.rev()`): a list that is consumed from the front
    Iter,
}

#[derive(Clone, Debug)]
pub enum Ty {
    /// unsigned integer of the given width (`usize` = 64)
    Int(u32),
    /// integer literal / loop counter whose type is fixed by its context
    IntAny,
    Bool,
    Unit,
    /// `[T; N]`, `Vec<T>`, `&[T]`, `Bytes`
    List(Box<Ty>, ListKind),
    Opt(Box<Ty>),
    Res(Box<Ty>, Box<Ty>),
    Tuple(Vec<Ty>),
    /// signed integer (pass-through only: `iN::from_le_bytes`, copies); Lean `Int`
    #[allow(dead_code)]
    SInt(u32),
    /// `BTreeMap<K, V>` / `HashMap<K, V>` with an unsigned integer key: association list sorted by key; the flag says
    /// "HashMap" (iteration is then rejected)
    Map(Box<Ty>, Box<Ty>, bool),
    /// `BTreeSet<uN>`: ascending list of its elements
    Set(Box<Ty>),
    /// `std::time::Duration` (nanoseconds as `Nat`; comparison and copy only)
    Dur,
    /// translated struct / enum (simple Rust name)
    Named(String),
    /// table-mapped external type (Lean name)
    Opaque(String),
    /// type the translator has no information about (only for values that are passed on untouched)
    Unknown,
}

impl Ty {
    /// Lean namespace of the map operations for this map type (`RustSem.Map`: integer keys, `RustSem.AMap`: other keys)
    pub fn map_ns(&self) -> &'static str {
        match self {
            Ty::Map(k, _, _) if !k.is_int() => "RustSem.AMap",
            _ => "RustSem.Map",
        }
    }
    pub fn u8() -> Ty {
        Ty::Int(8)
    }
    pub fn usize() -> Ty {
        Ty::Int(64)
    }
    /// contains a part the translator knows nothing about
    pub fn has_unknown(&self) -> bool {
        match self {
            Ty::Unknown => true,
            Ty::List(t, _) | Ty::Opt(t) => t.has_unknown(),
            Ty::Map(k, v, _) => k.has_unknown() || v.has_unknown(),
            Ty::Res(a, b) => a.has_unknown() || b.has_unknown(),
            Ty::Tuple(v) => v.iter().any(|t| t.has_unknown()),
            _ => false,
        }
    }
    pub fn is_int(&self) -> bool {
        matches!(self, Ty::Int(_) | Ty::IntAny)
    }
}

pub fn int_width(name: &str) -> Option<u32> {
    match name {
        "u8" => Some(8),
        "u16" => Some(16),
        "u32" => Some(32),
        "u64" => Some(64),
        "usize" => Some(64),
        _ => None,
    }
}

const LEAN_KEYWORDS: &[&str] = &[
    "end", "at", "from", "in", "open", "then", "else", "do", "fun", "let", "have", "show", "match", "with", "if", "def",
    "theorem", "where", "by", "namespace", "section", "variable", "instance", "class", "structure", "inductive",
    "deriving", "import", "export", "private", "protected", "mutual", "macro", "syntax", "notation", "prefix", "infix",
    "postfix", "universe", "example", "abbrev", "axiom", "opaque", "extends", "for", "unless", "return", "try", "catch",
    "finally", "mut", "nomatch", "nofun", "using", "calc", "this", "Type", "Prop", "Sort", "local", "attribute",
    "partial", "unsafe", "noncomputable", "suffices", "obtain", "exists", "forall", "sorry", "break", "continue",
    "true", "false", "some", "none", "pure", "bind", "decide", "termination_by", "decreasing_by", "infixl", "infixr",
    "elab", "set_option", "omit", "include", "scoped", "nonrec", "lemma", "initialize", "builtin_initialize",
];

/// Lean spelling of a Rust identifier (variables, fields, functions keep their snake_case names)
pub fn lean_ident(name: &str) -> String {
    if LEAN_KEYWORDS.contains(&name) {
        format!("«{}»", name)
    } else {
        name.to_string()
    }
}
