//! Following calls: locate a free fn / inherent method of the caller's crate that is not in the manifest.

use crate::globals::FileCache;
use crate::manifest::Sel;
use crate::Missing;

fn leak(s: &str) -> &'static str {
    Box::leak(s.to_string().into_boxed_str())
}

pub fn same_sel(a: &Sel, b: &Sel) -> bool {
    match (a, b) {
        (Sel::Fn(x), Sel::Fn(y)) => x == y,
        (Sel::Method(t, x), Sel::Method(u, y)) => t == u && x == y,
        _ => false,
    }
}

fn has_cfg_test(attrs: &[syn::Attribute]) -> bool {
    attrs.iter().any(|a| a.path().is_ident("cfg") && quote::quote!(#a).to_string().contains("test"))
}

fn rs_files(dir: &std::path::Path, out: &mut Vec<std::path::PathBuf>) {
    if let Ok(rd) = std::fs::read_dir(dir) {
        let mut ents: Vec<_> = rd.flatten().map(|e| e.path()).collect();
        ents.sort();
        for p in ents {
            if p.is_dir() {
                rs_files(&p, out);
            } else if p.extension().map(|e| e == "rs").unwrap_or(false) {
                out.push(p);
            }
        }
    }
}

fn defines(file: &syn::File, m: &Missing) -> usize {
    let mut n = 0;
    for item in &file.items {
        match (&m.self_ty, item) {
            (None, syn::Item::Fn(f)) if f.sig.ident == m.name.as_str() && !has_cfg_test(&f.attrs) => n += 1,
            (Some(t), syn::Item::Impl(im)) if im.trait_.is_none() && !has_cfg_test(&im.attrs) => {
                let is_t = match &*im.self_ty {
                    syn::Type::Path(p) => p.path.segments.last().map(|s| s.ident == t.as_str()).unwrap_or(false),
                    _ => false,
                };
                if is_t {
                    for ii in &im.items {
                        if let syn::ImplItem::Fn(f) = ii {
                            if f.sig.ident == m.name.as_str() && !has_cfg_test(&f.attrs) {
                                n += 1;
                            }
                        }
                    }
                }
            }
            _ => {}
        }
    }
    n
}

/// The file (relative to the repo) and selector of the callee: the caller's file first, then the other
/// source files of the same crate (unique definition required).
pub fn locate(cache: &mut FileCache, caller_file: &str, m: &Missing) -> Option<(String, Sel)> {
    let sel = match &m.self_ty {
        Some(t) => Sel::Method(leak(t), leak(&m.name)),
        None => Sel::Fn(leak(&m.name)),
    };
    if let Some(f) = cache.get(caller_file) {
        if defines(f, m) == 1 {
            return Some((caller_file.to_string(), sel));
        }
    }
    let krate = caller_file.split('/').next()?;
    let root = std::path::PathBuf::from(format!("{}/{}/src", cache.repo, krate));
    let mut files = Vec::new();
    rs_files(&root, &mut files);
    let mut hits: Vec<String> = Vec::new();
    for p in files {
        let rel = p.strip_prefix(&cache.repo).ok()?.to_string_lossy().trim_start_matches('/').to_string();
        if rel == caller_file {
            continue;
        }
        if cache.ensure(&rel).is_err() {
            continue;
        }
        if defines(cache.get(&rel).unwrap(), m) == 1 {
            hits.push(rel);
        }
    }
    if hits.len() == 1 {
        Some((hits.pop().unwrap(), sel))
    } else {
        None
    }
}
