//! Which variables declared OUTSIDE a piece of code are assigned INSIDE it
//! (these are threaded through `if` / `match` / `for` as the result tuple).

use std::collections::{BTreeMap, BTreeSet};
use syn::visit::{self, Visit};

/// builtin methods that mutate their receiver
pub const MUTATING_METHODS: &[&str] = &["resize", "copy_from_slice", "push", "extend_from_slice", "clear", "truncate", "reverse", "insert", "remove", "push_back", "append", "retain"];
/// methods that mutate their receiver and yield a value (handled in expression position)
pub const MUTATING_VALUE_METHODS: &[&str] = &["next", "pop_front", "entry", "get_mut", "pop_first", "retain", "take"];

pub struct Assigned<'a> {
    /// declared name -> the variable whose parts it may refer into (pattern bindings of a `match` / `if let` /
    /// `let … else` / `for` over a place: assigning through such a binding assigns the scrutinee)
    scopes: Vec<BTreeMap<String, Option<String>>>,
    scrut: Vec<Option<String>>,
    pub out: BTreeSet<String>,
    /// names of translated `&mut self` methods
    pub mut_methods: &'a [String],
    /// variables that hold a `&mut` reference or a cursor model: passing one as a bare call argument (a reborrow or a
    /// move) lets the callee mutate it
    pub byref: Vec<String>,
    /// local closures `let f = |..| body;` in scope (a call `f(..)` is the body, inlined)
    pub closures: &'a [(String, syn::ExprClosure)],
}

/// root variable of a place expression
pub fn root_var(e: &syn::Expr) -> Option<String> {
    match e {
        syn::Expr::Path(p) if p.qself.is_none() && p.path.segments.len() == 1 => Some(p.path.segments[0].ident.to_string()),
        syn::Expr::Field(f) => root_var(&f.base),
        syn::Expr::Index(i) => root_var(&i.expr),
        syn::Expr::Paren(p) => root_var(&p.expr),
        syn::Expr::Group(p) => root_var(&p.expr),
        syn::Expr::Reference(r) => root_var(&r.expr),
        syn::Expr::Unary(u) if matches!(u.op, syn::UnOp::Deref(_)) => root_var(&u.expr),
        _ => None,
    }
}

pub fn pat_idents(p: &syn::Pat, out: &mut Vec<String>) {
    struct V<'b>(&'b mut Vec<String>);
    impl<'ast, 'b> Visit<'ast> for V<'b> {
        fn visit_pat_ident(&mut self, i: &'ast syn::PatIdent) {
            self.0.push(i.ident.to_string());
            visit::visit_pat_ident(self, i);
        }
    }
    V(out).visit_pat(p);
}

impl<'a> Assigned<'a> {
    pub fn new(mut_methods: &'a [String], closures: &'a [(String, syn::ExprClosure)]) -> Self {
        Assigned { scopes: vec![BTreeMap::new()], scrut: Vec::new(), out: BTreeSet::new(), mut_methods, byref: Vec::new(), closures }
    }
    fn declare_pat(&mut self, p: &syn::Pat, parent: Option<String>) {
        let mut v = Vec::new();
        pat_idents(p, &mut v);
        for n in v {
            // a binding never refers into itself (`if let Some(x) = x`)
            let par = match &parent {
                Some(q) if *q == n => self.parent_of(&n),
                o => o.clone(),
            };
            self.scopes.last_mut().unwrap().insert(n, par);
        }
    }
    /// `None`: not declared inside; `Some(None)`: an ordinary local; `Some(Some(v))`: may refer into `v`
    fn lookup(&self, n: &str) -> Option<Option<String>> {
        self.scopes.iter().rev().find_map(|s| s.get(n).cloned())
    }
    fn parent_of(&self, n: &str) -> Option<String> {
        match self.lookup(n) {
            Some(Some(p)) => Some(p),
            Some(None) => None,
            None => Some(n.to_string()),
        }
    }
    pub fn declare(&mut self, n: &str) {
        self.scopes.last_mut().unwrap().insert(n.to_string(), None);
    }
    fn touch(&mut self, place: &syn::Expr) {
        if let Some(mut r) = root_var(place) {
            // follow pattern bindings to the variable they refer into; a binding that shadows the variable it refers
            // into (`if let Some(x) = x`) continues with the outer `x`
            let mut limit = self.scopes.len();
            for _ in 0..64 {
                let found = (0..limit).rev().find_map(|i| self.scopes[i].get(&r).cloned().map(|v| (i, v)));
                match found {
                    None => {
                        self.out.insert(r);
                        return;
                    }
                    Some((_, None)) => return,
                    Some((i, Some(p))) => {
                        if p == r {
                            limit = i;
                        } else {
                            r = p;
                            limit = self.scopes.len();
                        }
                    }
                }
            }
        }
    }
}

impl<'a> Assigned<'a> {
    fn touch_byref_arg(&mut self, a: &syn::Expr) {
        let mut e = a;
        while let syn::Expr::Paren(p) = e {
            e = &p.expr;
        }
        if let syn::Expr::Path(p) = e {
            if p.qself.is_none() && p.path.segments.len() == 1 {
                let n = p.path.segments[0].ident.to_string();
                if self.byref.iter().any(|b| *b == n) {
                    self.touch(e);
                }
            }
        }
    }
}

/// the place a loop / match iterates or inspects: `x.iter_mut()`, `x.iter_mut().enumerate()`, `&mut x`, `x`
fn scrutinee_root(e: &syn::Expr) -> Option<String> {
    match e {
        syn::Expr::MethodCall(m) if m.args.is_empty() && (m.method == "iter_mut" || m.method == "enumerate" || m.method == "values_mut" || m.method == "as_mut") => {
            scrutinee_root(&m.receiver)
        }
        o => root_var(o),
    }
}

fn is_assign_op(op: &syn::BinOp) -> bool {
    use syn::BinOp::*;
    matches!(
        op,
        AddAssign(_) | SubAssign(_) | MulAssign(_) | DivAssign(_) | RemAssign(_) | BitXorAssign(_) | BitAndAssign(_) | BitOrAssign(_) | ShlAssign(_) | ShrAssign(_)
    )
}

impl<'ast> Visit<'ast> for Assigned<'ast> {
    fn visit_block(&mut self, b: &'ast syn::Block) {
        self.scopes.push(BTreeMap::new());
        visit::visit_block(self, b);
        self.scopes.pop();
    }
    fn visit_local(&mut self, l: &'ast syn::Local) {
        if let Some(init) = &l.init {
            self.visit_expr(&init.expr);
            if let Some((_, d)) = &init.diverge {
                self.visit_expr(d);
            }
        }
        let destructuring = !matches!(&l.pat, syn::Pat::Ident(_))
            && !matches!(&l.pat, syn::Pat::Type(t) if matches!(&*t.pat, syn::Pat::Ident(_)));
        let parent = match (&l.init, destructuring) {
            (Some(init), true) => scrutinee_root(&init.expr),
            _ => None,
        };
        self.declare_pat(&l.pat, parent);
    }
    fn visit_expr_match(&mut self, m: &'ast syn::ExprMatch) {
        self.visit_expr(&m.expr);
        self.scrut.push(scrutinee_root(&m.expr));
        for a in &m.arms {
            self.visit_arm(a);
        }
        self.scrut.pop();
    }
    fn visit_expr_assign(&mut self, a: &'ast syn::ExprAssign) {
        self.touch(&a.left);
        visit::visit_expr_assign(self, a);
    }
    fn visit_expr_binary(&mut self, b: &'ast syn::ExprBinary) {
        if is_assign_op(&b.op) {
            self.touch(&b.left);
        }
        visit::visit_expr_binary(self, b);
    }
    fn visit_expr_call(&mut self, c: &'ast syn::ExprCall) {
        for a in &c.args {
            self.touch_byref_arg(a);
        }
        // a call of a local closure: what its body assigns (its parameters are its own)
        if let syn::Expr::Path(p) = &*c.func {
            if p.qself.is_none() && p.path.segments.len() == 1 {
                let closures = self.closures;
                if let Some((_, cl)) = closures.iter().rev().find(|(n, _)| p.path.segments[0].ident == n) {
                    self.scopes.push(BTreeMap::new());
                    for inp in &cl.inputs {
                        self.declare_pat(inp, None);
                    }
                    self.visit_expr(&cl.body);
                    self.scopes.pop();
                }
            }
        }
        visit::visit_expr_call(self, c);
    }
    fn visit_expr_method_call(&mut self, m: &'ast syn::ExprMethodCall) {
        for a in &m.args {
            self.touch_byref_arg(a);
        }
        let name = m.method.to_string();
        if MUTATING_METHODS.contains(&name.as_str()) || MUTATING_VALUE_METHODS.contains(&name.as_str()) || self.mut_methods.iter().any(|x| *x == name) {
            self.touch(&m.receiver);
        }
        visit::visit_expr_method_call(self, m);
    }
    fn visit_expr_reference(&mut self, r: &'ast syn::ExprReference) {
        if r.mutability.is_some() {
            self.touch(&r.expr);
        }
        visit::visit_expr_reference(self, r);
    }
    fn visit_expr_if(&mut self, i: &'ast syn::ExprIf) {
        self.scopes.push(BTreeMap::new());
        if let syn::Expr::Let(l) = &*i.cond {
            self.visit_expr(&l.expr);
            self.declare_pat(&l.pat, scrutinee_root(&l.expr));
        } else {
            self.visit_expr(&i.cond);
        }
        self.visit_block(&i.then_branch);
        self.scopes.pop();
        if let Some((_, e)) = &i.else_branch {
            self.visit_expr(e);
        }
    }
    fn visit_arm(&mut self, a: &'ast syn::Arm) {
        self.scopes.push(BTreeMap::new());
        let parent = self.scrut.last().cloned().flatten();
        self.declare_pat(&a.pat, parent);
        if let Some((_, g)) = &a.guard {
            self.visit_expr(g);
        }
        self.visit_expr(&a.body);
        self.scopes.pop();
    }
    fn visit_expr_for_loop(&mut self, f: &'ast syn::ExprForLoop) {
        self.visit_expr(&f.expr);
        self.scopes.push(BTreeMap::new());
        self.declare_pat(&f.pat, scrutinee_root(&f.expr));
        self.visit_block(&f.body);
        self.scopes.pop();
    }
    fn visit_expr_closure(&mut self, c: &'ast syn::ExprClosure) {
        self.scopes.push(BTreeMap::new());
        for p in &c.inputs {
            self.declare_pat(p, None);
        }
        self.visit_expr(&c.body);
        self.scopes.pop();
    }
}

/// does `body` contain a `return`, a `?` or a labelled `break` / `continue` (which may leave an outer loop)?
pub fn block_leaves_fn(body: &syn::Block) -> bool {
    struct L(bool);
    impl<'ast> Visit<'ast> for L {
        fn visit_expr_return(&mut self, _: &'ast syn::ExprReturn) {
            self.0 = true;
        }
        fn visit_expr_try(&mut self, _: &'ast syn::ExprTry) {
            self.0 = true;
        }
        fn visit_expr_break(&mut self, b: &'ast syn::ExprBreak) {
            if b.label.is_some() {
                self.0 = true;
            }
            visit::visit_expr_break(self, b);
        }
        fn visit_expr_continue(&mut self, c: &'ast syn::ExprContinue) {
            if c.label.is_some() {
                self.0 = true;
            }
        }
    }
    let mut l = L(false);
    l.visit_block(body);
    l.0
}

/// the same for an expression (closure bodies)
pub fn expr_leaves_fn(e: &syn::Expr) -> bool {
    let b: syn::Block = syn::Block { brace_token: Default::default(), stmts: vec![syn::Stmt::Expr(e.clone(), None)] };
    block_leaves_fn(&b)
}

/// does `body` (of a loop) contain an unlabelled `break` that ends that loop?
pub fn loop_has_own_break(body: &syn::Block) -> bool {
    struct B {
        depth: usize,
        found: bool,
    }
    impl<'ast> Visit<'ast> for B {
        fn visit_expr_break(&mut self, b: &'ast syn::ExprBreak) {
            if b.label.is_none() && self.depth == 0 {
                self.found = true;
            }
            visit::visit_expr_break(self, b);
        }
        fn visit_expr_while(&mut self, w: &'ast syn::ExprWhile) {
            self.depth += 1;
            visit::visit_expr_while(self, w);
            self.depth -= 1;
        }
        fn visit_expr_for_loop(&mut self, f: &'ast syn::ExprForLoop) {
            self.depth += 1;
            visit::visit_expr_for_loop(self, f);
            self.depth -= 1;
        }
        fn visit_expr_loop(&mut self, l: &'ast syn::ExprLoop) {
            self.depth += 1;
            visit::visit_expr_loop(self, l);
            self.depth -= 1;
        }
    }
    let mut b = B { depth: 0, found: false };
    b.visit_block(body);
    b.found
}

/// does `body` (of a loop labelled `label`) contain a `break` / `continue` that targets that loop?
pub fn loop_has_jumps(body: &syn::Block, label: Option<&str>) -> bool {
    struct J<'l> {
        depth: usize,
        label: Option<&'l str>,
        found: bool,
    }
    impl<'l> J<'l> {
        fn jump(&mut self, l: &Option<syn::Lifetime>) {
            match l {
                Some(l) => {
                    if Some(l.ident.to_string().as_str()) == self.label {
                        self.found = true;
                    }
                }
                None => {
                    if self.depth == 0 {
                        self.found = true;
                    }
                }
            }
        }
    }
    impl<'ast, 'l> Visit<'ast> for J<'l> {
        fn visit_expr_break(&mut self, b: &'ast syn::ExprBreak) {
            self.jump(&b.label);
            visit::visit_expr_break(self, b);
        }
        fn visit_expr_continue(&mut self, c: &'ast syn::ExprContinue) {
            self.jump(&c.label);
        }
        fn visit_expr_while(&mut self, w: &'ast syn::ExprWhile) {
            self.depth += 1;
            visit::visit_expr_while(self, w);
            self.depth -= 1;
        }
        fn visit_expr_for_loop(&mut self, f: &'ast syn::ExprForLoop) {
            self.depth += 1;
            visit::visit_expr_for_loop(self, f);
            self.depth -= 1;
        }
        fn visit_expr_loop(&mut self, l: &'ast syn::ExprLoop) {
            self.depth += 1;
            visit::visit_expr_loop(self, l);
            self.depth -= 1;
        }
        fn visit_expr_closure(&mut self, _: &'ast syn::ExprClosure) {}
    }
    let mut j = J { depth: 0, label, found: false };
    j.visit_block(body);
    j.found
}

/// call sites (by simple callee / method name) of fns that take explicit randomness parameters: the first one that sits
/// inside a loop or a closure (there the number of parameters would depend on the run)
pub struct RandScan<'a> {
    pub names: &'a [String],
    pub depth: usize,
    pub bad: Option<proc_macro2::Span>,
}

impl<'a, 'ast> syn::visit::Visit<'ast> for RandScan<'a> {
    fn visit_expr_for_loop(&mut self, i: &'ast syn::ExprForLoop) {
        syn::visit::visit_expr(self, &i.expr);
        self.depth += 1;
        syn::visit::visit_block(self, &i.body);
        self.depth -= 1;
    }
    fn visit_expr_while(&mut self, i: &'ast syn::ExprWhile) {
        self.depth += 1;
        syn::visit::visit_expr_while(self, i);
        self.depth -= 1;
    }
    fn visit_expr_loop(&mut self, i: &'ast syn::ExprLoop) {
        self.depth += 1;
        syn::visit::visit_expr_loop(self, i);
        self.depth -= 1;
    }
    fn visit_expr_closure(&mut self, i: &'ast syn::ExprClosure) {
        self.depth += 1;
        syn::visit::visit_expr_closure(self, i);
        self.depth -= 1;
    }
    fn visit_expr_call(&mut self, i: &'ast syn::ExprCall) {
        if self.depth > 0 && self.bad.is_none() {
            if let syn::Expr::Path(p) = &*i.func {
                if let Some(l) = p.path.segments.last() {
                    if self.names.iter().any(|n| l.ident == n) {
                        self.bad = Some(syn::spanned::Spanned::span(i));
                    }
                }
            }
        }
        syn::visit::visit_expr_call(self, i);
    }
    fn visit_expr_method_call(&mut self, i: &'ast syn::ExprMethodCall) {
        if self.depth > 0 && self.bad.is_none() && self.names.iter().any(|n| i.method == n) {
            self.bad = Some(syn::spanned::Spanned::span(i));
        }
        syn::visit::visit_expr_method_call(self, i);
    }
}
