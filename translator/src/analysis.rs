//! Which variables declared OUTSIDE a piece of code are assigned INSIDE it
//! (these are threaded through `if` / `match` / `for` as the result tuple).

use std::collections::BTreeSet;
use syn::visit::{self, Visit};

/// builtin methods that mutate their receiver
pub const MUTATING_METHODS: &[&str] = &["resize", "copy_from_slice", "push", "extend_from_slice", "clear", "truncate", "reverse", "insert", "remove", "push_back"];
/// methods that mutate their receiver and yield a value (handled in expression position)
pub const MUTATING_VALUE_METHODS: &[&str] = &["next", "pop_front", "entry", "get_mut", "pop_first", "retain"];

pub struct Assigned<'a> {
    scopes: Vec<BTreeSet<String>>,
    pub out: BTreeSet<String>,
    /// names of translated `&mut self` methods
    pub mut_methods: &'a [String],
}

/// root variable of a place expression
pub fn root_var(e: &syn::Expr) -> Option<String> {
    match e {
        syn::Expr::Path(p) if p.qself.is_none() && p.path.segments.len() == 1 => Some(p.path.segments[0].ident.to_string()),
        syn::Expr::Field(f) => root_var(&f.base),
        syn::Expr::Index(i) => root_var(&i.expr),
        syn::Expr::Paren(p) => root_var(&p.expr),
        syn::Expr::Group(p) => root_var(&p.expr),
        syn::Expr::Reference(r) => root_var(&r.expr),
        syn::Expr::Unary(u) if matches!(u.op, syn::UnOp::Deref(_)) => root_var(&u.expr),
        _ => None,
    }
}

pub fn pat_idents(p: &syn::Pat, out: &mut Vec<String>) {
    struct V<'b>(&'b mut Vec<String>);
    impl<'ast, 'b> Visit<'ast> for V<'b> {
        fn visit_pat_ident(&mut self, i: &'ast syn::PatIdent) {
            self.0.push(i.ident.to_string());
            visit::visit_pat_ident(self, i);
        }
    }
    V(out).visit_pat(p);
}

impl<'a> Assigned<'a> {
    pub fn new(mut_methods: &'a [String]) -> Self {
        Assigned { scopes: vec![BTreeSet::new()], out: BTreeSet::new(), mut_methods }
    }
    fn declared(&self, n: &str) -> bool {
        self.scopes.iter().any(|s| s.contains(n))
    }
    fn declare_pat(&mut self, p: &syn::Pat) {
        let mut v = Vec::new();
        pat_idents(p, &mut v);
        for n in v {
            self.scopes.last_mut().unwrap().insert(n);
        }
    }
    pub fn declare(&mut self, n: &str) {
        self.scopes.last_mut().unwrap().insert(n.to_string());
    }
    fn touch(&mut self, place: &syn::Expr) {
        if let Some(r) = root_var(place) {
            if !self.declared(&r) {
                self.out.insert(r);
            }
        }
    }
}

fn is_assign_op(op: &syn::BinOp) -> bool {
    use syn::BinOp::*;
    matches!(
        op,
        AddAssign(_) | SubAssign(_) | MulAssign(_) | DivAssign(_) | RemAssign(_) | BitXorAssign(_) | BitAndAssign(_) | BitOrAssign(_) | ShlAssign(_) | ShrAssign(_)
    )
}

impl<'ast, 'a> Visit<'ast> for Assigned<'a> {
    fn visit_block(&mut self, b: &'ast syn::Block) {
        self.scopes.push(BTreeSet::new());
        visit::visit_block(self, b);
        self.scopes.pop();
    }
    fn visit_local(&mut self, l: &'ast syn::Local) {
        if let Some(init) = &l.init {
            self.visit_expr(&init.expr);
            if let Some((_, d)) = &init.diverge {
                self.visit_expr(d);
            }
        }
        self.declare_pat(&l.pat);
    }
    fn visit_expr_assign(&mut self, a: &'ast syn::ExprAssign) {
        self.touch(&a.left);
        visit::visit_expr_assign(self, a);
    }
    fn visit_expr_binary(&mut self, b: &'ast syn::ExprBinary) {
        if is_assign_op(&b.op) {
            self.touch(&b.left);
        }
        visit::visit_expr_binary(self, b);
    }
    fn visit_expr_method_call(&mut self, m: &'ast syn::ExprMethodCall) {
        let name = m.method.to_string();
        if MUTATING_METHODS.contains(&name.as_str()) || MUTATING_VALUE_METHODS.contains(&name.as_str()) || self.mut_methods.iter().any(|x| *x == name) {
            self.touch(&m.receiver);
        }
        visit::visit_expr_method_call(self, m);
    }
    fn visit_expr_reference(&mut self, r: &'ast syn::ExprReference) {
        if r.mutability.is_some() {
            self.touch(&r.expr);
        }
        visit::visit_expr_reference(self, r);
    }
    fn visit_expr_if(&mut self, i: &'ast syn::ExprIf) {
        self.scopes.push(BTreeSet::new());
        if let syn::Expr::Let(l) = &*i.cond {
            self.visit_expr(&l.expr);
            self.declare_pat(&l.pat);
        } else {
            self.visit_expr(&i.cond);
        }
        self.visit_block(&i.then_branch);
        self.scopes.pop();
        if let Some((_, e)) = &i.else_branch {
            self.visit_expr(e);
        }
    }
    fn visit_arm(&mut self, a: &'ast syn::Arm) {
        self.scopes.push(BTreeSet::new());
        self.declare_pat(&a.pat);
        if let Some((_, g)) = &a.guard {
            self.visit_expr(g);
        }
        self.visit_expr(&a.body);
        self.scopes.pop();
    }
    fn visit_expr_for_loop(&mut self, f: &'ast syn::ExprForLoop) {
        self.visit_expr(&f.expr);
        self.scopes.push(BTreeSet::new());
        self.declare_pat(&f.pat);
        self.visit_block(&f.body);
        self.scopes.pop();
    }
    fn visit_expr_closure(&mut self, c: &'ast syn::ExprClosure) {
        self.scopes.push(BTreeSet::new());
        for p in &c.inputs {
            self.declare_pat(p);
        }
        self.visit_expr(&c.body);
        self.scopes.pop();
    }
}
