//! A small document tree for the emitted `Exec` terms and its pretty printer.

#[derive(Clone, Debug)]
pub enum Doc {
    /// a single-line term
    Atom(String),
    /// `(do stmt* final)`
    Do(Vec<Stmt>, Box<Doc>),
    /// `(if c then a else b)`
    If(String, Box<Doc>, Box<Doc>),
    /// `(match s with | p => a …)`
    Match(String, Vec<(String, Doc)>),
    /// `head (fun … => body)` — a primitive applied to a function (loops)
    Lam(String, String, Box<Doc>),
    /// `(doc : Exec _ _ T)` — the value type spelled out (needed when no branch yields a value)
    Typed(Box<Doc>, String),
}

#[derive(Clone, Debug)]
pub enum Stmt {
    /// `let p ← doc`
    Bind(String, Doc),
    /// `let p := term`
    Let(String, String),
}

fn pad(n: usize) -> String {
    " ".repeat(n)
}

impl Doc {
    pub fn atom(s: impl Into<String>) -> Doc {
        Doc::Atom(s.into())
    }
    pub fn seq(stmts: Vec<Stmt>, fin: Doc) -> Doc {
        if stmts.is_empty() {
            fin
        } else {
            Doc::Do(stmts, Box::new(fin))
        }
    }
    /// Render at indentation `ind`: the first line is not indented (the caller has placed the
    /// cursor), following lines carry absolute indentation.
    pub fn render(&self, ind: usize) -> String {
        match self {
            Doc::Atom(s) => s.clone(),
            Doc::Do(stmts, fin) => {
                let mut s = String::from("(do");
                for st in stmts {
                    s.push('\n');
                    s.push_str(&pad(ind + 2));
                    s.push_str(&st.render(ind + 2));
                }
                s.push('\n');
                s.push_str(&pad(ind + 2));
                s.push_str(&fin.render(ind + 2));
                s.push(')');
                s
            }
            Doc::If(c, a, b) => {
                format!("(if {} then {}\n{}else {})", c, a.render(ind), pad(ind), b.render(ind))
            }
            Doc::Match(scrut, arms) => {
                let mut s = format!("(match {} with", scrut);
                for (p, body) in arms {
                    s.push('\n');
                    s.push_str(&pad(ind));
                    s.push_str(&format!("| {} => {}", p, body.render(ind)));
                }
                s.push(')');
                s
            }
            Doc::Lam(head, lam, body) => {
                format!("{} ({} => {})", head, lam, body.render(ind))
            }
            Doc::Typed(d, t) => format!("({} : Exec _ _ {})", d.render(ind), t),
        }
    }
    /// does every branch leave the enclosing construct (`return` / `Err` / panic) instead of yielding a value?
    pub fn all_leaves_diverge(&self) -> bool {
        match self {
            Doc::Atom(s) => s.starts_with("Exec.ret ") || s.starts_with("Exec.err ") || s.starts_with("Exec.panic "),
            Doc::Do(_, fin) => fin.all_leaves_diverge(),
            Doc::If(_, a, b) => a.all_leaves_diverge() && b.all_leaves_diverge(),
            Doc::Match(_, arms) => arms.iter().all(|(_, d)| d.all_leaves_diverge()),
            Doc::Lam(_, _, _) => false,
            Doc::Typed(d, _) => d.all_leaves_diverge(),
        }
    }
}

impl Stmt {
    pub fn render(&self, ind: usize) -> String {
        match self {
            Stmt::Let(p, t) => format!("let {} := {}", p, t),
            Stmt::Bind(p, d) => match d {
                Doc::Atom(a) => format!("let {} ← {}", p, a),
                _ => format!("let {} ←\n{}{}", p, pad(ind + 2), d.render(ind + 2)),
            },
        }
    }
}
