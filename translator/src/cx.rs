//! Per-function translation context: blocks, statements, control flow, places.

use super::analysis::{root_var, Assigned, MUTATING_METHODS};
use crate::doc::{Doc, Stmt};
use crate::globals::{FnInfo, Globals, SelfMode};
use crate::ty::{lean_ident, ListKind, Ty};
use crate::{TErr, R};
use syn::spanned::Spanned;
use syn::visit::Visit;

#[derive(Clone, Debug)]
pub enum Tail {
    /// the value of the block is the function result
    FnBody,
    /// the block is an expression; produce `pure v`
    Value(Option<Ty>),
    /// the block is a statement; produce `pure (assigned outer variables)`
    Unit(Vec<String>),
}

#[derive(Clone, Debug)]
pub enum Place {
    Var(String, Ty),
    Field(Box<Place>, String, Ty),
    /// base, index term, element type, panic site
    Index(Box<Place>, String, Ty, String),
    /// value of a map entry: base (the map), key term, value type, panic site
    MapEntry(Box<Place>, String, Ty, String),
    /// field of an enum struct-variant reached through a `&mut` binding: base, Lean enum name, variant, field, type, site
    VariantField(Box<Place>, String, String, String, Ty, String),
    /// sub-slice `base[lo..hi]` handed to a callee as `&mut [T]`: base, lo, hi (`None` = to the end), slice type, site
    Range(Box<Place>, String, Option<String>, Ty, String),
    /// inside a fn with an `Option<&mut T>` parameter `p`: the `T` behind `Some` (base = the parameter), type, site
    OptSome(Box<Place>, Ty, String),
    /// at a call: the argument `Some(&mut place)` for an `Option<&mut T>` parameter (the option type)
    OptWrap(Box<Place>, Ty, String),
    /// at a call: the argument `None` for an `Option<&mut T>` parameter
    Nowhere(Ty),
}

impl Place {
    pub fn root(&self) -> String {
        match self {
            Place::Var(n, _) => n.clone(),
            Place::Field(b, _, _)
            | Place::Index(b, _, _, _)
            | Place::MapEntry(b, _, _, _)
            | Place::VariantField(b, _, _, _, _, _)
            | Place::Range(b, _, _, _, _)
            | Place::OptSome(b, _, _)
            | Place::OptWrap(b, _, _) => b.root(),
            Place::Nowhere(_) => "_".to_string(),
        }
    }
    pub fn ty(&self) -> Ty {
        match self {
            Place::Var(_, t)
            | Place::Field(_, _, t)
            | Place::Index(_, _, t, _)
            | Place::MapEntry(_, _, t, _)
            | Place::VariantField(_, _, _, _, t, _)
            | Place::Range(_, _, _, t, _)
            | Place::OptSome(_, t, _)
            | Place::OptWrap(_, t, _)
            | Place::Nowhere(t) => t.clone(),
        }
    }
}

pub struct Cx<'g> {
    pub g: &'g Globals,
    pub file: String,
    pub ns: String,
    pub fn_disp: String,
    pub self_ty: Option<String>,
    pub self_mode: SelfMode,
    /// `Ok` type for `Result` fns, the return type otherwise
    pub ret: Ty,
    pub err: Option<Ty>,
    pub order: usize,
    scopes: Vec<Vec<(String, Ty)>>,
    /// enums whose variants were imported by `use Enum::*;`
    pub glob_enums: Vec<String>,
    tmp: usize,
    pub self_dirty: bool,
    mut_methods: Vec<String>,
    /// `&mut` parameters of semantic-model types (returned with the result)
    pub mut_params: Vec<String>,
    pub opt_mut_params: Vec<String>,
    /// this fn is a finder (see `FnInfo::ref_ret`)
    pub ref_ret: Option<(bool, String)>,
    /// explicit randomness parameters `rand1 ..` used so far (see `manifest::RANDOM_SOURCES`)
    pub rand_sites: usize,
    /// while translating `let x = match .. { .. => &mut P[lo..hi], .. }` (every value leaf is such a sub-slice of the same
    /// `P` from the same `lo`): the leaves yield `hi`; `x` becomes an alias of the place `P[lo..hi]`
    pub range_capture: Option<(Option<syn::Expr>, Option<syn::Expr>)>,
    /// local closures `let f = |a: A, b: B| body;` in scope: a call `f(x, y)` is translated as the block
    /// `{ let a: A = x; let b: B = y; body }` (the body may not `return` / `?` / `break` out)
    pub local_closures: Vec<(String, syn::ExprClosure)>,
    /// values of places (keyed by their `Debug` text) read into temporaries just before a `call(..)?`: what the pure
    /// description of the caller's state after the callee's `Err` uses for places that cannot be read purely
    pub snapshots: std::collections::BTreeMap<String, String>,
    /// `let x = &mut place;` aliases: variable -> place (every use re-reads / writes the place)
    aliases: Vec<Vec<(String, Place)>>,
    /// enclosing `while` loops: the tuple of loop-carried variables of each
    loop_stack: Vec<(Option<String>, Vec<String>)>,
    /// pattern bindings that are references into a `&mut` place but are translated as values: assignment is rejected
    ro: Vec<Vec<String>>,
    pending_ro: Vec<String>,
    /// fuel expressions (manifest) of the `while` loops of this fn, consumed in source order
    pub fuels: Vec<String>,
    fuel_next: usize,
    /// length of the array type a `let` annotation asks for (const-generic argument of the initialiser call)
    /// value-position `if` / `match` / blocks that assign outer variables return them together with their value
    pub value_carry: Vec<Vec<String>>,
    /// `let oct = OctetsMut::with_slice(&mut buffer)`: the buffer a cursor variable writes into
    pub pending_backing: Option<Place>,
    /// `let w = Cursor::new(..)`: `Some(true)` when the variable is later used as a writer
    pub cursor_kind_hint: Option<bool>,
    pub backings: Vec<(String, Place)>,
    /// locals that hold values computed from ignored fields / floats (no Lean binding exists for them)
    pub ignored_locals: Vec<String>,
    /// translating the initialiser of a `const` item (compile-time evaluation: arithmetic is exact)
    pub const_ctx: bool,
    pub array_len_hint: Option<String>,
    /// array length found by looking ahead for the field that the `let` variable initialises
    array_len_lookahead: Option<String>,
    /// `Result` fn with `&mut` state: `Err` carries the current state
    pub err_state: bool,
    /// aliases to install in the next block scope (loop variable of `for x in v.iter_mut()`)
    pending_aliases: Vec<(String, Place)>,
}

impl<'g> Cx<'g> {
    pub fn new(g: &'g Globals, file: &str, ns: &str, disp: &str, self_ty: Option<String>, self_mode: SelfMode, ret: Ty) -> Self {
        let mut mut_methods = Vec::new();
        for ((_, n), v) in &g.fns {
            if v.iter().any(|f| f.self_mode == SelfMode::Mut) {
                mut_methods.push(n.clone());
            }
        }
        Cx {
            g,
            file: file.to_string(),
            ns: ns.to_string(),
            fn_disp: disp.to_string(),
            self_ty,
            self_mode,
            ret,
            err: None,
            order: usize::MAX,
            scopes: vec![Vec::new()],
            glob_enums: Vec::new(),
            tmp: 0,
            self_dirty: false,
            mut_methods,
            mut_params: Vec::new(),
            opt_mut_params: Vec::new(),
            ref_ret: None,
            rand_sites: 0,
            local_closures: Vec::new(),
            range_capture: None,
            snapshots: std::collections::BTreeMap::new(),
            aliases: vec![Vec::new()],
            loop_stack: Vec::new(),
            ro: vec![Vec::new()],
            pending_ro: Vec::new(),
            fuels: Vec::new(),
            fuel_next: 0,
            value_carry: Vec::new(),
            pending_backing: None,
            cursor_kind_hint: None,
            backings: Vec::new(),
            ignored_locals: Vec::new(),
            const_ctx: false,
            array_len_hint: None,
            array_len_lookahead: None,
            err_state: false,
            pending_aliases: Vec::new(),
        }
    }

    pub fn bail<T>(&self, span: proc_macro2::Span, msg: impl Into<String>) -> R<T> {
        Err(TErr { file: self.file.clone(), line: span.start().line, msg: msg.into(), missing: None })
    }

    pub fn fresh(&mut self) -> String {
        self.tmp += 1;
        format!("t{}", self.tmp)
    }

    /// open / close a scope for closure parameters
    pub fn push_scope(&mut self, binds: Vec<(String, Ty)>) {
        self.scopes.push(binds);
        self.aliases.push(Vec::new());
    }
    pub fn pop_scope(&mut self) {
        self.aliases.pop();
        self.scopes.pop();
    }

    pub fn tmp_mark(&self) -> usize {
        self.tmp
    }
    pub fn tmp_reset(&mut self, m: usize) {
        self.tmp = m;
    }

    pub fn declare(&mut self, name: &str, ty: Ty) {
        // a declaration shadows an alias of the same name in the same scope (`let (buf, tag) = b.split_at_mut(n);
        // let tag = Tag::from_slice(tag);`); an alias is installed AFTER the declaration of its name
        if let Some(al) = self.aliases.last_mut() {
            al.retain(|(n, _)| n != name);
        }
        self.scopes.last_mut().unwrap().push((name.to_string(), ty));
    }

    /// refine the type of a variable declared with an incomplete type (`let mut x = None;` … `x = Some(e)`)
    pub fn retype(&mut self, name: &str, ty: Ty) {
        for s in self.scopes.iter_mut().rev() {
            for (n, t) in s.iter_mut().rev() {
                if n == name {
                    *t = ty;
                    return;
                }
            }
        }
    }

    pub fn lookup(&self, name: &str) -> Option<Ty> {
        for s in self.scopes.iter().rev() {
            for (n, t) in s.iter().rev() {
                if n == name {
                    return Some(t.clone());
                }
            }
        }
        None
    }

    /// the place a `let x = &mut place` variable stands for
    pub fn alias_of(&self, name: &str) -> Option<Place> {
        // an alias is shadowed by a later ordinary declaration in an inner scope
        for (sc, al) in self.scopes.iter().zip(self.aliases.iter()).rev() {
            if let Some((_, p)) = al.iter().rev().find(|(n, _)| n == name) {
                return Some(p.clone());
            }
            if sc.iter().any(|(n, _)| n == name) {
                return None;
            }
        }
        None
    }

    /// is the innermost declaration of `name` a by-value translation of a reference binding?
    fn is_ro(&self, name: &str) -> bool {
        for (sc, ro) in self.scopes.iter().zip(self.ro.iter()).rev() {
            if ro.iter().any(|n| n == name) {
                return true;
            }
            if sc.iter().any(|(n, _)| n == name) {
                return false;
            }
        }
        false
    }

    /// the `&mut` place a scrutinee names (`x` / `*x` for an alias `x`, `&mut place`)
    pub fn alias_scrutinee(&mut self, e: &syn::Expr, stmts: &mut Vec<Stmt>) -> R<Option<Place>> {
        let mut scr: &syn::Expr = e;
        loop {
            match scr {
                syn::Expr::Paren(p) => scr = &p.expr,
                syn::Expr::Group(p) => scr = &p.expr,
                syn::Expr::Unary(u) if matches!(u.op, syn::UnOp::Deref(_)) => scr = &u.expr,
                _ => break,
            }
        }
        if let syn::Expr::Path(p) = scr {
            if p.qself.is_none() && p.path.segments.len() == 1 {
                return Ok(self.alias_of(&p.path.segments[0].ident.to_string()));
            }
        }
        if let syn::Expr::Reference(r) = scr {
            if r.mutability.is_some() {
                return Ok(Some(self.place(&r.expr, stmts)?));
            }
        }
        Ok(None)
    }

    /// value and type of the scrutinee of a `match` / `if let` / `while let` / `let … else`, and the `&mut`
    /// place it names (if any)
    pub fn scrutinee(&mut self, e: &syn::Expr, stmts: &mut Vec<Stmt>) -> R<(String, Ty, Option<Place>)> {
        match self.alias_scrutinee(e, stmts)? {
            Some(base) => {
                let v = self.read(&base, stmts)?;
                Ok((v, base.ty(), Some(base)))
            }
            None => {
                let (v, t) = self.expr(e, None, stmts)?;
                Ok((v, t, None))
            }
        }
    }

    pub fn unused_fuel(&self) -> bool {
        self.fuel_next < self.fuels.len()
    }

    pub fn check_local_name(&self, name: &str, span: proc_macro2::Span) -> R<()> {
        let b = name.as_bytes();
        if b.len() >= 2 && b[0] == b't' && b[1..].iter().all(|c| c.is_ascii_digit()) {
            return self.bail(span, format!("local name `{}` clashes with the translator's temporaries", name));
        }
        Ok(())
    }

    /// source text of a node, whitespace collapsed (for panic sites)
    pub fn src(&self, span: proc_macro2::Span, fallback: String) -> String {
        let raw = span.source_text().unwrap_or(fallback);
        let mut s = String::new();
        let mut ws = false;
        for c in raw.chars() {
            if c.is_whitespace() {
                ws = true;
            } else {
                if ws && !s.is_empty() {
                    s.push(' ');
                }
                ws = false;
                if c == '"' || c == '\\' {
                    s.push('\'');
                } else {
                    s.push(c);
                }
            }
        }
        s
    }

    pub fn site(&self, e: &impl quote::ToTokens) -> String {
        let ts = quote::quote!(#e);
        let span = {
            use syn::spanned::Spanned;
            ts.span()
        };
        format!("\"{}:{}: {}\"", self.file, self.fn_disp, self.src(span, ts.to_string()))
    }

    /// a statement-position `if` / `match` that assigns several outer variables but whose branches all leave the fn:
    /// Lean cannot infer the type of the tuple pattern, spell it out
    fn typed_if_diverging(&self, m: &[String], d: Doc) -> Doc {
        if !d.all_leaves_diverge() {
            return d;
        }
        if m.is_empty() {
            return Doc::Typed(Box::new(d), "Unit".to_string());
        }
        if m.len() == 1 {
            // (Lean infers the type of a single variable from its later uses)
            return d;
        }
        let mut tys = Vec::new();
        for v in m {
            match self.lookup(v) {
                Some(t) if !t.has_unknown() => tys.push(super::lean_ty(self.g, &self.ns, &t)),
                _ => return d,
            }
        }
        if tys.len() == 1 {
            return Doc::Typed(Box::new(d), tys[0].clone());
        }
        Doc::Typed(Box::new(d), format!("({})", tys.join(" × ")))
    }

    pub fn tuple_pat(vars: &[String]) -> String {
        match vars.len() {
            0 => "_".into(),
            1 => lean_ident(&vars[0]),
            _ => format!("({})", vars.iter().map(|v| lean_ident(v)).collect::<Vec<_>>().join(", ")),
        }
    }
    pub fn tuple_val(vars: &[String]) -> String {
        match vars.len() {
            0 => "()".into(),
            1 => lean_ident(&vars[0]),
            _ => format!("({})", vars.iter().map(|v| lean_ident(v)).collect::<Vec<_>>().join(", ")),
        }
    }

    /// outer variables assigned inside `e` (declared in the current scopes)
    pub fn assigned_in_expr(&self, e: &syn::Expr) -> Vec<String> {
        let closures = self.local_closures.clone();
        let mut a = Assigned::new(&self.mut_methods, &closures);
        a.byref = self.byref_vars();
        a.visit_expr(e);
        self.resolve_assigned(a.out)
    }
    /// variables that are `&mut` parameters or hold a cursor model (a callee they are passed to may mutate them)
    fn byref_vars(&self) -> Vec<String> {
        let mut v: Vec<String> = self.mut_params.clone();
        for sc in &self.scopes {
            for (n, t) in sc {
                if let Ty::Named(tn) = t {
                    if matches!(tn.as_str(), "ReadCursor" | "WriteCursor" | "OctetsMut" | "Octets") && !v.contains(n) {
                        v.push(n.clone());
                    }
                }
            }
        }
        v
    }

    /// assigned variables: known in the current scopes, aliases replaced by the variable they point into
    fn resolve_assigned(&self, out: std::collections::BTreeSet<String>) -> Vec<String> {
        let mut r: std::collections::BTreeSet<String> = std::collections::BTreeSet::new();
        for n in out {
            if let Some(pl) = self.alias_of(&n) {
                r.insert(pl.root());
            } else if self.lookup(&n).is_some() {
                r.insert(n);
            }
        }
        r.into_iter().collect()
    }
    pub fn assigned_in_block(&self, b: &syn::Block, bound: &[String]) -> Vec<String> {
        let closures = self.local_closures.clone();
        let mut a = Assigned::new(&self.mut_methods, &closures);
        a.byref = self.byref_vars();
        for n in bound {
            a.declare(n);
        }
        a.visit_block(b);
        self.resolve_assigned(a.out)
    }

    // ------------------------------------------------------------------ function body

    pub fn fn_body(&mut self, block: &syn::Block) -> R<Doc> {
        if self.ref_ret.is_some() {
            return self.finder_body(block);
        }
        let (doc, _, _) = self.block(block, &Tail::FnBody, &[])?;
        Ok(doc)
    }

    /// body of a finder (a fn returning a `&mut` into its `&mut [Option<T>]` parameter `P`): exactly one of
    ///   `P.iter_mut().flatten().find(|c| pred)`
    ///   `P.iter_mut().enumerate().find_map(|(i, c)| match c { Some(c2) if pred => Some((i, c2)), _ => None })`
    /// — the position of the first `Some` element satisfying `pred` (`RustSem.find_some_idx`)
    fn finder_body(&mut self, block: &syn::Block) -> R<Doc> {
        let (with_index, pname) = self.ref_ret.clone().unwrap();
        let bad = "a fn returning `&mut` must be `slice.iter_mut().flatten().find(|c| p)` or `slice.iter_mut().enumerate().find_map(|(i, c)| match c { Some(c) if p => Some((i, c)), _ => None })`";
        let e = match block.stmts.as_slice() {
            [syn::Stmt::Expr(e, None)] => e,
            _ => return self.bail(block.span(), bad),
        };
        let et = match self.lookup(&pname) {
            Some(Ty::List(t, _)) => match *t {
                Ty::Opt(inner) => *inner,
                _ => return self.bail(block.span(), bad),
            },
            _ => return self.bail(block.span(), bad),
        };
        let is_param = |x: &syn::Expr| matches!(x, syn::Expr::Path(p) if p.path.is_ident(&pname));
        let chain = |x: &syn::Expr, names: &[&str]| -> bool {
            // x = P.names[0]().names[1]()…
            let mut cur = x;
            for n in names.iter().rev() {
                match cur {
                    syn::Expr::MethodCall(m) if m.method == n && m.args.is_empty() => cur = &m.receiver,
                    _ => return false,
                }
            }
            is_param(cur)
        };
        let (cvar, pred): (String, syn::Expr) = match e {
            syn::Expr::MethodCall(m) if !with_index && m.method == "find" && m.args.len() == 1 && chain(&m.receiver, &["iter_mut", "flatten"]) => {
                match &m.args[0] {
                    syn::Expr::Closure(c) if c.inputs.len() == 1 && c.capture.is_none() => match &c.inputs[0] {
                        syn::Pat::Ident(pi) if pi.subpat.is_none() => (pi.ident.to_string(), (*c.body).clone()),
                        _ => return self.bail(e.span(), bad),
                    },
                    _ => return self.bail(e.span(), bad),
                }
            }
            syn::Expr::MethodCall(m) if with_index && m.method == "find_map" && m.args.len() == 1 && chain(&m.receiver, &["iter_mut", "enumerate"]) => {
                let c = match &m.args[0] {
                    syn::Expr::Closure(c) if c.inputs.len() == 1 && c.capture.is_none() => c,
                    _ => return self.bail(e.span(), bad),
                };
                // |(i, c)|
                let (iv, cv) = match &c.inputs[0] {
                    syn::Pat::Tuple(t) if t.elems.len() == 2 => match (&t.elems[0], &t.elems[1]) {
                        (syn::Pat::Ident(a), syn::Pat::Ident(b)) => (a.ident.to_string(), b.ident.to_string()),
                        _ => return self.bail(e.span(), bad),
                    },
                    _ => return self.bail(e.span(), bad),
                };
                // match c { Some(c2) if pred => Some((i, c2)), _ => None }
                let mm = match &*c.body {
                    syn::Expr::Match(mm) if matches!(&*mm.expr, syn::Expr::Path(p) if p.path.is_ident(&cv)) && mm.arms.len() == 2 => mm,
                    _ => return self.bail(e.span(), bad),
                };
                let a0 = &mm.arms[0];
                let c2 = match &a0.pat {
                    syn::Pat::TupleStruct(ts) if ts.path.is_ident("Some") && ts.elems.len() == 1 => match &ts.elems[0] {
                        syn::Pat::Ident(pi) if pi.subpat.is_none() => pi.ident.to_string(),
                        _ => return self.bail(e.span(), bad),
                    },
                    _ => return self.bail(e.span(), bad),
                };
                let guard = match &a0.guard {
                    Some((_, g)) => (**g).clone(),
                    None => return self.bail(e.span(), bad),
                };
                // Some((i, c2))
                let ok_body = match &*a0.body {
                    syn::Expr::Call(call) if matches!(&*call.func, syn::Expr::Path(p) if p.path.is_ident("Some")) && call.args.len() == 1 => match &call.args[0] {
                        syn::Expr::Tuple(t) if t.elems.len() == 2 => {
                            matches!(&t.elems[0], syn::Expr::Path(p) if p.path.is_ident(&iv)) && matches!(&t.elems[1], syn::Expr::Path(p) if p.path.is_ident(&c2))
                        }
                        _ => false,
                    },
                    _ => false,
                };
                let a1 = &mm.arms[1];
                let none_arm = matches!(&a1.pat, syn::Pat::Wild(_)) && a1.guard.is_none() && matches!(&*a1.body, syn::Expr::Path(p) if p.path.is_ident("None"));
                if !ok_body || !none_arm {
                    return self.bail(e.span(), bad);
                }
                (c2, guard)
            }
            _ => return self.bail(e.span(), bad),
        };
        self.check_local_name(&cvar, e.span())?;
        if !self.assigned_in_expr(&pred).is_empty() || super::analysis::expr_leaves_fn(&pred) {
            return self.bail(e.span(), "the predicate of a finder must be pure");
        }
        self.push_scope(vec![(cvar.clone(), et)]);
        let mut bs: Vec<Stmt> = Vec::new();
        let rb = self.expr(&pred, Some(&Ty::Bool), &mut bs);
        self.pop_scope();
        let (b, bt) = rb?;
        if !bs.is_empty() || !matches!(bt, Ty::Bool) {
            return self.bail(e.span(), "the predicate of a finder must be a pure boolean expression");
        }
        Ok(Doc::atom(format!("pure (RustSem.find_some_idx {} (fun {} => {}))", lean_ident(&pname), lean_ident(&cvar), b)))
    }

    /// payload of a normal / early return: `v` or `(self, v)`
    /// the tuple of `&mut` state (`self`, then the `&mut` parameters), with the given roots replaced by terms
    pub fn state_tuple(&self, roots: &std::collections::BTreeMap<String, String>) -> String {
        let mut comps: Vec<String> = Vec::new();
        if self.self_mode == SelfMode::Mut {
            comps.push(roots.get("self").cloned().unwrap_or_else(|| "self".to_string()));
        }
        for p in &self.mut_params {
            comps.push(roots.get(p).cloned().unwrap_or_else(|| lean_ident(p)));
        }
        match comps.len() {
            0 => "()".to_string(),
            1 => comps.pop().unwrap(),
            _ => format!("({})", comps.join(", ")),
        }
    }

    /// pure read of a place (no bounds checks: only variables and fields), roots substituted
    fn pure_read(&self, p: &Place, roots: &std::collections::BTreeMap<String, String>) -> Option<String> {
        match p {
            Place::Var(n, _) => Some(roots.get(n).cloned().unwrap_or_else(|| lean_ident(n))),
            Place::Field(b, f, _) => Some(format!("{}.{}", self.pure_read(b, roots)?, lean_ident(f))),
            Place::OptWrap(b, _, _) => Some(format!("(some {})", self.pure_read(b, roots)?)),
            Place::Nowhere(_) => Some("none".to_string()),
            Place::Index(_, _, _, _)
            | Place::MapEntry(_, _, _, _)
            | Place::VariantField(_, _, _, _, _, _)
            | Place::Range(_, _, _, _, _)
            | Place::OptSome(_, _, _) => {
                // the value read just before the call (valid only while the root has not been updated)
                if roots.contains_key(&p.root()) {
                    return None;
                }
                self.snapshots.get(&format!("{:?}", p)).cloned()
            }
        }
    }

    /// before a `call(..)?` whose `Err` state must be written back into `p`: read every intermediate place that has no
    /// pure reading (indexed elements, map entries, payloads of `Option`s) into a temporary.  These are the reads the
    /// evaluation of the argument `&mut p` performs anyway: no new panic.
    pub fn snapshot_for_update(&mut self, p: &Place, stmts: &mut Vec<Stmt>) -> R<()> {
        match p {
            Place::Var(_, _) | Place::Nowhere(_) => Ok(()),
            Place::OptSome(b, _, _) => self.snapshot_for_update(b, stmts),
            Place::Field(b, _, _)
            | Place::Index(b, _, _, _)
            | Place::MapEntry(b, _, _, _)
            | Place::OptWrap(b, _, _)
            | Place::Range(b, _, _, _, _)
            | Place::VariantField(b, _, _, _, _, _) => {
                self.snapshot_readable(b, stmts)?;
                self.snapshot_for_update(b, stmts)
            }
        }
    }
    fn snapshot_readable(&mut self, p: &Place, stmts: &mut Vec<Stmt>) -> R<()> {
        match p {
            Place::Var(_, _) | Place::Nowhere(_) => Ok(()),
            Place::Field(b, _, _) | Place::OptWrap(b, _, _) => self.snapshot_readable(b, stmts),
            Place::Index(_, _, _, _)
            | Place::MapEntry(_, _, _, _)
            | Place::VariantField(_, _, _, _, _, _)
            | Place::Range(_, _, _, _, _)
            | Place::OptSome(_, _, _) => {
                let t = self.read(p, stmts)?;
                self.snapshots.insert(format!("{:?}", p), t);
                Ok(())
            }
        }
    }

    /// record in `roots` the pure update "place := v" (used to describe the caller's state on a callee's `Err`)
    pub fn pure_update(&self, p: &Place, v: String, roots: &mut std::collections::BTreeMap<String, String>) -> bool {
        match p {
            Place::Var(n, _) => {
                roots.insert(n.clone(), v.clone());
                // a cursor over a buffer: the buffer holds what the cursor wrote before the error
                if let Some((_, b)) = self.backings.iter().rev().find(|(x, _)| x == n).cloned() {
                    return self.pure_update(&b, format!("{}.buf", v), roots);
                }
                true
            }
            Place::Field(b, f, _) => match self.pure_read(b, roots) {
                Some(bt) => self.pure_update(b, format!("{{ {} with {} := {} }}", bt, lean_ident(f), v), roots),
                None => false,
            },
            Place::Index(b, i, _, _) => match self.pure_read(b, roots) {
                Some(bt) => self.pure_update(b, format!("(List.set {} {} {})", bt, i, v), roots),
                None => false,
            },
            Place::MapEntry(b, k, _, _) => match self.pure_read(b, roots) {
                Some(bt) => {
                    let mns = b.ty().map_ns();
                    self.pure_update(b, format!("({mns}.insert {} {} {})", bt, k, v), roots)
                }
                None => false,
            },
            Place::OptSome(b, _, _) => self.pure_update(b, format!("(some {})", v), roots),
            Place::OptWrap(b, _, _) => match self.pure_read(b, roots) {
                Some(bt) => self.pure_update(b, format!("(Option.getD {} {})", v, bt), roots),
                None => false,
            },
            Place::Nowhere(_) => true,
            Place::Range(b, lo, hi, _, _) => match self.pure_read(b, roots) {
                Some(bt) => {
                    let tail = match hi {
                        Some(h) => format!(" ++ List.drop {} {}", h, bt),
                        None => String::new(),
                    };
                    self.pure_update(b, format!("(List.take {} {} ++ {}{})", lo, bt, v, tail), roots)
                }
                None => false,
            },
            Place::VariantField(b, en, vn, f, _, _) => match self.pure_read(b, roots) {
                Some(bt) => self.pure_update(b, format!("({}.{}.set_{} {} {})", en, lean_ident(vn), f, bt, v), roots),
                None => false,
            },
        }
    }

    pub fn payload_pub(&self, v: &str) -> String {
        self.payload(v)
    }
    fn payload(&self, v: &str) -> String {
        let mut comps: Vec<String> = Vec::new();
        if self.self_mode == SelfMode::Mut {
            comps.push("self".into());
        }
        for p in &self.mut_params {
            comps.push(lean_ident(p));
        }
        if comps.is_empty() {
            v.to_string()
        } else {
            comps.push(v.to_string());
            format!("({})", comps.join(", "))
        }
    }

    /// the value an early `return v` sends through the early-exit channel (wrapped once per enclosing exit-style loop)
    pub fn early_payload(&self, v: &str) -> String {
        let mut p = self.payload(v);
        for _ in 0..self.loop_stack.len() {
            p = format!("(RustSem.LoopExit.ret {})", p);
        }
        if p.starts_with('(') {
            p
        } else {
            format!("({})", p)
        }
    }

    /// translate `e` in return position; `early` = it is the operand of `return`
    pub fn ret_doc(&mut self, e: Option<&syn::Expr>, early: bool, span: proc_macro2::Span, stmts: &mut Vec<Stmt>) -> R<Doc> {
        let wrap = |cx: &Cx, v: &str| -> Doc {
            if early {
                // inside `while` bodies the early-exit channel carries `LoopExit` values
                let mut p = cx.payload(v);
                for _ in 0..cx.loop_stack.len() {
                    p = format!("(RustSem.LoopExit.ret {})", p);
                }
                Doc::atom(format!("Exec.ret {}", p))
            } else {
                Doc::atom(format!("pure {}", cx.payload(v)))
            }
        };
        let e = match e {
            None => {
                if self.err.is_some() || !matches!(self.ret, Ty::Unit) {
                    return self.bail(span, "`return;` in a function that returns a value");
                }
                return Ok(wrap(self, "()"));
            }
            Some(e) => e,
        };
        if self.err.is_none() {
            // a tail `if` / `match` / block whose branches assign outer variables: every branch ends the function
            if !early && !self.assigned_in_expr(e).is_empty() {
                match e {
                    syn::Expr::If(i) => return Ok(self.if_doc(i, &Tail::FnBody, stmts)?.0),
                    syn::Expr::Match(m) => return Ok(self.match_doc(m, &Tail::FnBody, stmts)?.0),
                    syn::Expr::Block(b) if b.label.is_none() => return Ok(self.block(&b.block, &Tail::FnBody, &[])?.0),
                    _ => {}
                }
            }
            let ret = self.ret.clone();
            let (v, _) = self.expr(e, Some(&ret), stmts)?;
            return Ok(wrap(self, &v));
        }
        // Result fn: the expression must say syntactically whether it is Ok or Err
        match e {
            syn::Expr::Paren(p) => self.ret_doc(Some(&p.expr), early, span, stmts),
            syn::Expr::Call(c) => {
                if let syn::Expr::Path(p) = &*c.func {
                    let segs: Vec<String> = p.path.segments.iter().map(|s| s.ident.to_string()).collect();
                    if segs.len() == 1 && segs[0] == "Ok" && c.args.len() == 1 {
                        let ret = self.ret.clone();
                        let (v, _) = self.expr(&c.args[0], Some(&ret), stmts)?;
                        return Ok(wrap(self, &v));
                    }
                    if segs.len() == 1 && segs[0] == "Err" && c.args.len() == 1 {
                        let et = self.err.clone().unwrap();
                        let (v, _) = self.expr(&c.args[0], Some(&et), stmts)?;
                        if self.err_state {
                            // the error carries the state the `&mut` references are left in
                            let st = self.state_tuple(&std::collections::BTreeMap::new());
                            return Ok(Doc::atom(format!("Exec.err ({}, {})", v, st)));
                        }
                        return Ok(Doc::atom(format!("Exec.err {}", v)));
                    }
                }
                self.result_tail_call(e, early, stmts)
            }
            syn::Expr::MethodCall(_) => self.result_tail_call(e, early, stmts),
            syn::Expr::Macro(m) => match self.stmt_macro(&m.mac, stmts)? {
                Some(d) => Ok(d),
                None => self.bail(e.span(), "this macro is not a value of type `Result`"),
            },
            syn::Expr::If(i) => {
                let (d, _) = self.if_doc(i, &Tail::FnBody, stmts)?;
                Ok(d)
            }
            syn::Expr::Match(m) => {
                let (d, _) = self.match_doc(m, &Tail::FnBody, stmts)?;
                Ok(d)
            }
            syn::Expr::Block(b) if b.label.is_none() => {
                let (d, _, _) = self.block(&b.block, &Tail::FnBody, &[])?;
                Ok(d)
            }
            _ => self.bail(e.span(), "return value of a `Result` fn must be `Ok(..)`, `Err(..)`, an `if`/`match` of these, or a call of a translated `Result` fn"),
        }
    }

    fn result_tail_call(&mut self, e: &syn::Expr, early: bool, stmts: &mut Vec<Stmt>) -> R<Doc> {
        // `fn f(..) -> Result<..> { g(..) }` is `Ok(g(..)?)` when the error types agree (checked by the `?` path);
        // `return g(..)` leaves the fn through the early-exit channel
        let (v, _) = self.try_call(e, e.span(), false, stmts)?;
        if early {
            return Ok(Doc::atom(format!("Exec.ret {}", self.early_payload(&v))));
        }
        let p = self.payload_pub(&v);
        Ok(Doc::atom(format!("pure {}", p)))
    }

    // ------------------------------------------------------------------ blocks and statements

    /// Translate a block. `binds` are pattern variables of the construct that owns the block.
    /// Returns (doc, type of the value for `Tail::Value`, diverges)
    pub fn block(&mut self, b: &syn::Block, tail: &Tail, binds: &[(String, Ty)]) -> R<(Doc, Ty, bool)> {
        self.items(&b.stmts, tail, binds, b.span())
    }

    pub fn items(&mut self, items: &[syn::Stmt], tail: &Tail, binds: &[(String, Ty)], span: proc_macro2::Span) -> R<(Doc, Ty, bool)> {
        self.scopes.push(binds.to_vec());
        let pa = std::mem::take(&mut self.pending_aliases);
        self.aliases.push(pa);
        let pr = std::mem::take(&mut self.pending_ro);
        self.ro.push(pr);
        let saved_ignored = self.ignored_locals.len();
        let saved_backings = self.backings.len();
        let saved_globs = self.glob_enums.len();
        let saved_closures = self.local_closures.len();
        let r = self.items_inner(items, tail, span);
        self.local_closures.truncate(saved_closures);
        self.glob_enums.truncate(saved_globs);
        self.aliases.pop();
        self.ro.pop();
        self.scopes.pop();
        self.ignored_locals.truncate(saved_ignored);
        self.backings.truncate(saved_backings);
        r
    }

    fn items_inner(&mut self, items: &[syn::Stmt], tail: &Tail, span: proc_macro2::Span) -> R<(Doc, Ty, bool)> {
        let mut stmts: Vec<Stmt> = Vec::new();
        let n = items.len();
        let unit_fn = self.err.is_none() && matches!(self.ret, Ty::Unit);
        for (idx, st) in items.iter().enumerate() {
            let last = idx + 1 == n;
            match st {
                syn::Stmt::Local(l) if l.init.as_ref().map(|i| i.diverge.is_some()).unwrap_or(false) => {
                    // `let PAT = e else { diverge };  rest…`  ≡  `match e { PAT => rest…, _ => diverge }`
                    let d = self.let_else(l, &items[idx + 1..], tail, span, &mut stmts)?;
                    return Ok((Doc::seq(stmts, d.0), d.1, d.2));
                }
                syn::Stmt::Local(l) if self.local_is_ignored(l) => {
                    // a value computed from ignored fields / floats: evaluated for its effects only
                    let init = &l.init.as_ref().unwrap().expr;
                    self.effects_only(init, &mut stmts)?;
                    let mut names = Vec::new();
                    super::analysis::pat_idents(&l.pat, &mut names);
                    self.ignored_locals.extend(names);
                }
                syn::Stmt::Local(l)
                    if matches!(&l.init, Some(i) if matches!(&*i.expr, syn::Expr::Closure(_)))
                        && matches!(&l.pat, syn::Pat::Ident(pi) if pi.subpat.is_none() && pi.by_ref.is_none()) =>
                {
                    // `let f = |a: A, b: B| body;`: remembered; every call `f(x, y)` is the body, inlined
                    let name = match &l.pat {
                        syn::Pat::Ident(pi) => pi.ident.to_string(),
                        _ => unreachable!(),
                    };
                    let cl = match &*l.init.as_ref().unwrap().expr {
                        syn::Expr::Closure(c) => c.clone(),
                        _ => unreachable!(),
                    };
                    if cl.asyncness.is_some() || cl.constness.is_some() {
                        return self.bail(l.span(), "unsupported closure");
                    }
                    for inp in &cl.inputs {
                        let ok = match inp {
                            syn::Pat::Type(pt) => matches!(&*pt.pat, syn::Pat::Ident(pi) if pi.subpat.is_none() && pi.by_ref.is_none()),
                            syn::Pat::Ident(pi) => pi.subpat.is_none() && pi.by_ref.is_none(),
                            _ => false,
                        };
                        if !ok {
                            return self.bail(inp.span(), "unsupported closure parameter pattern");
                        }
                    }
                    if super::analysis::expr_leaves_fn(&cl.body) {
                        return self.bail(cl.body.span(), "a local closure whose body leaves (`return` / `?` / labelled jump) is not supported");
                    }
                    self.check_local_name(&name, l.span())?;
                    self.local_closures.push((name, cl));
                }
                syn::Stmt::Local(l) => {
                    // `let x = f(..)?;` with a const-generic `f`: the array length may only be fixed by a later use
                    self.array_len_lookahead = self.infer_array_len(l, &items[idx + 1..]);
                    self.cursor_kind_hint = self.infer_cursor_kind(l, &items[idx + 1..]);
                    let r = self.local(l, &mut stmts);
                    self.array_len_lookahead = None;
                    self.cursor_kind_hint = None;
                    r?
                }
                syn::Stmt::Item(syn::Item::Use(u)) => self.use_item(u)?,
                syn::Stmt::Item(syn::Item::Const(c)) => {
                    // a `const` nested in a block: a `let` whose initialiser is a constant expression
                    let names: Vec<String> = self.g.structs.keys().chain(self.g.enums.keys()).cloned().collect();
                    let ty = crate::globals::conv_ty(&self.file, &c.ty, self.self_ty.as_deref(), &names)?;
                    let (v, _) = self.expr(&c.expr, Some(&ty), &mut stmts)?;
                    let name = c.ident.to_string();
                    stmts.push(Stmt::Let(lean_ident(&name), v));
                    self.declare(&name, ty);
                }
                syn::Stmt::Item(it) => return self.bail(it.span(), "nested item is not supported"),
                syn::Stmt::Macro(m) => {
                    if let Some(d) = self.stmt_macro(&m.mac, &mut stmts)? {
                        if !last {
                            return self.bail(m.span(), "unreachable code after a diverging macro");
                        }
                        return Ok((Doc::seq(stmts, d), Ty::Unknown, true));
                    }
                }
                syn::Stmt::Expr(e, semi) => {
                    let as_value = last
                        && semi.is_none()
                        && match tail {
                            Tail::FnBody => !unit_fn,
                            Tail::Value(_) => true,
                            Tail::Unit(_) => false,
                        };
                    if as_value {
                        match tail {
                            Tail::FnBody => {
                                let d = if let syn::Expr::Return(r) = e {
                                    self.ret_doc(r.expr.as_deref(), true, r.span(), &mut stmts)?
                                } else {
                                    self.ret_doc(Some(e), false, e.span(), &mut stmts)?
                                };
                                return Ok((Doc::seq(stmts, d), self.ret.clone(), true));
                            }
                            Tail::Value(exp) => {
                                if let Some(d) = self.diverging(e, &mut stmts)? {
                                    return Ok((Doc::seq(stmts, d), Ty::Unknown, true));
                                }
                                let (v, t) = self.expr(e, exp.as_ref(), &mut stmts)?;
                                let v = self.carry_val(&v);
                                return Ok((Doc::seq(stmts, Doc::atom(format!("pure {}", v))), t, false));
                            }
                            Tail::Unit(_) => unreachable!(),
                        }
                    }
                    if let Some(d) = self.stmt(e, &mut stmts)? {
                        if !last {
                            return self.bail(e.span(), "unreachable code after `return`");
                        }
                        return Ok((Doc::seq(stmts, d), Ty::Unknown, true));
                    }
                }
            }
        }
        // fell off the end
        match tail {
            Tail::FnBody => {
                if !unit_fn {
                    return self.bail(span, "function body ends without a value");
                }
                let p = self.payload("()");
                Ok((Doc::seq(stmts, Doc::atom(format!("pure {}", p))), Ty::Unit, false))
            }
            Tail::Value(_) => {
                let v = self.carry_val("()");
                Ok((Doc::seq(stmts, Doc::atom(format!("pure {}", v))), Ty::Unit, false))
            }
            Tail::Unit(m) => Ok((Doc::seq(stmts, Doc::atom(format!("pure {}", Self::tuple_val(m)))), Ty::Unit, false)),
        }
    }

    /// value of a value-position construct together with the outer variables it assigns
    fn carry_val(&self, v: &str) -> String {
        match self.value_carry.last() {
            Some(m) if !m.is_empty() => {
                let mut comps: Vec<String> = m.iter().map(|x| lean_ident(x)).collect();
                comps.push(v.to_string());
                format!("({})", comps.join(", "))
            }
            _ => v.to_string(),
        }
    }

    /// bind the result of a value-position construct that assigns the outer variables `m`
    pub fn bind_carried(&mut self, m: &[String], d: Doc, stmts: &mut Vec<Stmt>) -> String {
        let t = self.fresh();
        if m.is_empty() {
            stmts.push(Stmt::Bind(t.clone(), d));
        } else {
            let mut comps: Vec<String> = m.iter().map(|x| lean_ident(x)).collect();
            comps.push(t.clone());
            self.note_dirty(m);
            stmts.push(Stmt::Bind(format!("({})", comps.join(", ")), d));
        }
        t
    }

    /// the expressions a value-position `match` / `if` / block can evaluate to (diverging leaves are skipped)
    fn value_leaves<'e>(e: &'e syn::Expr, out: &mut Vec<&'e syn::Expr>) {
        match e {
            syn::Expr::Paren(p) => Self::value_leaves(&p.expr, out),
            syn::Expr::Match(m) => {
                for a in &m.arms {
                    Self::value_leaves(&a.body, out);
                }
            }
            syn::Expr::If(i) => {
                if let Some(syn::Stmt::Expr(t, None)) = i.then_branch.stmts.last() {
                    Self::value_leaves(t, out);
                }
                if let Some((_, el)) = &i.else_branch {
                    Self::value_leaves(el, out);
                }
            }
            syn::Expr::Block(b) if b.label.is_none() => {
                if let Some(syn::Stmt::Expr(t, None)) = b.block.stmts.last() {
                    Self::value_leaves(t, out);
                }
            }
            syn::Expr::Return(_) | syn::Expr::Break(_) | syn::Expr::Continue(_) => {}
            syn::Expr::Macro(m) => {
                let name = m.mac.path.segments.last().map(|s| s.ident.to_string()).unwrap_or_default();
                if !(name == "unreachable" || name == "panic" || name == "unimplemented" || name == "todo") {
                    out.push(e);
                }
            }
            other => out.push(other),
        }
    }

    /// `return …` / diverging macro in value position
    fn diverging(&mut self, e: &syn::Expr, stmts: &mut Vec<Stmt>) -> R<Option<Doc>> {
        match e {
            syn::Expr::Return(r) => Ok(Some(self.ret_doc(r.expr.as_deref(), true, r.span(), stmts)?)),
            // `break` / `continue` of an enclosing loop in value position (`let x = match .. { .. => break, .. }`)
            syn::Expr::Continue(c) => Ok(Some(self.loop_jump("cont", &c.label, e.span())?)),
            syn::Expr::Break(b) if b.expr.is_none() => Ok(Some(self.loop_jump("brk", &b.label, e.span())?)),
            syn::Expr::Macro(m) => {
                let name = m.mac.path.segments.last().map(|s| s.ident.to_string()).unwrap_or_default();
                if name == "unreachable" || name == "panic" || name == "unimplemented" || name == "todo" {
                    Ok(Some(Doc::atom(format!("Exec.panic {}", self.site(e)))))
                } else {
                    Ok(None)
                }
            }
            _ => Ok(None),
        }
    }

    /// an expression used as a single-arm body (match arm, else branch)
    pub fn arm_doc(&mut self, e: &syn::Expr, tail: &Tail, binds: &[(String, Ty)]) -> R<(Doc, Ty, bool)> {
        match e {
            syn::Expr::Block(b) if b.label.is_none() && b.attrs.is_empty() => self.block(&b.block, tail, binds),
            _ => {
                let items = vec![syn::Stmt::Expr(e.clone(), None)];
                self.items(&items, tail, binds, e.span())
            }
        }
    }

    /// aliases for the fields of a struct-variant pattern matched against a place (`&mut` binding mode)
    fn variant_aliases(&mut self, base: &Place, p: &syn::Pat, site: String) -> R<(String, Vec<(String, Place)>)> {
        let ps = match p {
            syn::Pat::Struct(ps) => ps,
            o => return self.bail(o.span(), "only struct-variant patterns can bind `&mut` references into a place"),
        };
        let (en, v) = match self.resolve_variant(&ps.path) {
            Some(x) => x,
            None => return self.bail(p.span(), "unsupported pattern"),
        };
        match base.ty() {
            Ty::Named(n) if n == en => {}
            _ => return self.bail(p.span(), "pattern does not match the type of the place"),
        }
        let info = self.g.enums.get(&en).unwrap().variants.iter().find(|x| x.name == v).unwrap().clone();
        let lean_en = super::lean_type_name(self.g, &self.ns, &en);
        let mut aliases = Vec::new();
        for fp in &ps.fields {
            let fname = match &fp.member {
                syn::Member::Named(id) => id.to_string(),
                _ => return self.bail(fp.span(), "unsupported field pattern"),
            };
            let fty = match info.fields.iter().find(|(n, _)| n.as_deref() == Some(fname.as_str())) {
                Some((_, t)) => t.clone(),
                None => return self.bail(fp.span(), "unknown field"),
            };
            let var = match &*fp.pat {
                syn::Pat::Ident(pi) if pi.subpat.is_none() => pi.ident.to_string(),
                o => return self.bail(o.span(), "only plain variable bindings are supported in a `&mut` variant pattern"),
            };
            self.check_local_name(&var, fp.span())?;
            aliases.push((var, Place::VariantField(Box::new(base.clone()), lean_en.clone(), v.clone(), fname, fty, site.clone())));
        }
        Ok((format!("{} ..", self.variant_lean(&en, &v)), aliases))
    }

    /// `let PAT = init else { diverging };` followed by `rest`
    fn let_else(
        &mut self,
        l: &syn::Local,
        rest: &[syn::Stmt],
        tail: &Tail,
        span: proc_macro2::Span,
        stmts: &mut Vec<Stmt>,
    ) -> R<(Doc, Ty, bool)> {
        let init = l.init.as_ref().unwrap();
        let else_expr = &init.diverge.as_ref().unwrap().1;
        let pat: &syn::Pat = match &l.pat {
            syn::Pat::Type(pt) => &pt.pat,
            p => p,
        };
        let else_doc = |cx: &mut Cx| -> R<Doc> {
            let (d, _, div) = cx.arm_doc(else_expr, tail, &[])?;
            if !div {
                return cx.bail(else_expr.span(), "the `else` block of `let … else` must diverge");
            }
            Ok(d)
        };
        // `let Some(x) = map.get_mut(&k) else { … }` : `x` is an alias of the entry
        if let syn::Expr::MethodCall(gm) = &*init.expr {
            if gm.method == "get_mut" && gm.args.len() == 1 {
                if let syn::Pat::TupleStruct(ts) = pat {
                    if ts.path.is_ident("Some") && ts.elems.len() == 1 {
                        if let syn::Pat::Ident(pi) = &ts.elems[0] {
                            let name = pi.ident.to_string();
                            self.check_local_name(&name, pat.span())?;
                            let base = self.place(&gm.receiver, stmts)?;
                            let (kt, vt) = match base.ty() {
                                Ty::Map(k, v, _) => (*k, *v),
                                _ => return self.bail(gm.receiver.span(), "`get_mut` on a value that is not a map"),
                            };
                            let (k, _) = self.expr(&gm.args[0], Some(&kt), stmts)?;
                            let cur = self.read(&base, stmts)?;
                            let mns = base.ty().map_ns();
                            let site = self.site(&*init.expr);
                            let ed = else_doc(self)?;
                            self.pending_aliases.push((name.clone(), Place::MapEntry(Box::new(base), k.clone(), vt.clone(), site)));
                            let (rd, ty, div) = self.items(rest, tail, &[(name, vt)], span)?;
                            return Ok((Doc::If(format!("{mns}.contains_key {} {}", cur, k), Box::new(rd), Box::new(ed)), ty, div));
                        }
                    }
                }
            }
        }
        // scrutinee is a `&mut` binding: a struct-variant pattern binds references into it
        let (v, vt, base) = self.scrutinee(&init.expr, stmts)?;
        if let Some(base) = &base {
            if matches!(pat, syn::Pat::Struct(_)) {
                let site = self.site(&*init.expr);
                let base = base.clone();
                let val = v;
                let (lp, aliases) = self.variant_aliases(&base, pat, site)?;
                let ed = else_doc(self)?;
                let binds: Vec<(String, Ty)> = aliases.iter().map(|(n, p)| (n.clone(), p.ty())).collect();
                self.pending_aliases.extend(aliases);
                let (rd, ty, div) = self.items(rest, tail, &binds, span)?;
                return Ok((Doc::Match(val, vec![(lp, rd), ("_".into(), ed)]), ty, div));
            }
        }
        // by-value pattern
        let (lp, binds) = self.pat(pat, &vt)?;
        for (n, _) in &binds {
            self.check_local_name(n, pat.span())?;
        }
        let ed = else_doc(self)?;
        if base.is_some() {
            self.pending_ro.extend(binds.iter().map(|(n, _)| n.clone()));
        }
        let (rd, ty, div) = self.items(rest, tail, &binds, span)?;
        Ok((Doc::Match(v, vec![(lp, rd), ("_".into(), ed)]), ty, div))
    }

    /// `let x = …;` without annotation: if a later struct / variant literal of the block initialises an array-typed
    /// field with `x`, that field's declared length (Rust infers the same: it is the only constraint on the length)
    /// `let w = [&mut] io::Cursor::new(..);`: is `w` used as a writer (`Some(true)`) or a reader (`Some(false)`) by the
    /// statements that follow (`w.write_all(..)` / `w.read_exact(..)`, or `w` passed to a parameter of type
    /// `impl io::Write` / `impl io::Read`)?
    fn infer_cursor_kind(&mut self, l: &syn::Local, rest: &[syn::Stmt]) -> Option<bool> {
        let name = match &l.pat {
            syn::Pat::Ident(pi) if pi.subpat.is_none() => pi.ident.to_string(),
            _ => return None,
        };
        let mut init: &syn::Expr = match &l.init {
            Some(i) => &i.expr,
            None => return None,
        };
        loop {
            match init {
                syn::Expr::Reference(r) => init = &r.expr,
                syn::Expr::Paren(p) => init = &p.expr,
                _ => break,
            }
        }
        let is_cursor_new = match init {
            syn::Expr::Call(c) => match &*c.func {
                syn::Expr::Path(p) => {
                    let segs: Vec<String> = p.path.segments.iter().map(|x| x.ident.to_string()).collect();
                    segs.len() >= 2 && segs[segs.len() - 2] == "Cursor" && segs[segs.len() - 1] == "new"
                }
                _ => false,
            },
            _ => false,
        };
        if !is_cursor_new {
            return None;
        }
        struct Find<'n, 'g> {
            name: &'n str,
            g: &'g Globals,
            hit: Option<bool>,
        }
        impl<'n, 'g> Find<'n, 'g> {
            fn is_var(&self, e: &syn::Expr) -> bool {
                let mut e = e;
                loop {
                    match e {
                        syn::Expr::Reference(r) => e = &r.expr,
                        syn::Expr::Paren(p) => e = &p.expr,
                        _ => break,
                    }
                }
                matches!(e, syn::Expr::Path(p) if p.path.is_ident(self.name))
            }
            fn by_param(&mut self, fname: &str, idx: usize) {
                for ((_, n), infos) in self.g.fns.iter() {
                    if n == fname {
                        for info in infos {
                            if let Some((_, Ty::Named(t))) = info.params.get(idx) {
                                if t == "WriteCursor" && self.hit.is_none() {
                                    self.hit = Some(true);
                                } else if t == "ReadCursor" && self.hit.is_none() {
                                    self.hit = Some(false);
                                }
                            }
                        }
                    }
                }
            }
        }
        impl<'ast, 'n, 'g> Visit<'ast> for Find<'n, 'g> {
            fn visit_expr_method_call(&mut self, m: &'ast syn::ExprMethodCall) {
                if self.hit.is_none() {
                    if self.is_var(&m.receiver) {
                        let n = m.method.to_string();
                        if n == "write_all" || n == "write" {
                            self.hit = Some(true);
                        } else if n == "read_exact" {
                            self.hit = Some(false);
                        }
                    }
                    for (i, a) in m.args.iter().enumerate() {
                        if self.is_var(a) {
                            self.by_param(&m.method.to_string(), i);
                        }
                    }
                }
                syn::visit::visit_expr_method_call(self, m);
            }
            fn visit_expr_call(&mut self, c: &'ast syn::ExprCall) {
                if self.hit.is_none() {
                    if let syn::Expr::Path(p) = &*c.func {
                        if let Some(last) = p.path.segments.last() {
                            for (i, a) in c.args.iter().enumerate() {
                                if self.is_var(a) {
                                    self.by_param(&last.ident.to_string(), i);
                                }
                            }
                        }
                    }
                }
                syn::visit::visit_expr_call(self, c);
            }
        }
        let mut f = Find { name: &name, g: self.g, hit: None };
        for st in rest {
            f.visit_stmt(st);
            if f.hit.is_some() {
                break;
            }
        }
        f.hit
    }

    fn infer_array_len(&mut self, l: &syn::Local, rest: &[syn::Stmt]) -> Option<String> {
        let name = match &l.pat {
            syn::Pat::Ident(pi) if pi.subpat.is_none() => pi.ident.to_string(),
            _ => return None,
        };
        struct Find<'n> {
            name: &'n str,
            hit: Option<(syn::Path, String)>,
        }
        impl<'ast, 'n> Visit<'ast> for Find<'n> {
            fn visit_expr_struct(&mut self, s: &'ast syn::ExprStruct) {
                if self.hit.is_none() {
                    for fv in &s.fields {
                        let is_var = matches!(&fv.expr, syn::Expr::Path(p) if p.path.is_ident(self.name));
                        if let (true, syn::Member::Named(f)) = (is_var, &fv.member) {
                            self.hit = Some((s.path.clone(), f.to_string()));
                            return;
                        }
                    }
                }
                syn::visit::visit_expr_struct(self, s);
            }
        }
        let mut f = Find { name: &name, hit: None };
        for st in rest {
            // a later `let` of the same name ends the scope of this variable
            if let syn::Stmt::Local(l2) = st {
                if let Some(i) = &l2.init {
                    f.visit_expr(&i.expr);
                }
                let mut names = Vec::new();
                super::analysis::pat_idents(&l2.pat, &mut names);
                if f.hit.is_some() || names.contains(&name) {
                    break;
                }
                continue;
            }
            f.visit_stmt(st);
            if f.hit.is_some() {
                break;
            }
        }
        let (path, field) = f.hit?;
        let key = match self.resolve_variant(&path) {
            Some((en, v)) => (en, v, field),
            None => {
                let segs: Vec<String> = path.segments.iter().map(|s| s.ident.to_string()).collect();
                let mut n = segs.last()?.clone();
                if n == "Self" {
                    n = self.self_ty.clone()?;
                } else {
                    n = self.g.tkey(&self.file, &n);
                }
                (n, String::new(), field)
            }
        };
        let len = self.g.array_lens.get(&key)?.clone();
        let mut tmp: Vec<Stmt> = Vec::new();
        match self.expr(&len, Some(&Ty::usize()), &mut tmp) {
            Ok((t, _)) if tmp.is_empty() => Some(t),
            _ => None,
        }
    }

    fn use_item(&mut self, u: &syn::ItemUse) -> R<()> {
        // only `use Enum::*;`
        if let syn::UseTree::Path(p) = &u.tree {
            if let syn::UseTree::Glob(_) = &*p.tree {
                let n = p.ident.to_string();
                let n = if n == "Self" { self.self_ty.clone().unwrap_or(n) } else { self.g.tkey(&self.file, &n) };
                if self.g.enums.contains_key(&n) {
                    self.glob_enums.push(n);
                    return Ok(());
                }
            }
        }
        self.bail(u.span(), "only `use <translated enum>::*;` is supported inside a function")
    }

    fn is_log_macro(mac: &syn::Macro) -> bool {
        mac.path.segments.len() == 2 && mac.path.segments[0].ident == "log"
    }

    /// statement macro: `log::…!` is ignored, `unreachable!`/`panic!` panic
    fn stmt_macro(&mut self, mac: &syn::Macro, _stmts: &mut Vec<Stmt>) -> R<Option<Doc>> {
        if Self::is_log_macro(mac) {
            return Ok(None);
        }
        let name = mac.path.segments.last().map(|s| s.ident.to_string()).unwrap_or_default();
        if name == "assert" {
            // `assert!(cond, "message", args…)`: panics when `cond` is false (the message is not evaluated otherwise)
            struct First(syn::Expr);
            impl syn::parse::Parse for First {
                fn parse(input: syn::parse::ParseStream) -> syn::Result<Self> {
                    let e: syn::Expr = input.parse()?;
                    let _rest: proc_macro2::TokenStream = input.parse()?;
                    Ok(First(e))
                }
            }
            let cond = match mac.parse_body::<First>() {
                Ok(f) => f.0,
                Err(_) => return self.bail(mac.span(), "cannot parse the condition of `assert!`"),
            };
            let (c, ct) = self.expr(&cond, Some(&Ty::Bool), _stmts)?;
            if !matches!(ct, Ty::Bool) {
                return self.bail(mac.span(), "`assert!` condition is not a bool");
            }
            _stmts.push(Stmt::Bind("_".into(), Doc::atom(format!("RustSem.assert {} {}", c, self.site(mac)))));
            return Ok(None);
        }
        if name == "unreachable" || name == "panic" || name == "unimplemented" || name == "todo" {
            return Ok(Some(Doc::atom(format!("Exec.panic {}", self.site(mac)))));
        }
        self.bail(mac.span(), format!("unsupported macro `{}!` in statement position", name))
    }

    fn local(&mut self, l: &syn::Local, stmts: &mut Vec<Stmt>) -> R<()> {
        let (pat, annot) = match &l.pat {
            syn::Pat::Type(pt) => {
                let names: Vec<String> = self.g.structs.keys().chain(self.g.enums.keys()).cloned().collect();
                (&*pt.pat, Some(crate::globals::conv_ty(&self.file, &pt.ty, self.self_ty.as_deref(), &names)?))
            }
            p => (p, None),
        };
        let init = match &l.init {
            Some(i) if i.diverge.is_none() => &i.expr,
            Some(i) => return self.bail(i.expr.span(), "`let … else` is not supported"),
            None => return self.bail(l.span(), "`let` without initialiser is not supported"),
        };
        // `let x = match .. { .. => &mut P[lo..hi], .. }`: `x` is an alias of the sub-slice (a place), not a copy
        if let syn::Pat::Ident(pi) = pat {
            if pi.subpat.is_none() && pi.by_ref.is_none() && matches!(&**init, syn::Expr::Match(_) | syn::Expr::If(_) | syn::Expr::Block(_)) {
                let mut leaves: Vec<&syn::Expr> = Vec::new();
                Self::value_leaves(init, &mut leaves);
                let is_mut_range = |e: &syn::Expr| -> bool {
                    if let syn::Expr::Reference(r) = e {
                        if r.mutability.is_some() {
                            let mut inner: &syn::Expr = &r.expr;
                            while let syn::Expr::Paren(p) = inner {
                                inner = &p.expr;
                            }
                            if let syn::Expr::Index(ix) = inner {
                                return matches!(&*ix.index, syn::Expr::Range(_));
                            }
                        }
                    }
                    false
                };
                if !leaves.is_empty() && leaves.iter().all(|e| is_mut_range(e)) {
                    let name = pi.ident.to_string();
                    self.check_local_name(&name, pat.span())?;
                    self.range_capture = Some((None, None));
                    let r = self.expr(init, Some(&Ty::usize()), stmts);
                    let cap = self.range_capture.take();
                    let (hi, _) = r?;
                    let (base, lo) = match cap {
                        Some((Some(b), lo)) => (b, lo),
                        _ => return self.bail(init.span(), "internal: no sub-slice captured"),
                    };
                    let pl = self.place(&base, stmts)?;
                    let elem = match pl.ty() {
                        Ty::List(e, _) => e,
                        _ => return self.bail(base.span(), "sub-slice of a value that is not a list"),
                    };
                    let lo_t = match &lo {
                        Some(e) => {
                            if !matches!(e, syn::Expr::Lit(_)) {
                                return self.bail(e.span(), "the lower bound of an aliased sub-slice must be a literal");
                            }
                            self.expr(e, Some(&Ty::usize()), stmts)?.0
                        }
                        None => "0".to_string(),
                    };
                    let hv = self.fresh();
                    stmts.push(Stmt::Let(hv.clone(), hi));
                    let site = self.site(init);
                    let place = Place::Range(Box::new(pl), lo_t, Some(hv), Ty::List(elem, crate::ty::ListKind::Slice), site);
                    self.aliases.last_mut().unwrap().push((name, place));
                    return Ok(());
                }
            }
        }
        // `let x: [T; LEN] = f(..)` : LEN is the const-generic argument of `f` (if it has one)
        let mut hint: Option<String> = None;
        if let syn::Pat::Type(pt) = &l.pat {
            let mut t: &syn::Type = &pt.ty;
            while let syn::Type::Reference(r) = t {
                t = &r.elem;
            }
            if let syn::Type::Array(a) = t {
                let mut tmp: Vec<Stmt> = Vec::new();
                if let Ok((lt, _)) = self.expr(&a.len, Some(&Ty::usize()), &mut tmp) {
                    if tmp.is_empty() {
                        hint = Some(lt);
                    }
                }
            }
        }
        // `let x = map.entry(k).or_insert_with(|| e);` / `.or_insert(e)` : `x` is an alias of the map entry
        if let syn::Expr::MethodCall(oi) = &**init {
            let oname = oi.method.to_string();
            if (oname == "or_insert_with" || oname == "or_insert") && oi.args.len() == 1 {
                if let syn::Expr::MethodCall(en) = &*oi.receiver {
                    if en.method == "entry" && en.args.len() == 1 {
                        let name = match pat {
                            syn::Pat::Ident(pi) if pi.subpat.is_none() && pi.by_ref.is_none() => pi.ident.to_string(),
                            other => return self.bail(other.span(), "`let <pattern> = map.entry(..)…` needs a plain variable"),
                        };
                        self.check_local_name(&name, pat.span())?;
                        let base = self.place(&en.receiver, stmts)?;
                        let (kt, vt) = match base.ty() {
                            Ty::Map(k, v, _) => (*k, *v),
                            _ => return self.bail(en.receiver.span(), "`entry` on a value that is not a map"),
                        };
                        let (k, _) = self.expr(&en.args[0], Some(&kt), stmts)?;
                        let cur = self.read(&base, stmts)?;
                        let mns = base.ty().map_ns();
                        // the default is only evaluated when the key is absent
                        let dflt_expr: &syn::Expr = if oname == "or_insert_with" {
                            match &oi.args[0] {
                                syn::Expr::Closure(c) if c.inputs.is_empty() => &c.body,
                                o => return self.bail(o.span(), "`or_insert_with` needs a closure `|| expr`"),
                            }
                        } else {
                            &oi.args[0]
                        };
                        let t = self.fresh();
                        if oname == "or_insert" {
                            // eager argument
                            let (d, _) = self.expr(dflt_expr, Some(&vt), stmts)?;
                            stmts.push(Stmt::Let(
                                t.clone(),
                                format!("(if {mns}.contains_key {} {} then {} else {mns}.insert {} {} {})", cur, k, cur, cur, k, d),
                            ));
                        } else {
                            let mut ds: Vec<Stmt> = Vec::new();
                            let (d, _) = self.expr(dflt_expr, Some(&vt), &mut ds)?;
                            let ins = Doc::seq(ds, Doc::atom(format!("pure ({mns}.insert {} {} {})", cur, k, d)));
                            stmts.push(Stmt::Bind(
                                t.clone(),
                                Doc::If(format!("{mns}.contains_key {} {}", cur, k), Box::new(Doc::atom(format!("pure {}", cur))), Box::new(ins)),
                            ));
                        }
                        self.write(&base, t, stmts)?;
                        let site = self.site(&**init);
                        self.declare(&name, vt.clone());
                        self.aliases.last_mut().unwrap().push((name, Place::MapEntry(Box::new(base), k, vt, site)));
                        return Ok(());
                    }
                }
            }
        }
        // `let x = &mut place;` : `x` is an alias of the place
        // `let x = map.get_mut(&k).unwrap();` : `x` is an alias of the entry; panics when the key is absent
        if let syn::Expr::MethodCall(uw) = &**init {
            if (uw.method == "unwrap" && uw.args.is_empty()) || (uw.method == "expect" && uw.args.len() == 1) {
                if let syn::Expr::MethodCall(gm) = &*uw.receiver {
                    if gm.method == "get_mut" && gm.args.len() == 1 {
                        let name = match pat {
                            syn::Pat::Ident(pi) if pi.subpat.is_none() && pi.by_ref.is_none() => pi.ident.to_string(),
                            other => return self.bail(other.span(), "`let <pattern> = map.get_mut(..).unwrap()` needs a plain variable"),
                        };
                        self.check_local_name(&name, pat.span())?;
                        let base = self.place(&gm.receiver, stmts)?;
                        let (kt, vt) = match base.ty() {
                            Ty::Map(k, v, _) => (*k, *v),
                            _ => return self.bail(gm.receiver.span(), "`get_mut` on a value that is not a map"),
                        };
                        let (k, _) = self.expr(&gm.args[0], Some(&kt), stmts)?;
                        let cur = self.read(&base, stmts)?;
                        let mns = base.ty().map_ns();
                        let site = self.site(&**init);
                        // the `unwrap()`
                        stmts.push(Stmt::Bind("_".into(), Doc::atom(format!("{mns}.index {} {} {}", cur, k, site))));
                        self.declare(&name, vt.clone());
                        self.aliases.last_mut().unwrap().push((name, Place::MapEntry(Box::new(base), k, vt, site)));
                        return Ok(());
                    }
                }
            }
        }
        // `let (a, b) = place.split_at_mut(mid);` : `a` / `b` are aliases of the sub-slices `place[..mid]` / `place[mid..]`
        // (every use re-reads / writes `place`; `split_at_mut` panics when `mid > len`)
        if let (syn::Pat::Tuple(tp), syn::Expr::MethodCall(sm)) = (pat, &**init) {
            if sm.method == "split_at_mut" && sm.args.len() == 1 && tp.elems.len() == 2 {
                let mut names: Vec<Option<String>> = Vec::new();
                for el in &tp.elems {
                    match el {
                        syn::Pat::Ident(pi) if pi.subpat.is_none() && pi.by_ref.is_none() => {
                            let n = pi.ident.to_string();
                            self.check_local_name(&n, pi.span())?;
                            names.push(Some(n));
                        }
                        syn::Pat::Wild(_) => names.push(None),
                        other => return self.bail(other.span(), "`let (a, b) = place.split_at_mut(mid)` needs plain variables"),
                    }
                }
                let mut recv: &syn::Expr = &sm.receiver;
                while let syn::Expr::Paren(p) = recv {
                    recv = &p.expr;
                }
                if !self.is_place(recv) {
                    return self.bail(recv.span(), "`split_at_mut` on a value that is not a place");
                }
                let base = self.place(recv, stmts)?;
                let elem = match base.ty() {
                    Ty::List(e, _) => e,
                    _ => return self.bail(recv.span(), "`split_at_mut` on a value that is not an array / Vec / slice"),
                };
                let (mid, mt) = self.expr(&sm.args[0], Some(&Ty::usize()), stmts)?;
                if !mt.is_int() {
                    return self.bail(sm.args[0].span(), "the argument of `split_at_mut` is not an integer");
                }
                let mv = self.fresh();
                stmts.push(Stmt::Let(mv.clone(), mid));
                let site = self.site(&**init);
                let sty = Ty::List(elem, ListKind::Slice);
                let left = Place::Range(Box::new(base.clone()), "0".to_string(), Some(mv.clone()), sty.clone(), site.clone());
                let right = Place::Range(Box::new(base), mv, None, sty.clone(), site);
                // the call itself checks `mid <= len` (once)
                let _ = self.read(&left, stmts)?;
                for (n, pl) in names.into_iter().zip([left, right]) {
                    if let Some(n) = n {
                        self.declare(&n, sty.clone());
                        self.aliases.last_mut().unwrap().push((n, pl));
                    }
                }
                return Ok(());
            }
        }
        // `let x = &mut <temporary>;` : the variable owns the temporary (`let x = &mut Cursor::new(src);`)
        let mut init: &syn::Expr = init;
        if let syn::Expr::Reference(r) = init {
            if r.mutability.is_some() && !self.is_place(&r.expr) && matches!(&*r.expr, syn::Expr::Call(_)) {
                init = &r.expr;
            }
        }
        if let syn::Expr::Reference(r) = init {
            if r.mutability.is_some() {
                let name = match pat {
                    syn::Pat::Ident(pi) if pi.subpat.is_none() && pi.by_ref.is_none() => pi.ident.to_string(),
                    other => return self.bail(other.span(), "`let <pattern> = &mut place` needs a plain variable"),
                };
                self.check_local_name(&name, pat.span())?;
                let place = self.place(&r.expr, stmts)?;
                // taking the reference evaluates (bounds-checks) the place once
                let _ = self.read(&place, stmts)?;
                self.declare(&name, place.ty());
                self.aliases.last_mut().unwrap().push((name, place));
                return Ok(());
            }
        }
        // initialiser that diverges in an arm (`match … { _ => return … }`) is handled by expr()
        self.array_len_hint = hint.or_else(|| self.array_len_lookahead.take());
        let r = self.expr(init, annot.as_ref(), stmts);
        self.array_len_hint = None;
        let (v, t) = r?;
        let ty = annot.unwrap_or(t);
        match pat {
            syn::Pat::Ident(pi) if pi.subpat.is_none() && pi.by_ref.is_none() => {
                let name = pi.ident.to_string();
                self.check_local_name(&name, pi.span())?;
                stmts.push(Stmt::Let(lean_ident(&name), v));
                self.declare(&name, ty);
                if let Some(b) = self.pending_backing.take() {
                    self.backings.push((name, b));
                }
                Ok(())
            }
            syn::Pat::Wild(_) => {
                stmts.push(Stmt::Let("_".into(), v));
                Ok(())
            }
            syn::Pat::Tuple(_) => {
                let (p, binds) = self.pat(pat, &ty)?;
                stmts.push(Stmt::Let(p, v));
                for (n, t) in binds {
                    self.check_local_name(&n, pat.span())?;
                    self.declare(&n, t);
                }
                Ok(())
            }
            other => self.bail(other.span(), "unsupported `let` pattern"),
        }
    }

    /// `f(x, y)` for a local closure `f = |a: A, b: B| body`: the block `{ let a: A = x; let b: B = y; body }`
    pub fn closure_call_block(&self, e: &syn::Expr) -> Option<syn::Expr> {
        let c = match e {
            syn::Expr::Call(c) => c,
            _ => return None,
        };
        let p = match &*c.func {
            syn::Expr::Path(p) if p.qself.is_none() && p.path.segments.len() == 1 => p,
            _ => return None,
        };
        let name = p.path.segments[0].ident.to_string();
        let (_, cl) = self.local_closures.iter().rev().find(|(n, _)| *n == name)?;
        if cl.inputs.len() != c.args.len() {
            return None;
        }
        let mut lets: Vec<syn::Stmt> = Vec::new();
        for (inp, a) in cl.inputs.iter().zip(c.args.iter()) {
            let st: syn::Stmt = syn::parse_quote! { let #inp = #a; };
            lets.push(st);
        }
        let body = &cl.body;
        // (a block body is spliced, so that its statements stay statements)
        let blk: syn::Expr = match &**body {
            syn::Expr::Block(b) if b.label.is_none() => {
                let inner = &b.block.stmts;
                syn::parse_quote! { { #(#lets)* #(#inner)* } }
            }
            other => syn::parse_quote! { { #(#lets)* #other } },
        };
        Some(blk)
    }

    /// A statement. Returns `Some(doc)` when it diverges (`return`).
    fn stmt(&mut self, e: &syn::Expr, stmts: &mut Vec<Stmt>) -> R<Option<Doc>> {
        if self.stmt_is_ignored(e) {
            // writes an ignored field / local only: dropped, its operands are evaluated for their effects
            self.drop_ignored_stmt(e, stmts)?;
            return Ok(None);
        }
        // a call of a local closure in statement position: its body as a block statement
        if let Some(blk) = self.closure_call_block(e) {
            return self.stmt(&blk, stmts);
        }
        match e {
            syn::Expr::Return(r) => Ok(Some(self.ret_doc(r.expr.as_deref(), true, r.span(), stmts)?)),
            syn::Expr::Macro(m) => self.stmt_macro(&m.mac, stmts),
            syn::Expr::Assign(a) => {
                let place = self.place(&a.left, stmts)?;
                let pt = place.ty();
                let (v, vt) = self.expr(&a.right, Some(&pt), stmts)?;
                if let Place::Var(n, _) = &place {
                    if (pt.has_unknown() || matches!(pt, Ty::IntAny)) && !vt.has_unknown() && !matches!(vt, Ty::IntAny) {
                        self.retype(n, vt);
                    }
                }
                self.write(&place, v, stmts)?;
                Ok(None)
            }
            syn::Expr::Binary(b) if Self::assign_op(&b.op).is_some() => {
                let op = Self::assign_op(&b.op).unwrap();
                let place = self.place(&b.left, stmts)?;
                let pt = place.ty();
                let cur = self.read(&place, stmts)?;
                let (rhs, rt) = self.expr(&b.right, if Self::is_shift(&op) { None } else { Some(&pt) }, stmts)?;
                let (v, _) = self.binop(&op, (cur, pt.clone()), (rhs, rt), Some(&pt), e, stmts)?;
                self.write(&place, v, stmts)?;
                Ok(None)
            }
            syn::Expr::If(i) => {
                let m = self.assigned_in_expr(e);
                let (d, _) = self.if_doc(i, &Tail::Unit(m.clone()), stmts)?;
                let d = self.typed_if_diverging(&m, d);
                self.note_dirty(&m);
                stmts.push(Stmt::Bind(Self::tuple_pat(&m), d));
                Ok(None)
            }
            syn::Expr::Match(mt) => {
                let m = self.assigned_in_expr(e);
                let (d, _) = self.match_doc(mt, &Tail::Unit(m.clone()), stmts)?;
                let d = self.typed_if_diverging(&m, d);
                self.note_dirty(&m);
                stmts.push(Stmt::Bind(Self::tuple_pat(&m), d));
                Ok(None)
            }
            syn::Expr::Block(b) if b.label.is_none() => {
                let m = self.assigned_in_expr(e);
                let (d, _, _) = self.block(&b.block, &Tail::Unit(m.clone()), &[])?;
                self.note_dirty(&m);
                stmts.push(Stmt::Bind(Self::tuple_pat(&m), d));
                Ok(None)
            }
            syn::Expr::ForLoop(f) => {
                self.for_loop(f, stmts)?;
                Ok(None)
            }
            syn::Expr::MethodCall(mc) if MUTATING_METHODS.contains(&mc.method.to_string().as_str()) => {
                self.mutating_call(mc, stmts)?;
                Ok(None)
            }
            syn::Expr::While(w) => {
                self.while_loop(w, stmts)?;
                Ok(None)
            }
            syn::Expr::Continue(c) => Ok(Some(self.loop_jump("cont", &c.label, e.span())?)),
            syn::Expr::Break(b) if b.expr.is_none() => Ok(Some(self.loop_jump("brk", &b.label, e.span())?)),
            syn::Expr::Loop(l) => {
                // `loop { body }` is `while true { body }` (fuel from the manifest, like every `while`)
                let body = &l.body;
                let w: syn::ExprWhile = match &l.label {
                    Some(lb) => syn::parse_quote! { #lb while true #body },
                    None => syn::parse_quote! { while true #body },
                };
                self.while_loop(&w, stmts)?;
                Ok(None)
            }
            syn::Expr::Break(_) => self.bail(e.span(), "valued `break` is not supported"),
            _ => {
                let (v, _) = self.expr(e, None, stmts)?;
                if v != "()" {
                    stmts.push(Stmt::Let("_".into(), v));
                }
                Ok(None)
            }
        }
    }

    // ------------------------------------------------------------------ ignored fields (manifest `StructIgnore`)

    /// static type of a variable / field path (no statements are emitted)
    fn static_ty(&self, e: &syn::Expr) -> Option<Ty> {
        match e {
            syn::Expr::Paren(p) => self.static_ty(&p.expr),
            syn::Expr::Reference(r) => self.static_ty(&r.expr),
            syn::Expr::Unary(u) if matches!(u.op, syn::UnOp::Deref(_)) => self.static_ty(&u.expr),
            syn::Expr::Path(p) if p.qself.is_none() && p.path.segments.len() == 1 => {
                let n = p.path.segments[0].ident.to_string();
                match self.alias_of(&n) {
                    Some(pl) => Some(pl.ty()),
                    None => self.lookup(&n),
                }
            }
            syn::Expr::Field(f) => match (self.static_ty(&f.base)?, &f.member) {
                (Ty::Named(n), syn::Member::Named(id)) => {
                    self.g.structs.get(&n)?.fields.iter().find(|(fname, _)| id == fname).map(|(_, t)| t.clone())
                }
                _ => None,
            },
            _ => None,
        }
    }

    /// `base.f` where `f` is an ignored field of the struct `base`
    fn is_ignored_field(&self, e: &syn::Expr) -> bool {
        if let syn::Expr::Field(f) = e {
            if let (Some(Ty::Named(n)), syn::Member::Named(id)) = (self.static_ty(&f.base), &f.member) {
                if let Some(s) = self.g.structs.get(&n) {
                    return s.ignored.iter().any(|x| id == x);
                }
            }
        }
        false
    }

    /// an expression whose value is computed from ignored fields / floating point (it has no translation)
    pub fn is_ignored_expr(&self, e: &syn::Expr) -> bool {
        match e {
            syn::Expr::Paren(p) => self.is_ignored_expr(&p.expr),
            syn::Expr::Group(p) => self.is_ignored_expr(&p.expr),
            syn::Expr::Reference(r) => self.is_ignored_expr(&r.expr),
            syn::Expr::Unary(u) => self.is_ignored_expr(&u.expr),
            syn::Expr::Lit(l) => matches!(l.lit, syn::Lit::Float(_)),
            syn::Expr::Path(p) if p.qself.is_none() => {
                let segs: Vec<String> = p.path.segments.iter().map(|s| s.ident.to_string()).collect();
                (segs.len() == 1 && self.ignored_locals.contains(&segs[0])) || (segs.len() == 2 && (segs[0] == "f64" || segs[0] == "f32"))
            }
            syn::Expr::Field(_) => self.is_ignored_field(e) || matches!(e, syn::Expr::Field(f) if self.is_ignored_expr(&f.base)),
            syn::Expr::MethodCall(m) => {
                self.is_ignored_expr(&m.receiver) || m.method == "as_secs_f64" || m.method == "as_secs_f32"
            }
            syn::Expr::Binary(b) => self.is_ignored_expr(&b.left) || self.is_ignored_expr(&b.right),
            syn::Expr::Cast(c) => {
                matches!(&*c.ty, syn::Type::Path(tp) if tp.path.is_ident("f64") || tp.path.is_ident("f32")) || self.is_ignored_expr(&c.expr)
            }
            _ => false,
        }
    }

    /// evaluate the translatable parts of an ignored expression for their effects (panics), discard the value
    pub fn effects_only(&mut self, e: &syn::Expr, stmts: &mut Vec<Stmt>) -> R<()> {
        match e {
            syn::Expr::Paren(p) => self.effects_only(&p.expr, stmts),
            syn::Expr::Group(p) => self.effects_only(&p.expr, stmts),
            syn::Expr::Reference(r) => self.effects_only(&r.expr, stmts),
            syn::Expr::Unary(u) if self.is_ignored_expr(e) => self.effects_only(&u.expr, stmts),
            syn::Expr::Lit(l) if matches!(l.lit, syn::Lit::Float(_)) => Ok(()),
            syn::Expr::Path(_) | syn::Expr::Field(_) if self.is_ignored_expr(e) => Ok(()),
            syn::Expr::MethodCall(m) if self.is_ignored_expr(e) => {
                self.effects_only(&m.receiver, stmts)?;
                for a in &m.args {
                    self.effects_only(a, stmts)?;
                }
                Ok(())
            }
            syn::Expr::Binary(b) if self.is_ignored_expr(e) => {
                self.effects_only(&b.left, stmts)?;
                self.effects_only(&b.right, stmts)
            }
            syn::Expr::Cast(c) if self.is_ignored_expr(e) => self.effects_only(&c.expr, stmts),
            // the constructor of the value of an ignored field: only its arguments are evaluated
            syn::Expr::Call(c) if self.call_is_untranslated(c) => {
                for a in &c.args {
                    self.effects_only(a, stmts)?;
                }
                Ok(())
            }
            other => {
                let _ = self.expr(other, None, stmts)?;
                Ok(())
            }
        }
    }

    /// `Type::new(..)` of a type that is not translated (only allowed as the initialiser of an ignored field)
    fn call_is_untranslated(&self, c: &syn::ExprCall) -> bool {
        if let syn::Expr::Path(p) = &*c.func {
            let segs: Vec<String> = p.path.segments.iter().map(|s| s.ident.to_string()).collect();
            if segs.len() >= 2 {
                let t = self.g.tkey(&self.file, &segs[segs.len() - 2]);
                return !self.g.structs.contains_key(&t) && !self.g.enums.contains_key(&t) && self.g.fns.get(&(None, segs[segs.len() - 1].clone())).is_none();
            }
        }
        false
    }

    fn local_is_ignored(&self, l: &syn::Local) -> bool {
        match &l.init {
            Some(i) if i.diverge.is_none() => self.is_ignored_expr(&i.expr),
            _ => false,
        }
    }

    /// a statement that only writes ignored fields / locals
    fn stmt_is_ignored(&self, e: &syn::Expr) -> bool {
        match e {
            syn::Expr::Assign(a) => self.is_ignored_expr(&a.left),
            syn::Expr::Binary(b) if Self::assign_op(&b.op).is_some() => self.is_ignored_expr(&b.left),
            syn::Expr::MethodCall(m) => self.is_ignored_expr(&m.receiver),
            syn::Expr::If(i) => self.is_ignored_expr(&i.cond),
            _ => false,
        }
    }

    fn drop_ignored_stmt(&mut self, e: &syn::Expr, stmts: &mut Vec<Stmt>) -> R<()> {
        match e {
            syn::Expr::Assign(a) => self.effects_only(&a.right, stmts),
            syn::Expr::Binary(b) => self.effects_only(&b.right, stmts),
            syn::Expr::MethodCall(_) => self.effects_only(e, stmts),
            syn::Expr::If(i) => {
                // the condition reads ignored values: both branches may only write ignored values, without any effect
                self.effects_only(&i.cond, stmts)?;
                let mut probe: Vec<Stmt> = Vec::new();
                let mut blocks: Vec<&syn::Block> = vec![&i.then_branch];
                let mut els = i.else_branch.as_ref().map(|(_, e)| &**e);
                while let Some(x) = els {
                    match x {
                        syn::Expr::Block(b) => {
                            blocks.push(&b.block);
                            els = None;
                        }
                        syn::Expr::If(n) if self.is_ignored_expr(&n.cond) => {
                            self.effects_only(&n.cond, &mut probe)?;
                            blocks.push(&n.then_branch);
                            els = n.else_branch.as_ref().map(|(_, e)| &**e);
                        }
                        o => return self.bail(o.span(), "a condition that reads an ignored field decides about translated state"),
                    }
                }
                for b in blocks {
                    for st in &b.stmts {
                        match st {
                            syn::Stmt::Expr(x, _) if self.stmt_is_ignored(x) => self.drop_ignored_stmt(x, &mut probe)?,
                            o => return self.bail(o.span(), "a condition that reads an ignored field decides about translated state"),
                        }
                    }
                }
                if !probe.is_empty() {
                    return self.bail(i.span(), "statements under a condition that reads an ignored field must be free of effects");
                }
                Ok(())
            }
            _ => Ok(()),
        }
    }

    /// `continue` / `break`, possibly labelled: leaves through the early-exit channel of the enclosing loop bodies
    fn loop_jump(&mut self, kind: &str, label: &Option<syn::Lifetime>, span: proc_macro2::Span) -> R<Doc> {
        let depth = match label {
            None => {
                if self.loop_stack.is_empty() {
                    return self.bail(span, "`break` / `continue` outside a loop");
                }
                0
            }
            Some(l) => {
                let name = l.ident.to_string();
                match self.loop_stack.iter().rev().position(|(lb, _)| lb.as_deref() == Some(name.as_str())) {
                    Some(d) => d,
                    None => return self.bail(span, format!("unknown loop label `'{}`", name)),
                }
            }
        };
        let m = self.loop_stack[self.loop_stack.len() - 1 - depth].1.clone();
        let mut p = format!("(RustSem.LoopExit.{} {})", kind, Self::tuple_val(&m));
        for _ in 0..depth {
            p = format!("(RustSem.LoopExit.ret {})", p);
        }
        Ok(Doc::atom(format!("Exec.ret {}", p)))
    }

    fn note_dirty(&mut self, m: &[String]) {
        if m.iter().any(|x| x == "self") {
            self.self_dirty = true;
        }
    }

    pub fn assign_op(op: &syn::BinOp) -> Option<syn::BinOp> {
        use syn::BinOp::*;
        Some(match op {
            AddAssign(_) => Add(Default::default()),
            SubAssign(_) => Sub(Default::default()),
            MulAssign(_) => Mul(Default::default()),
            DivAssign(_) => Div(Default::default()),
            RemAssign(_) => Rem(Default::default()),
            BitXorAssign(_) => BitXor(Default::default()),
            BitAndAssign(_) => BitAnd(Default::default()),
            BitOrAssign(_) => BitOr(Default::default()),
            ShlAssign(_) => Shl(Default::default()),
            ShrAssign(_) => Shr(Default::default()),
            _ => return None,
        })
    }
    pub fn is_shift(op: &syn::BinOp) -> bool {
        matches!(op, syn::BinOp::Shl(_) | syn::BinOp::Shr(_))
    }

    // ------------------------------------------------------------------ if / match / for

    /// condition of an `if`: Bool term, or `let` pattern
    pub fn if_doc(&mut self, i: &syn::ExprIf, tail: &Tail, stmts: &mut Vec<Stmt>) -> R<(Doc, Ty)> {
        let else_doc = |cx: &mut Cx, ty_hint: Option<Ty>| -> R<(Doc, Ty, bool)> {
            match &i.else_branch {
                Some((_, eb)) => match &**eb {
                    syn::Expr::If(nested) => {
                        let mut inner: Vec<Stmt> = Vec::new();
                        let (d, t) = cx.if_doc(nested, tail, &mut inner)?;
                        Ok((Doc::seq(inner, d), t, false))
                    }
                    other => {
                        let tail2 = match (tail, ty_hint) {
                            (Tail::Value(None), Some(t)) => Tail::Value(Some(t)),
                            _ => tail.clone(),
                        };
                        cx.arm_doc(other, &tail2, &[])
                    }
                },
                None => match tail {
                    Tail::Unit(m) => Ok((Doc::atom(format!("pure {}", Self::tuple_val(m))), Ty::Unit, false)),
                    Tail::FnBody if cx.err.is_none() && matches!(cx.ret, Ty::Unit) => {
                        let p = cx.payload("()");
                        Ok((Doc::atom(format!("pure {}", p)), Ty::Unit, false))
                    }
                    _ => cx.bail(i.span(), "`if` without `else` used as a value"),
                },
            }
        };
        if let syn::Expr::Let(l) = &*i.cond {
            // `if let Entry::Vacant(entry) = map.entry(k) { … entry.insert(v) … }`: the key is absent; `entry` stands
            // for the (vacant) map entry
            if let (syn::Pat::TupleStruct(ts), syn::Expr::MethodCall(mc)) = (&*l.pat, &*l.expr) {
                let segs: Vec<String> = ts.path.segments.iter().map(|x| x.ident.to_string()).collect();
                let n = segs.len();
                if n >= 2 && segs[n - 2] == "Entry" && segs[n - 1] == "Vacant" && ts.elems.len() == 1 && mc.method == "entry" && mc.args.len() == 1 {
                    if let syn::Pat::Ident(pi) = &ts.elems[0] {
                        let name = pi.ident.to_string();
                        self.check_local_name(&name, l.pat.span())?;
                        let base = self.place(&mc.receiver, stmts)?;
                        let (kt, vt) = match base.ty() {
                            Ty::Map(k, v, _) => (*k, *v),
                            _ => return self.bail(mc.receiver.span(), "`entry` on a value that is not a map"),
                        };
                        let (k, _) = self.expr(&mc.args[0], Some(&kt), stmts)?;
                        let cur = self.read(&base, stmts)?;
                        let mns = base.ty().map_ns();
                        let site = self.site(&*l.expr);
                        self.pending_aliases.push((name.clone(), Place::MapEntry(Box::new(base), k.clone(), vt.clone(), site)));
                        let (dt, tt, div_t) = self.block(&i.then_branch, tail, &[(name, vt)])?;
                        let (de, te, _) = else_doc(self, if div_t { None } else { Some(tt.clone()) })?;
                        let ty = if div_t { te } else { tt };
                        return Ok((Doc::If(format!("(!{mns}.contains_key {} {})", cur, k), Box::new(dt), Box::new(de)), ty));
                    }
                }
            }
            // `if let Some(x) = finder(&mut place, ..)` / `if let Some((slot, x)) = finder(&mut place, ..)`: the finder returns
            // the position `i`; `x` is an alias of the payload of `place[i]`, `slot` is `i`
            if let (syn::Pat::TupleStruct(ts), syn::Expr::Call(fc)) = (&*l.pat, &*l.expr) {
                if let syn::Expr::Path(fp) = &*fc.func {
                    if fp.path.segments.len() == 1 && ts.path.is_ident("Some") && ts.elems.len() == 1 {
                        let fname = fp.path.segments[0].ident.to_string();
                        let finfo = self.g.fns.get(&(None, fname.clone())).and_then(|v| v.iter().find(|f| f.ref_ret.is_some())).cloned();
                        if let Some(finfo) = finfo {
                            let (with_index, pname) = finfo.ref_ret.clone().unwrap();
                            if fc.args.len() != finfo.params.len() {
                                return self.bail(fc.span(), "wrong number of arguments");
                            }
                            // pattern
                            let (slot_name, x_name): (Option<String>, String) = match (&ts.elems[0], with_index) {
                                (syn::Pat::Ident(pi), false) if pi.subpat.is_none() && pi.by_ref.is_none() => (None, pi.ident.to_string()),
                                (syn::Pat::Tuple(t), true) if t.elems.len() == 2 => match (&t.elems[0], &t.elems[1]) {
                                    (syn::Pat::Ident(a), syn::Pat::Ident(b)) => (Some(a.ident.to_string()), b.ident.to_string()),
                                    (syn::Pat::Wild(_), syn::Pat::Ident(b)) => (None, b.ident.to_string()),
                                    _ => return self.bail(l.pat.span(), "unsupported pattern for the result of a finder"),
                                },
                                _ => return self.bail(l.pat.span(), "unsupported pattern for the result of a finder"),
                            };
                            self.check_local_name(&x_name, l.pat.span())?;
                            if let Some(sn) = &slot_name {
                                self.check_local_name(sn, l.pat.span())?;
                            }
                            let mut args = String::new();
                            let mut base: Option<Place> = None;
                            for (a, (pn, pt)) in fc.args.iter().zip(finfo.params.iter()) {
                                if *pn == pname {
                                    let mut inner: &syn::Expr = a;
                                    loop {
                                        match inner {
                                            syn::Expr::Reference(r) => inner = &r.expr,
                                            syn::Expr::Paren(p) => inner = &p.expr,
                                            _ => break,
                                        }
                                    }
                                    let pl = self.place(inner, stmts)?;
                                    let t = self.read(&pl, stmts)?;
                                    args.push_str(&format!(" {}", t));
                                    base = Some(pl);
                                } else {
                                    let (t, _) = self.expr(a, Some(pt), stmts)?;
                                    args.push_str(&format!(" {}", t));
                                }
                            }
                            let base = base.unwrap();
                            let (ot, vt) = match base.ty() {
                                Ty::List(t, _) => match *t {
                                    Ty::Opt(inner) => (Ty::Opt(inner.clone()), *inner),
                                    _ => return self.bail(fc.span(), "a finder needs a slice of `Option`s"),
                                },
                                _ => return self.bail(fc.span(), "a finder needs a slice of `Option`s"),
                            };
                            self.g.note(&finfo.group);
                            let r = self.fresh();
                            stmts.push(Stmt::Bind(r.clone(), Doc::atom(format!("Exec.call ({}{})", self.fn_lean_name(&finfo), args))));
                            let k = self.fresh();
                            let ivar = match &slot_name {
                                Some(sn) => lean_ident(sn),
                                None => format!("i_{}", k),
                            };
                            let site = self.site(&*l.expr);
                            let elem = Place::Index(Box::new(base), ivar.clone(), ot, site.clone());
                            self.pending_aliases.push((x_name.clone(), Place::OptSome(Box::new(elem), vt.clone(), site)));
                            let mut binds = vec![(x_name, vt)];
                            if let Some(sn) = &slot_name {
                                binds.push((sn.clone(), Ty::usize()));
                            }
                            let (dt, tt, div_t) = self.block(&i.then_branch, tail, &binds)?;
                            let (de, te, _) = else_doc(self, if div_t { None } else { Some(tt.clone()) })?;
                            let ty = if div_t { te } else { tt };
                            return Ok((Doc::Match(r, vec![(format!("some {}", ivar), dt), ("_".into(), de)]), ty));
                        }
                    }
                }
            }
            // `if let Some(x) = &mut place { … }` (`place: Option<T>`): `x` is an alias of the `T` behind `Some`
            if let (syn::Pat::TupleStruct(ts), syn::Expr::Reference(rf)) = (&*l.pat, &*l.expr) {
                if rf.mutability.is_some() && ts.path.is_ident("Some") && ts.elems.len() == 1 && self.is_place(&rf.expr) {
                    if let syn::Pat::Ident(pi) = &ts.elems[0] {
                        if pi.by_ref.is_none() && pi.subpat.is_none() {
                            let name = pi.ident.to_string();
                            self.check_local_name(&name, l.pat.span())?;
                            let base = self.place(&rf.expr, stmts)?;
                            if let Ty::Opt(vt) = base.ty() {
                                let vt = *vt;
                                let cur = self.read(&base, stmts)?;
                                let site = self.site(&*l.expr);
                                self.pending_aliases.push((name.clone(), Place::OptSome(Box::new(base), vt.clone(), site)));
                                let (dt, tt, div_t) = self.block(&i.then_branch, tail, &[(name, vt)])?;
                                let (de, te, _) = else_doc(self, if div_t { None } else { Some(tt.clone()) })?;
                                let ty = if div_t { te } else { tt };
                                return Ok((Doc::If(format!("(Option.isSome {})", cur), Box::new(dt), Box::new(de)), ty));
                            }
                        }
                    }
                }
            }
            // `if let Some(x) = p { … }` for an `Option<&mut T>` parameter `p`: `x` is an alias of the `T` behind it
            if let (syn::Pat::TupleStruct(ts), syn::Expr::Path(pp)) = (&*l.pat, &*l.expr) {
                if pp.path.segments.len() == 1 && ts.path.is_ident("Some") && ts.elems.len() == 1 {
                    let pname = pp.path.segments[0].ident.to_string();
                    if self.opt_mut_params.contains(&pname) && self.alias_of(&pname).is_none() {
                        if let syn::Pat::Ident(pi) = &ts.elems[0] {
                            if pi.by_ref.is_none() && pi.subpat.is_none() {
                                let name = pi.ident.to_string();
                                self.check_local_name(&name, l.pat.span())?;
                                let vt = match self.lookup(&pname) {
                                    Some(Ty::Opt(t)) => *t,
                                    _ => return self.bail(l.expr.span(), "an `Option<&mut T>` parameter is expected here"),
                                };
                                let site = self.site(&*l.expr);
                                let cur = lean_ident(&pname);
                                self.pending_aliases.push((name.clone(), Place::OptSome(Box::new(Place::Var(pname.clone(), Ty::Opt(Box::new(vt.clone())))), vt.clone(), site)));
                                let (dt, tt, div_t) = self.block(&i.then_branch, tail, &[(name, vt)])?;
                                let (de, te, _) = else_doc(self, if div_t { None } else { Some(tt.clone()) })?;
                                let ty = if div_t { te } else { tt };
                                return Ok((Doc::If(format!("(Option.isSome {})", cur), Box::new(dt), Box::new(de)), ty));
                            }
                        }
                    }
                }
            }
            // `if let Some(x) = map.get_mut(&k) { … }`: `x` is an alias of the entry
            if let (syn::Pat::TupleStruct(ts), syn::Expr::MethodCall(gm)) = (&*l.pat, &*l.expr) {
                if gm.method == "get_mut" && gm.args.len() == 1 && ts.path.is_ident("Some") && ts.elems.len() == 1 {
                    if let syn::Pat::Ident(pi) = &ts.elems[0] {
                        let name = pi.ident.to_string();
                        self.check_local_name(&name, l.pat.span())?;
                        let base = self.place(&gm.receiver, stmts)?;
                        let (kt, vt) = match base.ty() {
                            Ty::Map(k, v, _) => (*k, *v),
                            _ => return self.bail(gm.receiver.span(), "`get_mut` on a value that is not a map"),
                        };
                        let (k, _) = self.expr(&gm.args[0], Some(&kt), stmts)?;
                        let cur = self.read(&base, stmts)?;
                        let mns = base.ty().map_ns();
                        let site = self.site(&*l.expr);
                        self.pending_aliases.push((name.clone(), Place::MapEntry(Box::new(base), k.clone(), vt.clone(), site)));
                        let (dt, tt, div_t) = self.block(&i.then_branch, tail, &[(name, vt)])?;
                        let (de, te, _) = else_doc(self, if div_t { None } else { Some(tt.clone()) })?;
                        let ty = if div_t { te } else { tt };
                        return Ok((Doc::If(format!("{mns}.contains_key {} {}", cur, k), Box::new(dt), Box::new(de)), ty));
                    }
                }
            }
            let (scrut, st, base) = self.scrutinee(&l.expr, stmts)?;
            let (p, binds) = self.pat(&l.pat, &st)?;
            if base.is_some() {
                self.pending_ro.extend(binds.iter().map(|(n, _)| n.clone()));
            }
            let (dt, tt, div_t) = self.block(&i.then_branch, tail, &binds)?;
            let (de, te, _) = else_doc(self, if div_t { None } else { Some(tt.clone()) })?;
            let ty = if div_t { te } else { tt };
            return Ok((Doc::Match(scrut, vec![(p, dt), ("_".into(), de)]), ty));
        }
        let (c, ct) = self.expr(&i.cond, Some(&Ty::Bool), stmts)?;
        if !matches!(ct, Ty::Bool) {
            return self.bail(i.cond.span(), "`if` condition is not a bool");
        }
        let (dt, tt, div_t) = self.block(&i.then_branch, tail, &[])?;
        let (de, te, _) = else_doc(self, if div_t { None } else { Some(tt.clone()) })?;
        let ty = if div_t { te } else { tt };
        Ok((Doc::If(c, Box::new(dt), Box::new(de)), ty))
    }

    /// `match x { P if g => a, rest.. }` ≡ `match x { P => if g { a } else { match x { rest.. } }, rest.. }` for a scrutinee
    /// that is a plain variable / field path (evaluating it again has no effect).  Consecutive arms with the same
    /// pattern (up to `ref`) form one arm: `P if g1 => a1, P if g2 => a2, P => a3` ≡ `P => if g1 { a1 } else if g2 { a2 }
    /// else { a3 }` (no redundant alternatives, which Lean rejects).
    fn desugar_guards(m: &syn::ExprMatch) -> syn::ExprMatch {
        fn norm(p: &syn::Pat) -> String {
            quote::quote!(#p).to_string().replace("ref mut ", "").replace("ref ", "")
        }
        fn block_of(e: &syn::Expr) -> syn::Block {
            syn::Block { brace_token: Default::default(), stmts: vec![syn::Stmt::Expr(e.clone(), None)] }
        }
        let mut out = m.clone();
        out.arms = Vec::new();
        let arms = &m.arms;
        let mut i = 0;
        while i < arms.len() {
            if arms[i].guard.is_none() {
                out.arms.push(arms[i].clone());
                i += 1;
                continue;
            }
            let key = norm(&arms[i].pat);
            let mut j = i;
            let mut chain: Vec<(syn::Expr, syn::Expr)> = Vec::new();
            while j < arms.len() && arms[j].guard.is_some() && norm(&arms[j].pat) == key {
                chain.push(((*arms[j].guard.as_ref().unwrap().1).clone(), (*arms[j].body).clone()));
                j += 1;
            }
            // what happens when every guard of the run fails
            let mut else_expr: syn::Expr = if j < arms.len() && arms[j].guard.is_none() && norm(&arms[j].pat) == key {
                let e = (*arms[j].body).clone();
                j += 1;
                syn::Expr::Block(syn::ExprBlock { attrs: vec![], label: None, block: block_of(&e) })
            } else {
                let mut rest = m.clone();
                rest.arms = arms[j..].to_vec();
                let rest = Self::desugar_guards(&rest);
                syn::Expr::Block(syn::ExprBlock { attrs: vec![], label: None, block: block_of(&syn::Expr::Match(rest)) })
            };
            for (g, body) in chain.into_iter().rev() {
                else_expr = syn::Expr::If(syn::ExprIf {
                    attrs: vec![],
                    if_token: Default::default(),
                    cond: Box::new(g),
                    then_branch: block_of(&body),
                    else_branch: Some((Default::default(), Box::new(else_expr))),
                });
            }
            let mut arm = arms[i].clone();
            arm.guard = None;
            arm.body = Box::new(else_expr);
            out.arms.push(arm);
            i = j;
        }
        out
    }

    pub fn match_doc(&mut self, m: &syn::ExprMatch, tail: &Tail, stmts: &mut Vec<Stmt>) -> R<(Doc, Ty)> {
        if m.arms.iter().any(|a| a.guard.is_some()) {
            let mut sc: &syn::Expr = &m.expr;
            loop {
                match sc {
                    syn::Expr::Paren(p) => sc = &p.expr,
                    syn::Expr::Reference(r) if r.mutability.is_none() => sc = &r.expr,
                    syn::Expr::Unary(u) if matches!(u.op, syn::UnOp::Deref(_)) => sc = &u.expr,
                    syn::Expr::Field(f) => sc = &f.base,
                    _ => break,
                }
            }
            if !matches!(sc, syn::Expr::Path(p) if p.path.segments.len() == 1) {
                // guards on a computed scrutinee (`match f(..) { P if g => .. }`): the value is bound to a fresh
                // variable first (evaluated once, as in Rust), then matched
                if matches!(sc, syn::Expr::Call(_) | syn::Expr::MethodCall(_)) {
                    let k = self.fresh();
                    let tmp = syn::Ident::new(&format!("scrut_{}", k), proc_macro2::Span::call_site());
                    let scrut = &m.expr;
                    let l: syn::Stmt = syn::parse_quote! { let #tmp = #scrut; };
                    if let syn::Stmt::Local(loc) = &l {
                        self.local(loc, stmts)?;
                    }
                    let mut m2 = m.clone();
                    m2.expr = Box::new(syn::parse_quote! { #tmp });
                    return self.match_doc(&m2, tail, stmts);
                }
                return self.bail(m.expr.span(), "match guards are only supported on a variable / field scrutinee");
            }
            if m.arms.last().map(|a| a.guard.is_some()).unwrap_or(true) {
                return self.bail(m.span(), "the last arm of a `match` must not have a guard");
            }
            let m2 = Self::desugar_guards(m);
            return self.match_doc(&m2, tail, stmts);
        }
        // `match map.get_mut(&k) { Some(x) => A, None => B }`: as `if let Some(x) = map.get_mut(&k) { A } else { B }`
        // (`x` is an alias of the entry)
        if let syn::Expr::MethodCall(gm) = &*m.expr {
            if gm.method == "get_mut" && gm.args.len() == 1 && m.arms.len() == 2 && m.arms.iter().all(|a| a.guard.is_none()) {
                let some_arm = m.arms.iter().find(|a| match &a.pat {
                    syn::Pat::TupleStruct(ts) => ts.path.is_ident("Some") && ts.elems.len() == 1 && matches!(&ts.elems[0], syn::Pat::Ident(pi) if pi.subpat.is_none()),
                    _ => false,
                });
                let none_arm = m.arms.iter().find(|a| match &a.pat {
                    syn::Pat::Ident(pi) => pi.ident == "None" && pi.subpat.is_none(),
                    syn::Pat::Path(pp) => pp.path.is_ident("None"),
                    syn::Pat::Wild(_) => true,
                    _ => false,
                });
                if let (Some(sa), Some(na)) = (some_arm, none_arm) {
                    let name = match &sa.pat {
                        syn::Pat::TupleStruct(ts) => match &ts.elems[0] {
                            syn::Pat::Ident(pi) => pi.ident.to_string(),
                            _ => unreachable!(),
                        },
                        _ => unreachable!(),
                    };
                    self.check_local_name(&name, sa.pat.span())?;
                    let base = self.place(&gm.receiver, stmts)?;
                    let (kt, vt) = match base.ty() {
                        Ty::Map(k, v, _) => (*k, *v),
                        _ => return self.bail(gm.receiver.span(), "`get_mut` on a value that is not a map"),
                    };
                    let (k, _) = self.expr(&gm.args[0], Some(&kt), stmts)?;
                    let cur = self.read(&base, stmts)?;
                    let mns = base.ty().map_ns();
                    let site = self.site(&*m.expr);
                    self.pending_aliases.push((name.clone(), Place::MapEntry(Box::new(base), k.clone(), vt.clone(), site)));
                    let (dt, tt, div_t) = self.arm_doc(&sa.body, tail, &[(name, vt)])?;
                    let tail_e = match (tail, div_t) {
                        (Tail::Value(None), false) => Tail::Value(Some(tt.clone())),
                        _ => tail.clone(),
                    };
                    let (de, te, _) = self.arm_doc(&na.body, &tail_e, &[])?;
                    let ty = if div_t { te } else { tt };
                    return Ok((Doc::If(format!("{mns}.contains_key {} {}", cur, k), Box::new(dt), Box::new(de)), ty));
                }
            }
        }
        let (scrut, st, base) = self.scrutinee(&m.expr, stmts)?;
        // an integer `match` with constants as patterns: an `if` chain (Lean cannot match on a `def`)
        if st.is_int() && m.arms.iter().any(|a| self.is_const_pat(&a.pat)) {
            return self.const_match(m, &scrut, &st, tail);
        }
        let mut arms = Vec::new();
        let mut ty = Ty::Unknown;
        let mut tail = tail.clone();
        for arm in &m.arms {
            if arm.guard.is_some() {
                return self.bail(arm.span(), "match guards are not supported");
            }
            let (p, binds) = match (&base, &arm.pat) {
                // the scrutinee is a `&mut` place: a struct-variant pattern binds references to its fields
                (Some(b), syn::Pat::Struct(_)) => {
                    let site = self.site(&*m.expr);
                    let (lp, aliases) = self.variant_aliases(b, &arm.pat, site)?;
                    let binds: Vec<(String, Ty)> = aliases.iter().map(|(n, p)| (n.clone(), p.ty())).collect();
                    self.pending_aliases.extend(aliases);
                    (lp, binds)
                }
                (Some(_), _) => {
                    let (p, binds) = self.pat(&arm.pat, &st)?;
                    self.pending_ro.extend(binds.iter().map(|(n, _)| n.clone()));
                    (p, binds)
                }
                (None, _) => self.pat(&arm.pat, &st)?,
            };
            let (d, t, div) = self.arm_doc(&arm.body, &tail, &binds)?;
            if !div && matches!(ty, Ty::Unknown) {
                ty = t.clone();
                if let Tail::Value(None) = tail {
                    tail = Tail::Value(Some(t));
                }
            }
            arms.push((p, d));
        }
        Ok((Doc::Match(scrut, arms), ty))
    }

    fn is_const_pat(&self, p: &syn::Pat) -> bool {
        match p {
            syn::Pat::Ident(pi) => pi.subpat.is_none() && self.g.consts.contains_key(&pi.ident.to_string()),
            syn::Pat::Path(pp) => pp.path.segments.last().map(|s| self.g.consts.contains_key(&s.ident.to_string())).unwrap_or(false),
            syn::Pat::Or(o) => o.cases.iter().any(|c| self.is_const_pat(c)),
            syn::Pat::Paren(pp) => self.is_const_pat(&pp.pat),
            _ => false,
        }
    }

    /// condition "`scrut` matches `p`" for a constant / literal / or-pattern of these
    fn const_pat_cond(&mut self, p: &syn::Pat, scrut: &str, st: &Ty) -> R<String> {
        match p {
            syn::Pat::Paren(pp) => self.const_pat_cond(&pp.pat, scrut, st),
            syn::Pat::Or(o) => {
                let mut parts = Vec::new();
                for c in &o.cases {
                    parts.push(self.const_pat_cond(c, scrut, st)?);
                }
                Ok(format!("({})", parts.join(" || ")))
            }
            syn::Pat::Lit(l) => {
                let mut tmp: Vec<Stmt> = Vec::new();
                let (v, _) = self.expr(&syn::Expr::Lit(syn::ExprLit { attrs: vec![], lit: l.lit.clone() }), Some(st), &mut tmp)?;
                Ok(format!("(decide ({} = {}))", scrut, v))
            }
            syn::Pat::Ident(_) | syn::Pat::Path(_) if self.is_const_pat(p) => {
                let path: syn::Path = match p {
                    syn::Pat::Ident(pi) => pi.ident.clone().into(),
                    syn::Pat::Path(pp) => pp.path.clone(),
                    _ => unreachable!(),
                };
                let mut tmp: Vec<Stmt> = Vec::new();
                let e = syn::Expr::Path(syn::ExprPath { attrs: vec![], qself: None, path });
                let (v, _) = self.expr(&e, Some(st), &mut tmp)?;
                if !tmp.is_empty() {
                    return self.bail(p.span(), "unsupported constant pattern");
                }
                Ok(format!("(decide ({} = {}))", scrut, v))
            }
            o => self.bail(o.span(), "in a `match` with constant patterns only constants, integer literals and a final `_` / variable arm are supported"),
        }
    }

    fn const_match(&mut self, m: &syn::ExprMatch, scrut: &str, st: &Ty, tail: &Tail) -> R<(Doc, Ty)> {
        let n = m.arms.len();
        let last = &m.arms[n - 1];
        if last.guard.is_some() || m.arms.iter().any(|a| a.guard.is_some()) {
            return self.bail(m.span(), "match guards are not supported");
        }
        // the final arm catches everything
        let binds: Vec<(String, Ty)> = match &last.pat {
            syn::Pat::Wild(_) => vec![],
            syn::Pat::Ident(pi) if pi.subpat.is_none() && !self.is_const_pat(&last.pat) => vec![(pi.ident.to_string(), st.clone())],
            o => return self.bail(o.span(), "a `match` with constant patterns needs a final `_` / variable arm"),
        };
        let mut tail = tail.clone();
        let mut ty = Ty::Unknown;
        let mut conds: Vec<String> = Vec::new();
        let mut docs: Vec<Doc> = Vec::new();
        for arm in &m.arms[..n - 1] {
            conds.push(self.const_pat_cond(&arm.pat, scrut, st)?);
            let (d, t, div) = self.arm_doc(&arm.body, &tail, &[])?;
            if !div && matches!(ty, Ty::Unknown) {
                ty = t.clone();
                if let Tail::Value(None) = tail {
                    tail = Tail::Value(Some(t));
                }
            }
            docs.push(d);
        }
        let (mut acc, t, div) = self.arm_doc(&last.body, &tail, &binds)?;
        if let Some((b, _)) = binds.first() {
            acc = Doc::seq(vec![Stmt::Let(lean_ident(b), scrut.to_string())], acc);
        }
        if !div && matches!(ty, Ty::Unknown) {
            ty = t;
        }
        for (c, d) in conds.into_iter().zip(docs.into_iter()).rev() {
            acc = Doc::If(c, Box::new(d), Box::new(acc));
        }
        Ok((acc, ty))
    }

    /// `while cond { body }` with manifest fuel
    fn while_loop(&mut self, w: &syn::ExprWhile, stmts: &mut Vec<Stmt>) -> R<()> {
        let label = w.label.as_ref().map(|l| l.name.ident.to_string());
        let fuel_src = match self.fuels.get(self.fuel_next) {
            Some(f) => f.clone(),
            None => {
                return self.bail(
                    w.span(),
                    "`while` loop without a fuel expression in the manifest (WHILE_FUEL lists one Rust expression per loop)",
                )
            }
        };
        self.fuel_next += 1;
        let fuel_expr: syn::Expr = match syn::parse_str(&fuel_src) {
            Ok(e) => e,
            Err(_) => return self.bail(w.span(), format!("cannot parse the manifest fuel expression `{}`", fuel_src)),
        };
        let whole = syn::Expr::While(w.clone());
        let m = self.assigned_in_expr(&whole);
        // fuel is evaluated once, at loop entry
        let (fuel, ft) = self.expr(&fuel_expr, Some(&Ty::usize()), stmts)?;
        if !ft.is_int() {
            return self.bail(w.span(), "fuel expression is not an integer");
        }
        let site = format!("\"{}:{}: fuel exhausted\"", self.file, self.fn_disp);
        self.loop_stack.push((label, m.clone()));
        let r = (|| -> R<Doc> {
            let mut cs: Vec<Stmt> = Vec::new();
            let brk = Doc::atom(format!("Exec.ret (RustSem.LoopExit.brk {})", Self::tuple_val(&m)));
            if let syn::Expr::Let(l) = &*w.cond {
                // `while let PAT = scrutinee { body }`: the scrutinee is evaluated at the start of every round
                let (scrut, st, base) = self.scrutinee(&l.expr, &mut cs)?;
                let (p, binds) = self.pat(&l.pat, &st)?;
                if base.is_some() {
                    self.pending_ro.extend(binds.iter().map(|(n, _)| n.clone()));
                }
                let (body, _, _) = self.block(&w.body, &Tail::Unit(m.clone()), &binds)?;
                return Ok(Doc::seq(cs, Doc::Match(scrut, vec![(p, body), ("_".into(), brk)])));
            }
            let (c, ct) = self.expr(&w.cond, Some(&Ty::Bool), &mut cs)?;
            if !matches!(ct, Ty::Bool) {
                return self.bail(w.cond.span(), "`while` condition is not a bool");
            }
            let (body, _, _) = self.block(&w.body, &Tail::Unit(m.clone()), &[])?;
            Ok(Doc::seq(cs, Doc::If(c, Box::new(body), Box::new(brk))))
        })();
        self.loop_stack.pop();
        let body = r?;
        self.note_dirty(&m);
        stmts.push(Stmt::Bind(
            Self::tuple_pat(&m),
            Doc::Lam(
                format!("RustSem.whileFuel {} {} {}", fuel, site, Self::tuple_val(&m)),
                format!("fun {}", Self::tuple_pat(&m)),
                Box::new(body),
            ),
        ));
        Ok(())
    }

    /// body of a `for` loop; `exit`: the body contains `break` / `continue` for this loop
    fn loop_body(&mut self, body: &syn::Block, exit: bool, label: &Option<String>, m: &[String], binds: &[(String, Ty)]) -> R<Doc> {
        if exit {
            self.loop_stack.push((label.clone(), m.to_vec()));
        }
        let r = self.block(body, &Tail::Unit(m.to_vec()), binds);
        if exit {
            self.loop_stack.pop();
        }
        Ok(r?.0)
    }

    /// `for x in place.iter_mut()`, `for (i, x) in place.iter_mut().enumerate()`, `for (&k, v) in map.iter_mut()`:
    /// a loop over the positions; `x` / `v` stands for the place `place[i]` / the value of the `i`-th binding
    fn for_iter_mut(
        &mut self,
        f: &syn::ExprForLoop,
        recv: &syn::Expr,
        enumerated: bool,
        limit: Option<&syn::Expr>,
        values_only: bool,
        stmts: &mut Vec<Stmt>,
    ) -> R<()> {
        let label = f.label.as_ref().map(|l| l.name.ident.to_string());
        let exit = super::analysis::loop_has_jumps(&f.body, label.as_deref());
        let pl = self.place(recv, stmts)?;
        let mut hash_checked = false;
        let (et, map_kv) = match pl.ty() {
            Ty::List(e, _) if !values_only => (*e, None),
            Ty::Map(k, v, false) => (Ty::Tuple(vec![(*k).clone(), (*v).clone()]), Some((*k, *v))),
            // a `HashMap`: `values_mut()` / `iter_mut()` only under the manifest whitelist (and the check below)
            Ty::Map(k, v, true) if limit.is_none() && !enumerated => {
                let rt = self.src(recv.span(), String::new());
                let ok = crate::manifest::HASHMAP_VALUES_MUT_OK.iter().any(|(fl, d, r, _)| *fl == self.file && *d == self.fn_disp && *r == rt);
                if !ok {
                    return self.bail(
                        recv.span(),
                        "`values_mut()` / `iter_mut()` on a `HashMap` without a manifest entry (HASHMAP_VALUES_MUT_OK: the rounds must be independent)",
                    );
                }
                hash_checked = true;
                (Ty::Tuple(vec![(*k).clone(), (*v).clone()]), Some((*k, *v)))
            }
            Ty::Map(_, _, true) => {
                return self.bail(
                    recv.span(),
                    "iteration over a `HashMap` is rejected: the model is key-sorted and the iteration order of a HashMap is unspecified",
                )
            }
            _ => return self.bail(recv.span(), "`iter_mut()` on a value that is not an array / Vec / slice / BTreeMap"),
        };
        // loop variables
        let mut kvar: Option<String> = None;
        let (ivar, xvar): (Option<String>, String) = match (&*f.pat, enumerated, map_kv.is_some()) {
            (syn::Pat::Ident(pi), false, false) if pi.subpat.is_none() => (None, pi.ident.to_string()),
            (syn::Pat::Tuple(t), true, false) if t.elems.len() == 2 => {
                let i = match &t.elems[0] {
                    syn::Pat::Ident(pi) if pi.subpat.is_none() => Some(pi.ident.to_string()),
                    syn::Pat::Wild(_) => None,
                    o => return self.bail(o.span(), "unsupported loop pattern"),
                };
                let x = match &t.elems[1] {
                    syn::Pat::Ident(pi) if pi.subpat.is_none() => pi.ident.to_string(),
                    o => return self.bail(o.span(), "unsupported loop pattern"),
                };
                (i, x)
            }
            (syn::Pat::Ident(pi), false, true) if values_only && pi.subpat.is_none() => (None, pi.ident.to_string()),
            (syn::Pat::Tuple(t), false, true) if !values_only && t.elems.len() == 2 => {
                let mut kp = &t.elems[0];
                if let syn::Pat::Reference(r) = kp {
                    kp = &r.pat;
                }
                match kp {
                    syn::Pat::Ident(pi) if pi.subpat.is_none() => kvar = Some(pi.ident.to_string()),
                    syn::Pat::Wild(_) => {}
                    o => return self.bail(o.span(), "unsupported loop pattern"),
                }
                let x = match &t.elems[1] {
                    syn::Pat::Ident(pi) if pi.subpat.is_none() => pi.ident.to_string(),
                    o => return self.bail(o.span(), "unsupported loop pattern"),
                };
                (None, x)
            }
            (o, _, _) => return self.bail(o.span(), "unsupported loop pattern for `iter_mut()`"),
        };
        self.check_local_name(&xvar, f.pat.span())?;
        if let Some(k) = &kvar {
            self.check_local_name(k, f.pat.span())?;
        }
        let ivar = match ivar {
            Some(i) => {
                self.check_local_name(&i, f.pat.span())?;
                i
            }
            None => {
                let k = self.fresh();
                format!("i_{}", k)
            }
        };
        let mut bound: Vec<String> = vec![ivar.clone(), xvar.clone()];
        if let Some(k) = &kvar {
            bound.push(k.clone());
        }
        bound.dedup();
        let mut m = self.assigned_in_block(&f.body, &bound);
        if hash_checked && (!m.is_empty() || super::analysis::loop_has_own_break(&f.body) || super::analysis::block_leaves_fn(&f.body)) {
            return self.bail(
                f.body.span(),
                "a whitelisted `HashMap` `values_mut()` / `iter_mut()` loop must only touch its own value (no other assignment, no `break` / `return` / `?` / labelled jump)",
            );
        }
        let root = pl.root();
        if !m.contains(&root) {
            m.push(root);
            m.sort();
        }
        let cur = self.read(&pl, stmts)?;
        let hi = match limit {
            None => format!("(RustSem.len {})", cur),
            Some(n) => {
                let (nt, nty) = self.expr(n, Some(&Ty::usize()), stmts)?;
                if !nty.is_int() {
                    return self.bail(n.span(), "`take` needs an integer");
                }
                format!("(Nat.min {} (RustSem.len {}))", nt, cur)
            }
        };
        let site = format!("\"{}:{}: {}\"", self.file, self.fn_disp, self.src(f.expr.span(), String::new()));
        let at = Place::Index(Box::new(pl.clone()), lean_ident(&ivar), et.clone(), site.clone());
        let mut binds = vec![(ivar.clone(), Ty::usize())];
        let mut pre: Vec<Stmt> = Vec::new();
        match &map_kv {
            None => {
                self.pending_aliases.push((xvar.clone(), at));
                binds.push((xvar.clone(), et));
            }
            Some((kt, vt)) => {
                // the key of the `i`-th binding is read at the start of the round; the value is a place
                if let Some(k) = &kvar {
                    let curm = self.read(&pl, &mut pre)?;
                    let t = self.fresh();
                    pre.push(Stmt::Bind(t.clone(), Doc::atom(format!("RustSem.index {} {} {}", curm, lean_ident(&ivar), site))));
                    pre.push(Stmt::Let(lean_ident(k), format!("{}.1", t)));
                    binds.push((k.clone(), kt.clone()));
                }
                self.pending_aliases.push((xvar.clone(), Place::Field(Box::new(at), "2".into(), vt.clone())));
                binds.push((xvar.clone(), vt.clone()));
            }
        }
        let body = self.loop_body(&f.body, exit, &label, &m, &binds)?;
        let body = Doc::seq(pre, body);
        self.note_dirty(&m);
        stmts.push(Stmt::Bind(
            Self::tuple_pat(&m),
            Doc::Lam(
                format!("RustSem.forRange{} 0 {} {}", if exit { "Exit" } else { "" }, hi, Self::tuple_val(&m)),
                format!("fun {} {}", lean_ident(&ivar), Self::tuple_pat(&m)),
                Box::new(body),
            ),
        ));
        Ok(())
    }

    fn for_loop(&mut self, f: &syn::ExprForLoop, stmts: &mut Vec<Stmt>) -> R<()> {
        let label = f.label.as_ref().map(|l| l.name.ident.to_string());
        // a body with `break` / `continue` for this loop leaves through `LoopExit` (as `while` bodies do)
        let exit = super::analysis::loop_has_jumps(&f.body, label.as_deref());
        let (var, var_span) = match &*f.pat {
            syn::Pat::Ident(pi) if pi.subpat.is_none() && pi.by_ref.is_none() => (pi.ident.to_string(), pi.span()),
            syn::Pat::Wild(w) => ("_".to_string(), w.span()),
            syn::Pat::Tuple(t) => ("(tuple)".to_string(), t.span()),
            other => return self.bail(other.span(), "unsupported loop pattern"),
        };
        if var != "_" && var != "(tuple)" {
            self.check_local_name(&var, var_span)?;
        }
        let mut bound: Vec<String> = Vec::new();
        super::analysis::pat_idents(&f.pat, &mut bound);
        let m = self.assigned_in_block(&f.body, &bound);
        let init = Self::tuple_val(&m);
        let lam_pat = Self::tuple_pat(&m);
        match &*f.expr {
            syn::Expr::Range(r) => {
                if !matches!(r.limits, syn::RangeLimits::HalfOpen(_)) {
                    return self.bail(r.span(), "only half-open ranges `a..b` are supported in `for`");
                }
                let (lo_e, hi_e) = match (&r.start, &r.end) {
                    (Some(a), Some(b)) => (a, b),
                    _ => return self.bail(r.span(), "`for` range needs both bounds"),
                };
                let (lo, lt) = self.expr(lo_e, None, stmts)?;
                let (hi, ht) = self.expr(hi_e, if matches!(lt, Ty::Int(_)) { Some(&lt) } else { None }, stmts)?;
                if var == "(tuple)" {
                    return self.bail(var_span, "tuple pattern over an integer range");
                }
                let vt = match (&lt, &ht) {
                    (Ty::Int(w), _) | (_, Ty::Int(w)) => Ty::Int(*w),
                    (Ty::IntAny, Ty::IntAny) => Ty::IntAny,
                    _ => return self.bail(r.span(), "`for` range bounds are not integers"),
                };
                let binds = if var == "_" { vec![] } else { vec![(var.clone(), vt)] };
                let body = self.loop_body(&f.body, exit, &label, &m, &binds)?;
                self.note_dirty(&m);
                let lv = if var == "_" { "_".to_string() } else { lean_ident(&var) };
                stmts.push(Stmt::Bind(
                    Self::tuple_pat(&m),
                    Doc::Lam(format!("RustSem.forRange{} {} {} {}", if exit { "Exit" } else { "" }, lo, hi, init), format!("fun {} {}", lv, lam_pat), Box::new(body)),
                ));
                Ok(())
            }
            other => {
                // `for x in list` / `&list` / `list.iter()`
                // `for x in place.iter_mut()` / `for (i, x) in place.iter_mut().enumerate()`:
                // ≡ `for i in 0..place.len() { let x = &mut place[i]; … }`
                {
                    let (inner_e, enumerated) = match other {
                        syn::Expr::MethodCall(mc) if mc.method == "enumerate" && mc.args.is_empty() => (&*mc.receiver, true),
                        o => (o, false),
                    };
                    if let syn::Expr::MethodCall(mc) = inner_e {
                        if mc.method == "iter_mut" && mc.args.is_empty() {
                            return self.for_iter_mut(f, &mc.receiver, enumerated, None, false, stmts);
                        }
                        // `map.values_mut()`: the values in key order
                        if mc.method == "values_mut" && mc.args.is_empty() && !enumerated {
                            return self.for_iter_mut(f, &mc.receiver, false, None, true, stmts);
                        }
                        // `place.iter_mut().take(n)`: the first `min(n, len)` elements
                        if mc.method == "take" && mc.args.len() == 1 && !enumerated {
                            if let syn::Expr::MethodCall(im) = &*mc.receiver {
                                if im.method == "iter_mut" && im.args.is_empty() {
                                    return self.for_iter_mut(f, &im.receiver, false, Some(&mc.args[0]), false, stmts);
                                }
                            }
                        }
                    }
                }
                // `list.iter().enumerate()`
                let mut enumerate = false;
                let other = match other {
                    syn::Expr::MethodCall(mc) if mc.method == "enumerate" && mc.args.is_empty() => {
                        enumerate = true;
                        &*mc.receiver
                    }
                    o => o,
                };
                let inner = match other {
                    syn::Expr::MethodCall(mc) if mc.method == "iter" && mc.args.is_empty() => &*mc.receiver,
                    syn::Expr::Reference(r) if r.mutability.is_none() => &*r.expr,
                    o => o,
                };
                let (l, lt) = self.expr(inner, None, stmts)?;
                let et = match lt {
                    Ty::List(e, _) => *e,
                    // a BTreeMap iterates in key order = the order of the model's association list
                    Ty::Map(k, v, false) => Ty::Tuple(vec![*k, *v]),
                    Ty::Map(_, _, true) => {
                        return self.bail(
                            other.span(),
                            "iteration over a `HashMap` is rejected: the model is key-sorted and the iteration order of a HashMap is unspecified",
                        )
                    }
                    _ => return self.bail(other.span(), "unsupported `for` iterator (ranges, lists, BTreeMaps, `.iter()`, `.iter().enumerate()` only)"),
                };
                let (l, et) = if enumerate { (format!("(RustSem.enumerate {})", l), Ty::Tuple(vec![Ty::usize(), et])) } else { (l, et) };
                let (lv, binds) = if var == "(tuple)" {
                    let (p, b) = self.pat(&f.pat, &et)?;
                    for (n, _) in &b {
                        self.check_local_name(n, var_span)?;
                    }
                    (p, b)
                } else if var == "_" {
                    ("_".to_string(), vec![])
                } else {
                    (lean_ident(&var), vec![(var.clone(), et)])
                };
                let body = self.loop_body(&f.body, exit, &label, &m, &binds)?;
                self.note_dirty(&m);
                stmts.push(Stmt::Bind(
                    Self::tuple_pat(&m),
                    Doc::Lam(format!("RustSem.forEach{} {} {}", if exit { "Exit" } else { "" }, l, init), format!("fun {} {}", lv, lam_pat), Box::new(body)),
                ));
                Ok(())
            }
        }
    }

    // ------------------------------------------------------------------ places

    pub fn place(&mut self, e: &syn::Expr, stmts: &mut Vec<Stmt>) -> R<Place> {
        match e {
            syn::Expr::Paren(p) => self.place(&p.expr, stmts),
            syn::Expr::Group(p) => self.place(&p.expr, stmts),
            syn::Expr::Unary(u) if matches!(u.op, syn::UnOp::Deref(_)) => self.place(&u.expr, stmts),
            syn::Expr::Path(p) if p.qself.is_none() && p.path.segments.len() == 1 => {
                let n = p.path.segments[0].ident.to_string();
                if let Some(pl) = self.alias_of(&n) {
                    return Ok(pl);
                }
                if self.is_ro(&n) {
                    return self.bail(
                        e.span(),
                        format!("`{}` is bound by a pattern to a part of a `&mut` place: assignment through it is only supported for struct-variant patterns", n),
                    );
                }
                match self.lookup(&n) {
                    Some(t) => Ok(Place::Var(n, t)),
                    None => self.bail(e.span(), format!("assignment to unknown variable `{}`", n)),
                }
            }
            syn::Expr::Field(f) => {
                let base = self.place(&f.base, stmts)?;
                let (fname, fty) = self.field_of(&base.ty(), &f.member, f.span())?;
                Ok(Place::Field(Box::new(base), fname, fty))
            }
            syn::Expr::Index(ix) => {
                if let syn::Expr::Range(r) = &*ix.index {
                    // `&mut base[lo..hi]` (argument of a callee with a `&mut [T]` parameter)
                    if !matches!(r.limits, syn::RangeLimits::HalfOpen(_)) {
                        return self.bail(r.span(), "only half-open ranges are supported");
                    }
                    let base = self.place(&ix.expr, stmts)?;
                    let et = match base.ty() {
                        Ty::List(t, _) => *t,
                        _ => return self.bail(ix.expr.span(), "slicing a value that is not an array / Vec / slice"),
                    };
                    if r.start.is_none() && r.end.is_none() {
                        return Ok(base);
                    }
                    let lo = match &r.start {
                        Some(a) => self.expr(a, Some(&Ty::usize()), stmts)?.0,
                        None => "0".to_string(),
                    };
                    let hi = match &r.end {
                        Some(b) => Some(self.expr(b, Some(&Ty::usize()), stmts)?.0),
                        None => None,
                    };
                    let site = self.site(e);
                    return Ok(Place::Range(Box::new(base), lo, hi, Ty::List(Box::new(et), ListKind::Slice), site));
                }
                let base = self.place(&ix.expr, stmts)?;
                let et = match base.ty() {
                    Ty::List(t, _) => *t,
                    _ => return self.bail(ix.expr.span(), "indexing a value that is not an array / Vec / slice"),
                };
                let (i, it) = self.expr(&ix.index, Some(&Ty::usize()), stmts)?;
                if !it.is_int() {
                    return self.bail(ix.index.span(), "index is not an integer");
                }
                let site = self.site(e);
                Ok(Place::Index(Box::new(base), i, et, site))
            }
            _ => self.bail(e.span(), "unsupported assignment target"),
        }
    }

    pub fn field_of(&self, base: &Ty, member: &syn::Member, span: proc_macro2::Span) -> R<(String, Ty)> {
        match (base, member) {
            (Ty::Named(n), syn::Member::Named(id)) => {
                if let Some(s) = self.g.structs.get(n) {
                    if let Some((fname, fty)) = s.fields.iter().find(|(f, _)| id == f) {
                        return Ok((fname.clone(), fty.clone()));
                    }
                }
                if self.g.structs.get(n).map(|s| s.view).unwrap_or(false) {
                    return self.bail(span, format!("field `{}` is not part of the struct view of `{}` (manifest)", id, n));
                }
                self.bail(span, format!("unknown field `{}` of `{}`", id, n))
            }
            (Ty::Tuple(ts), syn::Member::Unnamed(ix)) => {
                let i = ix.index as usize;
                if i >= ts.len() {
                    return self.bail(span, "tuple index out of range");
                }
                // Lean tuples are right-nested pairs
                let mut s = String::new();
                for _ in 0..i {
                    s.push_str("2.");
                }
                if i + 1 == ts.len() && i > 0 {
                    s.pop();
                } else {
                    s.push('1');
                }
                Ok((s, ts[i].clone()))
            }
            _ => self.bail(span, "field access on a value that is not a translated struct or tuple"),
        }
    }

    pub fn read(&mut self, p: &Place, stmts: &mut Vec<Stmt>) -> R<String> {
        match p {
            Place::Var(n, _) => Ok(lean_ident(n)),
            Place::Field(b, f, _) => {
                let bt = self.read(b, stmts)?;
                Ok(format!("{}.{}", bt, lean_ident(f)))
            }
            Place::Index(b, i, _, site) => {
                let bt = self.read(b, stmts)?;
                let t = self.fresh();
                stmts.push(Stmt::Bind(t.clone(), Doc::atom(format!("RustSem.index {} {} {}", bt, i, site))));
                Ok(t)
            }
            Place::MapEntry(b, k, _, site) => {
                let bt = self.read(b, stmts)?;
                let mns = b.ty().map_ns();
                let t = self.fresh();
                stmts.push(Stmt::Bind(t.clone(), Doc::atom(format!("{mns}.index {} {} {}", bt, k, site))));
                Ok(t)
            }
            Place::VariantField(b, en, vn, f, _, site) => {
                let bt = self.read(b, stmts)?;
                let t = self.fresh();
                stmts.push(Stmt::Bind(t.clone(), Doc::atom(format!("RustSem.unwrap ({}.{}.{}? {}) {}", en, lean_ident(vn), f, bt, site))));
                Ok(t)
            }
            Place::Range(b, lo, hi, _, site) => {
                let bt = self.read(b, stmts)?;
                let h = hi.clone().unwrap_or_else(|| format!("(RustSem.len {})", bt));
                let t = self.fresh();
                stmts.push(Stmt::Bind(t.clone(), Doc::atom(format!("RustSem.slice {} {} {} {}", bt, lo, h, site))));
                Ok(t)
            }
            Place::OptSome(b, _, site) => {
                let bt = self.read(b, stmts)?;
                let t = self.fresh();
                stmts.push(Stmt::Bind(t.clone(), Doc::atom(format!("RustSem.unwrap {} {}", bt, site))));
                Ok(t)
            }
            Place::OptWrap(b, _, _) => {
                let bt = self.read(b, stmts)?;
                Ok(format!("(some {})", bt))
            }
            Place::Nowhere(_) => Ok("none".to_string()),
        }
    }

    pub fn write(&mut self, p: &Place, v: String, stmts: &mut Vec<Stmt>) -> R<()> {
        match p {
            Place::Var(n, _) => {
                if n == "self" {
                    if self.self_mode != SelfMode::Mut {
                        return Err(TErr { file: self.file.clone(), line: 0, msg: "mutation of `self` in a method without `&mut self`".into(), missing: None });
                    }
                    self.self_dirty = true;
                }
                stmts.push(Stmt::Let(lean_ident(n), v));
                // a cursor over a local buffer: the buffer holds what the cursor has written
                if let Some((_, b)) = self.backings.iter().rev().find(|(x, _)| x == n).cloned() {
                    let bv = format!("{}.buf", lean_ident(n));
                    self.write(&b, bv, stmts)?;
                }
                Ok(())
            }
            Place::Field(b, f, _) => {
                let bt = self.read(b, stmts)?;
                if let Ty::Tuple(ts) = b.ty() {
                    // component of a pair
                    let nv = match (ts.len(), f.as_str()) {
                        (2, "1") => format!("({}, {}.2)", v, bt),
                        (2, "2") => format!("({}.1, {})", bt, v),
                        _ => {
                            return Err(TErr { file: self.file.clone(), line: 0, msg: "assignment to a component of a tuple that is not a pair".into(), missing: None })
                        }
                    };
                    return self.write(b, nv, stmts);
                }
                self.write(b, format!("{{ {} with {} := {} }}", bt, lean_ident(f), v), stmts)
            }
            Place::Index(b, i, _, site) => {
                let bt = self.read(b, stmts)?;
                let t = self.fresh();
                stmts.push(Stmt::Bind(t.clone(), Doc::atom(format!("RustSem.set {} {} {} {}", bt, i, v, site))));
                self.write(b, t, stmts)
            }
            Place::MapEntry(b, k, _, _) => {
                let bt = self.read(b, stmts)?;
                let mns = b.ty().map_ns();
                self.write(b, format!("({mns}.insert {} {} {})", bt, k, v), stmts)
            }
            Place::VariantField(b, en, vn, f, _, _) => {
                let bt = self.read(b, stmts)?;
                self.write(b, format!("({}.{}.set_{} {} {})", en, lean_ident(vn), f, bt, v), stmts)
            }
            Place::OptSome(b, _, _) => self.write(b, format!("(some {})", v), stmts),
            Place::OptWrap(b, _, site) => {
                // the callee was given `Some(&mut place)`: it returns `some` of what it left there
                let t = self.fresh();
                stmts.push(Stmt::Bind(t.clone(), Doc::atom(format!("RustSem.unwrap {} {}", v, site))));
                self.write(b, t, stmts)
            }
            Place::Nowhere(_) => Ok(()),
            Place::Range(b, lo, hi, _, site) => {
                // what the callee left in the sub-slice it was given (same length: it only had a `&mut [T]`)
                let bt = self.read(b, stmts)?;
                let h = hi.clone().unwrap_or_else(|| format!("(RustSem.len {})", bt));
                let t = self.fresh();
                stmts.push(Stmt::Bind(t.clone(), Doc::atom(format!("RustSem.splice {} {} {} {} {}", bt, lo, h, v, site))));
                self.write(b, t, stmts)
            }
        }
    }

    /// `place.resize(..)`, `place[a..b].copy_from_slice(src)`, `push`, …
    fn mutating_call(&mut self, mc: &syn::ExprMethodCall, stmts: &mut Vec<Stmt>) -> R<()> {
        let name = mc.method.to_string();
        let args: Vec<&syn::Expr> = mc.args.iter().collect();
        // receiver: a place, or a sub-range of a place (copy_from_slice only)
        let mut recv: &syn::Expr = &mc.receiver;
        while let syn::Expr::Paren(p) = recv {
            recv = &p.expr;
        }
        if name == "copy_from_slice" {
            if args.len() != 1 {
                return self.bail(mc.span(), "copy_from_slice takes one argument");
            }
            let site = self.site(mc);
            if let syn::Expr::Index(ix) = recv {
                if let syn::Expr::Range(r) = &*ix.index {
                    if !matches!(r.limits, syn::RangeLimits::HalfOpen(_)) {
                        return self.bail(r.span(), "only half-open ranges are supported");
                    }
                    let place = self.place(&ix.expr, stmts)?;
                    let lt = place.ty();
                    if !matches!(lt, Ty::List(_, _)) {
                        return self.bail(ix.expr.span(), "slicing a value that is not an array / Vec / slice");
                    }
                    let cur = self.read(&place, stmts)?;
                    let a = match &r.start {
                        Some(a) => self.expr(a, Some(&Ty::usize()), stmts)?.0,
                        None => "0".to_string(),
                    };
                    let b = match &r.end {
                        Some(b) => self.expr(b, Some(&Ty::usize()), stmts)?.0,
                        None => format!("(RustSem.len {})", cur),
                    };
                    let (src, _) = self.expr(args[0], Some(&lt), stmts)?;
                    let t = self.fresh();
                    stmts.push(Stmt::Bind(t.clone(), Doc::atom(format!("RustSem.copy_from_slice {} {} {} {} {}", cur, a, b, src, site))));
                    return self.write(&place, t, stmts);
                }
            }
            let place = self.place(recv, stmts)?;
            let lt = place.ty();
            if !matches!(lt, Ty::List(_, _)) {
                return self.bail(recv.span(), "copy_from_slice on a value that is not an array / Vec / slice");
            }
            let cur = self.read(&place, stmts)?;
            let (src, _) = self.expr(args[0], Some(&lt), stmts)?;
            let t = self.fresh();
            stmts.push(Stmt::Bind(
                t.clone(),
                Doc::atom(format!("RustSem.copy_from_slice {} 0 (RustSem.len {}) {} {}", cur, cur, src, site)),
            ));
            return self.write(&place, t, stmts);
        }
        let place = self.place(recv, stmts)?;
        // `entry.insert(v)` on the vacant entry bound by `if let Entry::Vacant(entry) = map.entry(k)`
        if let (Place::MapEntry(_, _, vt, _), "insert", 1, true) = (&place, name.as_str(), args.len(), matches!(recv, syn::Expr::Path(_))) {
            let vt = vt.clone();
            let (v, _) = self.expr(args[0], Some(&vt), stmts)?;
            return self.write(&place, v, stmts);
        }
        if let Ty::Set(kt) = place.ty() {
            let cur = self.read(&place, stmts)?;
            let new = match (name.as_str(), args.len()) {
                ("insert", 1) => {
                    let (k, _) = self.expr(args[0], Some(&kt), stmts)?;
                    format!("(RustSem.Set.insert {} {})", cur, k)
                }
                ("remove", 1) => {
                    let (k, _) = self.expr(args[0], Some(&kt), stmts)?;
                    format!("(RustSem.Set.remove {} {})", cur, k)
                }
                ("clear", 0) => "[]".to_string(),
                _ => return self.bail(mc.span(), format!("unsupported call of `{}` on a set", name)),
            };
            return self.write(&place, new, stmts);
        }
        if let Ty::Map(kt, vt, _) = place.ty() {
            let mns = place.ty().map_ns();
            let cur = self.read(&place, stmts)?;
            let new = match (name.as_str(), args.len()) {
                ("insert", 2) => {
                    let (k, _) = self.expr(args[0], Some(&kt), stmts)?;
                    let (v, _) = self.expr(args[1], Some(&vt), stmts)?;
                    format!("({mns}.insert {} {} {})", cur, k, v)
                }
                ("remove", 1) => {
                    let (k, _) = self.expr(args[0], Some(&kt), stmts)?;
                    format!("({mns}.remove {} {})", cur, k)
                }
                ("clear", 0) => "[]".to_string(),
                ("retain", 1) => {
                    // `map.retain(|k, v| cond)` with a pure predicate that looks only at its own entry: order-independent
                    let c = match args[0] {
                        syn::Expr::Closure(c) if c.inputs.len() == 2 && c.capture.is_none() => c,
                        o => return self.bail(o.span(), "`retain` needs a closure `|k, v| cond`"),
                    };
                    let mut names = Vec::new();
                    let mut binds = Vec::new();
                    for (inp, ty) in c.inputs.iter().zip([(*kt).clone(), (*vt).clone()]) {
                        let mut ip: &syn::Pat = inp;
                        while let syn::Pat::Reference(pr) = ip {
                            ip = &pr.pat;
                        }
                        match ip {
                            syn::Pat::Wild(_) => names.push("_".to_string()),
                            syn::Pat::Ident(pi) if pi.subpat.is_none() => {
                                self.check_local_name(&pi.ident.to_string(), pi.span())?;
                                names.push(lean_ident(&pi.ident.to_string()));
                                binds.push((pi.ident.to_string(), ty));
                            }
                            o => return self.bail(o.span(), "unsupported closure parameter"),
                        }
                    }
                    if !self.assigned_in_expr(&c.body).is_empty() || super::analysis::expr_leaves_fn(&c.body) {
                        return self.bail(args[0].span(), "the closure of `retain` must be a pure predicate");
                    }
                    self.push_scope(binds);
                    let mut bs: Vec<Stmt> = Vec::new();
                    let rb = self.expr(&c.body, Some(&Ty::Bool), &mut bs);
                    self.pop_scope();
                    let (b, bt) = rb?;
                    if !bs.is_empty() || !matches!(bt, Ty::Bool) {
                        return self.bail(args[0].span(), "the closure of `retain` must be a pure boolean expression");
                    }
                    format!("(List.filter (fun ({}, {}) => {}) {})", names[0], names[1], b, cur)
                }
                _ => return self.bail(mc.span(), format!("unsupported call of `{}` on a map", name)),
            };
            return self.write(&place, new, stmts);
        }
        let (et, kind) = match place.ty() {
            Ty::List(t, k) => (*t, k),
            _ => return self.bail(recv.span(), format!("`{}` on a value that is not a Vec", name)),
        };
        if kind != ListKind::Vec {
            return self.bail(recv.span(), format!("`{}` on a value that is not a Vec", name));
        }
        let cur = self.read(&place, stmts)?;
        let new = match (name.as_str(), args.len()) {
            ("resize", 2) => {
                let (n, _) = self.expr(args[0], Some(&Ty::usize()), stmts)?;
                let (x, _) = self.expr(args[1], Some(&et), stmts)?;
                format!("RustSem.resize {} {} {}", cur, n, x)
            }
            ("push", 1) | ("push_back", 1) => {
                let (x, _) = self.expr(args[0], Some(&et), stmts)?;
                format!("RustSem.push {} {}", cur, x)
            }
            ("extend_from_slice", 1) => {
                let lt = place.ty();
                let (x, _) = self.expr(args[0], Some(&lt), stmts)?;
                format!("RustSem.extend_from_slice {} {}", cur, x)
            }
            ("append", 1) => {
                // `v.append(&mut other)`: all elements of `other` move to the end of `v`; `other` is left empty
                let mut inner: &syn::Expr = args[0];
                loop {
                    match inner {
                        syn::Expr::Reference(r) => inner = &r.expr,
                        syn::Expr::Paren(p) => inner = &p.expr,
                        _ => break,
                    }
                }
                let lt = place.ty();
                if self.is_place(inner) && !matches!(inner, syn::Expr::MethodCall(_) | syn::Expr::Call(_)) {
                    let other = self.place(inner, stmts)?;
                    let x = self.read(&other, stmts)?;
                    self.write(&other, "[]".to_string(), stmts)?;
                    let cur2 = self.read(&place, stmts)?;
                    return self.write(&place, format!("(RustSem.extend_from_slice {} {})", cur2, x), stmts);
                }
                // a temporary (the result of a call)
                let (x, _) = self.expr(inner, Some(&lt), stmts)?;
                let cur2 = self.read(&place, stmts)?;
                return self.write(&place, format!("(RustSem.extend_from_slice {} {})", cur2, x), stmts);
            }
            ("insert", 2) => {
                let (i, _) = self.expr(args[0], Some(&Ty::usize()), stmts)?;
                let (x, _) = self.expr(args[1], Some(&et), stmts)?;
                let site = self.site(mc);
                let t = self.fresh();
                stmts.push(Stmt::Bind(t.clone(), Doc::atom(format!("RustSem.vec_insert {} {} {} {}", cur, i, x, site))));
                return self.write(&place, t, stmts);
            }
            ("remove", 1) => {
                let (i, _) = self.expr(args[0], Some(&Ty::usize()), stmts)?;
                let site = self.site(mc);
                let t = self.fresh();
                stmts.push(Stmt::Bind(t.clone(), Doc::atom(format!("RustSem.vec_remove {} {} {}", cur, i, site))));
                return self.write(&place, t, stmts);
            }
            ("clear", 0) => "[]".to_string(),
            ("reverse", 0) => format!("List.reverse {}", cur),
            ("truncate", 1) => {
                let (n, _) = self.expr(args[0], Some(&Ty::usize()), stmts)?;
                format!("List.take {} {}", n, cur)
            }
            _ => return self.bail(mc.span(), format!("unsupported call of `{}`", name)),
        };
        self.write(&place, format!("({})", new), stmts)
    }

    /// is `e` a place rooted at a known variable?
    pub fn is_place(&self, e: &syn::Expr) -> bool {
        root_var(e).map(|r| self.lookup(&r).is_some()).unwrap_or(false)
    }

    pub fn fn_lean_name(&self, f: &FnInfo) -> String {
        self.g.note(&f.group);
        if f.ns == self.ns {
            // a free fn whose name is also a method of the current impl type would be captured by
            // Lean's namespace resolution inside `def Type.method`: qualify it
            if f.self_ty.is_none() {
                if let Some(st) = &self.self_ty {
                    if self.g.fns.contains_key(&(Some(st.clone()), f.name.clone())) {
                        return format!("{}.{}", f.ns, f.short_lean());
                    }
                }
            }
            f.short_lean()
        } else {
            format!("{}.{}", f.ns, f.short_lean())
        }
    }
}
