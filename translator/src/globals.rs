//! First pass: locate the selected items and build the symbol tables (types, signatures).

use crate::manifest::{Sel, WorkItem, OPAQUE_TYPES};
use std::cell::RefCell;
use std::collections::BTreeSet;
use crate::ty::{int_width, ListKind, Ty};
use crate::{TErr, R};
use std::collections::BTreeMap;
use syn::spanned::Spanned;

#[derive(Clone, Debug)]
pub struct StructInfo {
    pub group: String,
    pub ns: String,
    pub name: String,
    pub fields: Vec<(String, Ty)>,
    /// struct view: the Rust struct has more fields than are translated
    pub view: bool,
    /// ignored fields (manifest `StructIgnore`): writes are dropped, reads are errors
    pub ignored: Vec<String>,
}

#[derive(Clone, Debug)]
pub struct VariantInfo {
    pub name: String,
    /// tuple variants: `None` names; struct variants: field names
    pub fields: Vec<(Option<String>, Ty)>,
    pub discr: Option<u128>,
}

#[derive(Clone, Debug)]
pub struct EnumInfo {
    pub group: String,
    pub ns: String,
    pub name: String,
    pub variants: Vec<VariantInfo>,
    pub all_unit: bool,
}

#[derive(Clone, Debug)]
pub struct ConstInfo {
    pub group: String,
    pub ns: String,
    pub name: String,
    pub ty: Ty,
}

#[derive(Clone, Copy, Debug, PartialEq, Eq)]
pub enum SelfMode {
    None,
    /// `&self` or `self`
    Ref,
    /// `&mut self`
    Mut,
}

#[derive(Clone, Debug)]
pub struct FnInfo {
    pub group: String,
    pub ns: String,
    pub self_ty: Option<String>,
    pub name: String,
    pub self_mode: SelfMode,
    pub params: Vec<(String, Ty)>,
    /// a `Result` fn with `&mut` state (`&mut self` / `&mut` parameters): its `Err` carries the state it leaves behind
    /// (`Res (E × State) (State × T)`)
    pub err_state: bool,
    /// `const N: usize` generic parameters (explicit leading arguments of the generated function)
    pub const_params: Vec<String>,
    /// parameters passed as `&mut <semantic-model type>`: threaded through (returned with the result)
    pub mut_params: Vec<String>,
    /// the `mut_params` of type `Option<&mut T>`: an optional reference (the callee returns the possibly updated `T`)
    pub opt_mut_params: Vec<String>,
    /// the method is named like a field of its struct: its Lean name gets a trailing `'`
    pub field_clash: bool,
    /// a "finder": the fn returns `Option<&mut T>` (`Some(false)`) or `Option<(usize, &mut T)>` (`Some(true)`) pointing into
    /// its `&mut [Option<T>]` parameter (named here); the generated fn returns the POSITION (`Option Nat`)
    pub ref_ret: Option<(bool, String)>,
    /// declared return type (`Ty::Res` for `Result`)
    pub ret: Ty,
    /// position in the emission order
    pub order: usize,
}

thread_local! {
    /// selected type aliases: (crate, name) -> type
    static ALIASES: RefCell<BTreeMap<(String, String), Ty>> = RefCell::new(BTreeMap::new());
    /// crate that owns the SIMPLE key of a selected type name (a second crate's type of that name is keyed `<crate>::<name>`)
    static OWNERS: RefCell<BTreeMap<String, String>> = RefCell::new(BTreeMap::new());
    /// `use <crate>::..::Name [as Alias];` of the parsed files: (file, visible name) -> (crate, original name)
    static IMPORTS: RefCell<BTreeMap<(String, String), (String, String)>> = RefCell::new(BTreeMap::new());
}

/// crates of the repository (the first path segment of a cross-crate `use`)
const CRATES: &[&str] = &["renet", "renetcode", "renet_netcode"];

fn collect_imports(file: &str, tree: &syn::UseTree, root: Option<&str>, out: &mut BTreeMap<(String, String), (String, String)>) {
    match tree {
        syn::UseTree::Path(p) => {
            let seg = p.ident.to_string();
            let r = match root {
                Some(r) => Some(r.to_string()),
                None if CRATES.contains(&seg.as_str()) => Some(seg.clone()),
                None => None,
            };
            if let Some(r) = r {
                collect_imports(file, &p.tree, Some(&r), out);
            }
        }
        syn::UseTree::Name(n) => {
            if let Some(r) = root {
                out.insert((file.to_string(), n.ident.to_string()), (r.to_string(), n.ident.to_string()));
            }
        }
        syn::UseTree::Rename(n) => {
            if let Some(r) = root {
                out.insert((file.to_string(), n.rename.to_string()), (r.to_string(), n.ident.to_string()));
            }
        }
        syn::UseTree::Group(g) => {
            for t in &g.items {
                collect_imports(file, t, root, out);
            }
        }
        syn::UseTree::Glob(_) => {}
    }
}

/// key of the type `simple` of crate `krate`
fn key_in_crate(krate: &str, simple: &str, has: &dyn Fn(&str) -> bool) -> Option<String> {
    let q = format!("{}::{}", krate, simple);
    if has(&q) {
        return Some(q);
    }
    let owned = OWNERS.with(|o| o.borrow().get(simple).map(|c| c == krate).unwrap_or(false));
    if owned && has(simple) {
        return Some(simple.to_string());
    }
    None
}

/// length expression of an array type (`[T; LEN]`, possibly behind references)
pub fn array_len_of(t: &syn::Type) -> Option<syn::Expr> {
    let mut t = t;
    while let syn::Type::Reference(r) = t {
        t = &r.elem;
    }
    match t {
        syn::Type::Array(a) => Some(a.len.clone()),
        _ => None,
    }
}

/// crate of a source file (first path component)
pub fn crate_of(file: &str) -> &str {
    file.split('/').next().unwrap_or("")
}
/// Key of the type `simple` as seen from `file`: types are keyed by their simple Rust name, except that a type whose
/// simple name is already taken by a selected type of ANOTHER crate is keyed `<crate>::<name>`.
pub fn type_key(file: &str, simple: &str, type_names: &[String]) -> String {
    let has = |k: &str| type_names.iter().any(|t| t == k);
    // a name imported from another crate of the repository (`use renetcode::DisconnectReason;`)
    if let Some((krate, orig)) = IMPORTS.with(|m| m.borrow().get(&(file.to_string(), simple.to_string())).cloned()) {
        if let Some(k) = key_in_crate(&krate, &orig, &has) {
            return k;
        }
    }
    let q = format!("{}::{}", crate_of(file), simple);
    if has(&q) {
        q
    } else {
        simple.to_string()
    }
}
/// key of the type named by a path `krate::..::Name` whose first segment is a crate of the repository
pub fn type_key_path(segs: &[String], type_names: &[String]) -> Option<String> {
    if segs.len() >= 2 && CRATES.contains(&segs[0].as_str()) {
        let has = |k: &str| type_names.iter().any(|t| t == k);
        return key_in_crate(&segs[0], &segs[segs.len() - 1], &has);
    }
    None
}
/// simple Rust name of a type key
pub fn simple_of(key: &str) -> &str {
    key.rsplit("::").next().unwrap_or(key)
}

impl FnInfo {
    pub fn short_lean(&self) -> String {
        match &self.self_ty {
            Some(t) => format!("{}.{}{}", simple_of(t), crate::ty::lean_ident(&self.name), if self.field_clash { "'" } else { "" }),
            None => crate::ty::lean_ident(&self.name),
        }
    }
}

/// parsed source files (manifest files, plus crate files searched when a call is followed)
pub struct FileCache {
    pub repo: String,
    pub files: BTreeMap<String, syn::File>,
}

impl FileCache {
    pub fn new(repo: &str) -> Self {
        FileCache { repo: repo.trim_end_matches('/').to_string(), files: BTreeMap::new() }
    }
    pub fn ensure(&mut self, path: &str) -> R<()> {
        if self.files.contains_key(path) {
            return Ok(());
        }
        let full = format!("{}/{}", self.repo, path);
        let text = std::fs::read_to_string(&full)
            .map_err(|e| TErr { file: path.to_string(), line: 0, msg: format!("cannot read source file: {}", e), missing: None })?;
        let parsed = syn::parse_file(&text)
            .map_err(|e| TErr { file: path.to_string(), line: e.span().start().line, msg: format!("syn parse error: {}", e), missing: None })?;
        self.files.insert(path.to_string(), parsed);
        Ok(())
    }
    pub fn get(&self, path: &str) -> Option<&syn::File> {
        self.files.get(path)
    }
}

pub struct Globals {
    /// groups whose items were referred to since the last `take_used` (import computation)
    pub used: RefCell<BTreeSet<String>>,
    /// (source error type, target error type) -> key of the translated `From::from`
    pub from_impls: Vec<(String, String, (Option<String>, String))>,
    /// declared length of array-typed fields: (type key, variant or "", field) -> length expression
    pub array_lens: BTreeMap<(String, String, String), syn::Expr>,
    pub structs: BTreeMap<String, StructInfo>,
    pub enums: BTreeMap<String, EnumInfo>,
    pub consts: BTreeMap<String, Vec<ConstInfo>>,
    pub fns: BTreeMap<(Option<String>, String), Vec<FnInfo>>,
    /// keys of the translated structs / enums with `#[derive(Clone)]` (`x.clone()` is the identity on the representation)
    pub derive_clone: BTreeSet<String>,
    /// number of explicit randomness parameters (`rand1 ..`, see `manifest::RANDOM_SOURCES`) of the fns emitted so far:
    /// (namespace, Lean short name) -> count
    pub rand_counts: RefCell<BTreeMap<(String, String), usize>>,
}

/// does the item carry `#[derive(.., Clone, ..)]`?
fn derives_clone(attrs: &[syn::Attribute]) -> bool {
    attrs.iter().any(|a| {
        a.path().is_ident("derive") && {
            let mut found = false;
            let _ = a.parse_nested_meta(|m| {
                if m.path.is_ident("Clone") {
                    found = true;
                }
                Ok(())
            });
            found
        }
    })
}

/// `renetcode/src/replay_protection.rs` -> `renetcode.replay_protection`
pub fn ns_of(path: &str) -> String {
    let p = path.trim_end_matches(".rs");
    let parts: Vec<&str> = p.split('/').filter(|s| *s != "src" && *s != "mod" && *s != "lib").collect();
    parts.iter().map(|s| crate::ty::lean_ident(s)).collect::<Vec<_>>().join(".")
}

pub fn err_at<T>(file: &str, span: proc_macro2::Span, msg: impl Into<String>) -> R<T> {
    Err(TErr { file: file.to_string(), line: span.start().line, msg: msg.into(), missing: None })
}

fn has_cfg_test(attrs: &[syn::Attribute]) -> bool {
    attrs.iter().any(|a| {
        a.path().is_ident("cfg") && {
            let s = quote::quote!(#a).to_string();
            s.contains("test")
        }
    })
}

pub enum Found<'a> {
    Alias(&'a syn::ItemType),
    Const(&'a syn::ItemConst),
    Struct(&'a syn::ItemStruct),
    Enum(&'a syn::ItemEnum),
    Fn(&'a syn::Signature, &'a syn::Block, proc_macro2::Span),
}

/// Locate a selected item in a parsed file (exactly one match required).
pub fn find<'a>(path: &str, file: &'a syn::File, sel: &Sel) -> R<Found<'a>> {
    let mut hits: Vec<Found<'a>> = Vec::new();
    for item in &file.items {
        match (sel, item) {
            (Sel::Const(n), syn::Item::Const(c)) if c.ident == n && !has_cfg_test(&c.attrs) => hits.push(Found::Const(c)),
            (Sel::TypeAlias(n), syn::Item::Type(t)) if t.ident == n && !has_cfg_test(&t.attrs) => hits.push(Found::Alias(t)),
            (Sel::Struct(n), syn::Item::Struct(s)) | (Sel::StructView(n, _), syn::Item::Struct(s)) | (Sel::StructIgnore(n, _), syn::Item::Struct(s))
                if s.ident == n && !has_cfg_test(&s.attrs) =>
            {
                hits.push(Found::Struct(s))
            }
            (Sel::Enum(n), syn::Item::Enum(e)) if e.ident == n && !has_cfg_test(&e.attrs) => hits.push(Found::Enum(e)),
            (Sel::Fn(n), syn::Item::Fn(f)) if f.sig.ident == n && !has_cfg_test(&f.attrs) => {
                hits.push(Found::Fn(&f.sig, &f.block, f.span()))
            }
            (Sel::From(dst, src), syn::Item::Impl(im)) if im.trait_.is_some() && !has_cfg_test(&im.attrs) => {
                let (_, tpath, _) = im.trait_.as_ref().unwrap();
                let last = tpath.segments.last().unwrap();
                let src_ok = last.ident == "From"
                    && generic_args(last).first().map(|t| match t {
                        syn::Type::Path(p) => p.path.segments.last().map(|s| s.ident == src).unwrap_or(false),
                        _ => false,
                    }) == Some(true);
                let dst_ok = match &*im.self_ty {
                    syn::Type::Path(p) => p.path.segments.last().map(|s| s.ident == dst).unwrap_or(false),
                    _ => false,
                };
                if src_ok && dst_ok {
                    for ii in &im.items {
                        if let syn::ImplItem::Fn(f) = ii {
                            if f.sig.ident == "from" {
                                hits.push(Found::Fn(&f.sig, &f.block, f.span()));
                            }
                        }
                    }
                }
            }
            (Sel::TraitFn(tr, t, n), syn::Item::Impl(im)) if im.trait_.is_some() && !has_cfg_test(&im.attrs) => {
                let (_, tpath, _) = im.trait_.as_ref().unwrap();
                let last = tpath.segments.last().unwrap();
                let tr_ok = last.ident == tr && matches!(last.arguments, syn::PathArguments::None);
                let is_t = match &*im.self_ty {
                    syn::Type::Path(p) => p.path.segments.last().map(|s| s.ident == t).unwrap_or(false),
                    _ => false,
                };
                if tr_ok && is_t && im.generics.params.is_empty() {
                    for ii in &im.items {
                        if let syn::ImplItem::Fn(f) = ii {
                            if f.sig.ident == n && !has_cfg_test(&f.attrs) {
                                hits.push(Found::Fn(&f.sig, &f.block, f.span()));
                            }
                        }
                    }
                }
            }
            (Sel::Method(t, n), syn::Item::Impl(im)) if im.trait_.is_none() && !has_cfg_test(&im.attrs) => {
                let is_t = match &*im.self_ty {
                    syn::Type::Path(p) => p.path.segments.last().map(|s| s.ident == t).unwrap_or(false),
                    _ => false,
                };
                if is_t {
                    for ii in &im.items {
                        if let syn::ImplItem::Fn(f) = ii {
                            if f.sig.ident == n && !has_cfg_test(&f.attrs) {
                                hits.push(Found::Fn(&f.sig, &f.block, f.span()));
                            }
                        }
                    }
                }
            }
            _ => {}
        }
    }
    if hits.len() == 1 {
        return Ok(hits.pop().unwrap());
    }
    let what = match sel {
        Sel::Const(n) => format!("const {}", n),
        Sel::TypeAlias(n) => format!("type {}", n),
        Sel::Struct(n) | Sel::StructView(n, _) | Sel::StructIgnore(n, _) => format!("struct {}", n),
        Sel::Enum(n) => format!("enum {}", n),
        Sel::Fn(n) => format!("fn {}", n),
        Sel::Method(t, n) => format!("fn {}::{}", t, n),
        Sel::From(d, s) => format!("impl From<{}> for {}", s, d),
        Sel::TraitFn(tr, t, n) => format!("impl {} for {} {{ fn {} }}", tr, t, n),
    };
    Err(TErr {
        file: path.to_string(),
        line: 0,
        msg: if hits.is_empty() {
            format!("selected item not found: {}", what)
        } else {
            format!("selected item is ambiguous ({} definitions): {}", hits.len(), what)
        }, missing: None })
}

impl Globals {
    pub fn note(&self, group: &str) {
        if !group.is_empty() {
            self.used.borrow_mut().insert(group.to_string());
        }
    }
    /// key of the type `simple` as seen from `file` (see `type_key`)
    pub fn tkey(&self, file: &str, simple: &str) -> String {
        let has = |k: &str| self.structs.contains_key(k) || self.enums.contains_key(k);
        if let Some((krate, orig)) = IMPORTS.with(|m| m.borrow().get(&(file.to_string(), simple.to_string())).cloned()) {
            if let Some(k) = key_in_crate(&krate, &orig, &has) {
                return k;
            }
        }
        let q = format!("{}::{}", crate_of(file), simple);
        if has(&q) {
            q
        } else {
            simple.to_string()
        }
    }

    pub fn take_used(&self) -> BTreeSet<String> {
        std::mem::take(&mut *self.used.borrow_mut())
    }

    /// Build the symbol tables for the work list.  An item that cannot be registered marks its GROUP as failed
    /// (first error kept) and the remaining items of that group are skipped; other groups are unaffected.
    pub fn build(work: &[WorkItem], cache: &FileCache, failed: &mut BTreeMap<String, TErr>) -> Globals {
        let mut g = Globals {
            used: RefCell::new(BTreeSet::new()),
            from_impls: Vec::new(),
            array_lens: BTreeMap::new(),
            structs: BTreeMap::new(),
            enums: BTreeMap::new(),
            consts: BTreeMap::new(),
            fns: BTreeMap::new(),
            derive_clone: BTreeSet::new(),
            rand_counts: RefCell::new(BTreeMap::new()),
        };
        register_builtins(&mut g);
        // cross-crate `use` items of every parsed file
        {
            let mut imports = BTreeMap::new();
            for (f, ast) in &cache.files {
                for it in &ast.items {
                    if let syn::Item::Use(u) = it {
                        collect_imports(f, &u.tree, None, &mut imports);
                    }
                }
            }
            IMPORTS.with(|m| *m.borrow_mut() = imports);
        }
        // pass 1: names (keys) of translated types
        let mut type_names: Vec<String> = g.structs.keys().cloned().collect();
        let mut owner: BTreeMap<String, String> = BTreeMap::new();
        for w in work {
            match &w.sel {
                Sel::Struct(n) | Sel::Enum(n) | Sel::StructView(n, _) | Sel::StructIgnore(n, _) => {
                    let krate = crate_of(&w.file).to_string();
                    let q = format!("{}::{}", krate, n);
                    let taken = type_names.iter().any(|t| t == n);
                    let other_crate = owner.get(*n).map(|o| *o != krate).unwrap_or(false);
                    if taken && other_crate && !type_names.iter().any(|t| *t == q) {
                        // same simple name in another crate: crate-qualified key
                        type_names.push(q);
                    } else if taken {
                        failed.entry(w.group.clone()).or_insert(TErr {
                            file: w.file.clone(),
                            line: 0,
                            msg: format!("two selected types share the simple name {}", n),
                            missing: None,
                        });
                    } else {
                        type_names.push(n.to_string());
                        owner.insert(n.to_string(), krate);
                    }
                }
                _ => {}
            }
        }
        OWNERS.with(|o| *o.borrow_mut() = owner.clone());
        // pass 2: definitions and signatures
        for (idx, w) in work.iter().enumerate() {
            if failed.contains_key(&w.group) {
                continue;
            }
            if let Err(e) = g.register(w, idx + 1, cache, &type_names) {
                failed.insert(w.group.clone(), e);
            }
        }
        // a method named like a field of its struct would clash with the projection: its Lean name gets a `'`
        let clashes: Vec<(Option<String>, String)> = g
            .fns
            .keys()
            .filter(|(st, n)| match st {
                Some(t) => g.structs.get(t).map(|s| s.fields.iter().any(|(f, _)| f == n)).unwrap_or(false),
                None => false,
            })
            .cloned()
            .collect();
        for k in clashes {
            if let Some(v) = g.fns.get_mut(&k) {
                for f in v.iter_mut() {
                    if !f.group.is_empty() {
                        f.field_clash = true;
                    }
                }
            }
        }
        g
    }

    fn register(&mut self, w: &WorkItem, order: usize, cache: &FileCache, type_names: &[String]) -> R<()> {
        let g = self;
        let path: &str = &w.file;
        let sel = &w.sel;
        let group = w.group.clone();
        let file = match cache.get(path) {
            Some(f) => f,
            None => return Err(TErr { file: path.to_string(), line: 0, msg: "source file was not parsed".into(), missing: None }),
        };
        let ns = ns_of(path);
        let type_names: Vec<String> = type_names.to_vec();
        {
            {
                match find(path, file, sel)? {
                    Found::Alias(t) => {
                        if !t.generics.params.is_empty() {
                            return err_at(path, t.generics.span(), "generic type alias is not supported");
                        }
                        let ty = conv_ty(path, &t.ty, None, &type_names)?;
                        ALIASES.with(|a| a.borrow_mut().insert((crate_of(path).to_string(), t.ident.to_string()), ty));
                    }
                    Found::Const(c) => {
                        let ty = conv_ty(path, &c.ty, None, &type_names)?;
                        g.consts.entry(c.ident.to_string()).or_default().push(ConstInfo {
                            group: group.clone(),
                            ns: ns.clone(),
                            name: c.ident.to_string(),
                            ty,
                        });
                    }
                    Found::Struct(s) => {
                        if !s.generics.params.is_empty() {
                            return err_at(path, s.generics.span(), "generic struct is not supported");
                        }
                        let mut fields = Vec::new();
                        let view_fields: Option<&[&str]> = match sel {
                            Sel::StructView(_, fs) => Some(fs),
                            _ => None,
                        };
                        let ignored: Vec<String> = match sel {
                            Sel::StructIgnore(_, fs) => fs.iter().map(|x| x.to_string()).collect(),
                            _ => Vec::new(),
                        };
                        let view = view_fields.is_some() || !ignored.is_empty();
                        match &s.fields {
                            syn::Fields::Named(nf) => {
                                for f in &nf.named {
                                    let fname = f.ident.as_ref().unwrap().to_string();
                                    if let Some(vf) = view_fields {
                                        if !vf.contains(&fname.as_str()) {
                                            continue;
                                        }
                                    }
                                    if ignored.contains(&fname) {
                                        continue;
                                    }
                                    if has_mut_ref(&f.ty) && !borrowed_ok(path, &s.ident.to_string()) {
                                        return err_at(path, f.ty.span(), "a `&mut` reference stored in a struct field is not supported (no BORROWED_FIELDS_OK entry)");
                                    }
                                    let ty = conv_ty(path, &f.ty, Some(&type_key(path, &s.ident.to_string(), &type_names)), &type_names)?;
                                    if let Some(len) = array_len_of(&f.ty) {
                                        g.array_lens.insert((type_key(path, &s.ident.to_string(), &type_names), String::new(), fname.clone()), len);
                                    }
                                    fields.push((fname, ty));
                                }
                                if let Some(vf) = view_fields {
                                    for want in vf {
                                        if !fields.iter().any(|(n, _)| n == want) {
                                            return err_at(path, s.span(), format!("struct view: no field `{}` in `{}`", want, s.ident));
                                        }
                                    }
                                }
                            }
                            // a unit struct (`struct ClientNotFound;`): the structure without fields
                            syn::Fields::Unit if view_fields.is_none() => {}
                            _ => return err_at(path, s.span(), "only structs with named fields (or unit structs) are supported"),
                        }
                        if derives_clone(&s.attrs) {
                            g.derive_clone.insert(type_key(path, &s.ident.to_string(), &type_names));
                        }
                        g.structs.insert(type_key(path, &s.ident.to_string(), &type_names), StructInfo { group: group.clone(), ns: ns.clone(), name: s.ident.to_string(), fields, view, ignored });
                    }
                    Found::Enum(e) => {
                        if e.generics.params.iter().any(|p| !matches!(p, syn::GenericParam::Lifetime(_))) {
                            return err_at(path, e.generics.span(), "generic enum is not supported");
                        }
                        let mut variants = Vec::new();
                        let mut next: u128 = 0;
                        let mut all_unit = true;
                        for v in &e.variants {
                            if v.fields.iter().any(|f| has_mut_ref(&f.ty)) && !borrowed_ok(path, &e.ident.to_string()) {
                                return err_at(path, v.span(), "a `&mut` reference stored in an enum variant is not supported (no BORROWED_FIELDS_OK entry)");
                            }
                            let mut fields = Vec::new();
                            match &v.fields {
                                syn::Fields::Unit => {}
                                syn::Fields::Unnamed(u) => {
                                    all_unit = false;
                                    for f in &u.unnamed {
                                        fields.push((None, conv_ty(path, &f.ty, Some(&type_key(path, &e.ident.to_string(), &type_names)), &type_names)?));
                                    }
                                }
                                syn::Fields::Named(nf) => {
                                    all_unit = false;
                                    for f in &nf.named {
                                        if let Some(len) = array_len_of(&f.ty) {
                                            g.array_lens.insert(
                                                (type_key(path, &e.ident.to_string(), &type_names), v.ident.to_string(), f.ident.as_ref().unwrap().to_string()),
                                                len,
                                            );
                                        }
                                        fields.push((
                                            Some(f.ident.as_ref().unwrap().to_string()),
                                            conv_ty(path, &f.ty, Some(&type_key(path, &e.ident.to_string(), &type_names)), &type_names)?,
                                        ));
                                    }
                                }
                            }
                            let discr = match &v.discriminant {
                                Some((_, syn::Expr::Lit(syn::ExprLit { lit: syn::Lit::Int(i), .. }))) => {
                                    let d = i.base10_parse::<u128>().map_err(|_| TErr {
                                        file: path.to_string(),
                                        line: i.span().start().line,
                                        msg: "unsupported discriminant".into(), missing: None })?;
                                    next = d + 1;
                                    Some(d)
                                }
                                Some((_, other)) => return err_at(path, other.span(), "unsupported discriminant expression"),
                                None => {
                                    let d = next;
                                    next += 1;
                                    Some(d)
                                }
                            };
                            variants.push(VariantInfo { name: v.ident.to_string(), fields, discr });
                        }
                        if derives_clone(&e.attrs) {
                            g.derive_clone.insert(type_key(path, &e.ident.to_string(), &type_names));
                        }
                        g.enums.insert(type_key(path, &e.ident.to_string(), &type_names), EnumInfo { group: group.clone(), ns: ns.clone(), name: e.ident.to_string(), variants, all_unit });
                    }
                    Found::Fn(sig, _, _) => {
                        let self_ty = match sel {
                            Sel::Method(t, _) | Sel::TraitFn(_, t, _) => Some(type_key(path, t, &type_names)),
                            Sel::From(d, _) => Some(type_key(path, d, &type_names)),
                            _ => None,
                        };
                        let fn_name = match sel {
                            Sel::From(_, s) => format!("from_{}", s),
                            _ => sig.ident.to_string(),
                        };
                        let mut const_params: Vec<String> = Vec::new();
                        // `I: Into<T>` parameters are values of type `T` (`x.into()` is the identity on them)
                        let mut into_params: BTreeMap<String, syn::Type> = BTreeMap::new();
                        for gp in &sig.generics.params {
                            match gp {
                                syn::GenericParam::Lifetime(_) => {}
                                syn::GenericParam::Type(tp) if tp.bounds.len() == 1 => {
                                    let mut target: Option<syn::Type> = None;
                                    if let syn::TypeParamBound::Trait(tb) = &tp.bounds[0] {
                                        if let Some(seg) = tb.path.segments.last() {
                                            if seg.ident == "Into" {
                                                if let syn::PathArguments::AngleBracketed(ab) = &seg.arguments {
                                                    if ab.args.len() == 1 {
                                                        if let syn::GenericArgument::Type(t) = &ab.args[0] {
                                                            target = Some(t.clone());
                                                        }
                                                    }
                                                }
                                            }
                                        }
                                    }
                                    match target {
                                        Some(t) => {
                                            into_params.insert(tp.ident.to_string(), t);
                                        }
                                        None => return err_at(path, sig.generics.span(), "generic fn is not supported (only lifetimes, `const N: usize` and `I: Into<T>`)"),
                                    }
                                }
                                syn::GenericParam::Const(c) if matches!(&c.ty, syn::Type::Path(tp) if tp.path.is_ident("usize")) => {
                                    const_params.push(c.ident.to_string())
                                }
                                _ => return err_at(path, sig.generics.span(), "generic fn is not supported (only lifetimes and `const N: usize`)"),
                            }
                        }
                        if sig.asyncness.is_some() || sig.unsafety.is_some() {
                            return err_at(path, sig.span(), "async/unsafe fn is not supported");
                        }
                        let mut self_mode = SelfMode::None;
                        let mut params = Vec::new();
                        let mut mut_params = Vec::new();
                        let mut opt_mut_params = Vec::new();
                        let mut ref_ret: Option<(bool, String)> = None;
                        for a in &sig.inputs {
                            match a {
                                syn::FnArg::Receiver(r) => {
                                    self_mode = if r.reference.is_some() && r.mutability.is_some() { SelfMode::Mut } else { SelfMode::Ref };
                                    if r.reference.is_none() && r.mutability.is_some() {
                                        return err_at(path, r.span(), "`mut self` receiver is not supported");
                                    }
                                }
                                syn::FnArg::Typed(pt) => {
                                    let name = match &*pt.pat {
                                        syn::Pat::Ident(pi) if pi.subpat.is_none() && pi.by_ref.is_none() => pi.ident.to_string(),
                                        syn::Pat::Wild(_) => "_".to_string(),
                                        other => return err_at(path, other.span(), "unsupported parameter pattern"),
                                    };
                                    // `&mut` may only occur at the top of a parameter type or as `Option<&mut T>`: a reference
                                    // stored anywhere else would silently become a copy
                                    match &*pt.ty {
                                        syn::Type::Reference(r) => {
                                            if has_mut_ref(&r.elem) {
                                                return err_at(path, pt.ty.span(), "`&mut` reference nested in a parameter type is not supported");
                                            }
                                        }
                                        other => {
                                            if let Some(inner) = option_of_mut_ref(other) {
                                                if has_mut_ref(inner) || name == "_" {
                                                    return err_at(path, pt.ty.span(), "`&mut` reference nested in a parameter type is not supported");
                                                }
                                                mut_params.push(name.clone());
                                                opt_mut_params.push(name.clone());
                                            } else if has_mut_ref(other) {
                                                return err_at(
                                                    path,
                                                    pt.ty.span(),
                                                    "`&mut` reference stored in a parameter type (other than `Option<&mut T>`) is not supported",
                                                );
                                            }
                                        }
                                    }
                                    if let syn::Type::Reference(r) = &*pt.ty {
                                        // `&UdpSocket`: the OS socket is mutated through shared references (`send_to(&self)`,
                                        // `recv_from(&self)`): the model socket is threaded through like a `&mut`
                                        let is_socket = matches!(&*r.elem, syn::Type::Path(tp) if tp.path.segments.last().map(|x| x.ident == "UdpSocket").unwrap_or(false));
                                        if r.mutability.is_none() && is_socket {
                                            if name == "_" {
                                                return err_at(path, pt.ty.span(), "unnamed `&UdpSocket` parameter");
                                            }
                                            mut_params.push(name.clone());
                                        }
                                        if r.mutability.is_some() {
                                            // cursors of the semantic models and plain integers are threaded through
                                            // (so is a translated struct: the borrow checker keeps it disjoint from `self`
                                            // and from every other argument)
                                            let int_ref = matches!(
                                                conv_ty(path, &r.elem, self_ty.as_deref(), &type_names),
                                                Ok(Ty::Int(_)) | Ok(Ty::Named(_)) | Ok(Ty::List(_, _))
                                            );
                                            if !(is_model_type(&r.elem) || int_ref) || name == "_" {
                                                return err_at(
                                                    path,
                                                    pt.ty.span(),
                                                    "`&mut` parameter (other than self, a semantic-model cursor, an unsigned integer or a translated struct) is not supported",
                                                );
                                            }
                                            mut_params.push(name.clone());
                                        }
                                    }
                                    let decl_ty: &syn::Type = match &*pt.ty {
                                        syn::Type::Path(tp) if tp.qself.is_none() && tp.path.segments.len() == 1 => {
                                            into_params.get(&tp.path.segments[0].ident.to_string()).unwrap_or(&pt.ty)
                                        }
                                        _ => &pt.ty,
                                    };
                                    params.push((name, conv_ty(path, decl_ty, self_ty.as_deref(), &type_names)?));
                                }
                            }
                        }
                        let ret = match &sig.output {
                            syn::ReturnType::Default => Ty::Unit,
                            syn::ReturnType::Type(_, t) => {
                                let disp_name = match &self_ty {
                                    Some(st) => format!("{}::{}", simple_of(st), fn_name),
                                    None => fn_name.clone(),
                                };
                                let ret_ok = crate::manifest::BORROWED_RETURN_OK.iter().any(|(f, n, _)| *f == path && *n == disp_name);
                                if has_mut_ref(t) && !ret_ok {
                                    // a finder: `Option<&mut T>` / `Option<(usize, &mut T)>` into the single `&mut [Option<T>]`
                                    // parameter; represented by the position of the element (see `Cx::finder_body`)
                                    let shape = finder_shape(t);
                                    let slice_params: Vec<String> = sig
                                        .inputs
                                        .iter()
                                        .filter_map(|a| match a {
                                            syn::FnArg::Typed(pt) => match (&*pt.pat, &*pt.ty) {
                                                (syn::Pat::Ident(pi), syn::Type::Reference(r)) if r.mutability.is_some() && matches!(&*r.elem, syn::Type::Slice(_)) => {
                                                    Some(pi.ident.to_string())
                                                }
                                                _ => None,
                                            },
                                            _ => None,
                                        })
                                        .collect();
                                    match (shape, slice_params.len(), self_mode) {
                                        (Some(with_index), 1, SelfMode::None) if mut_params.len() == 1 && mut_params[0] == slice_params[0] => {
                                            ref_ret = Some((with_index, slice_params[0].clone()));
                                            mut_params.clear();
                                            Ty::Opt(Box::new(Ty::usize()))
                                        }
                                        _ => {
                                            return err_at(
                                                path,
                                                t.span(),
                                                "a `&mut` reference in the return type is only supported for a finder `fn(&mut [Option<T>], ..) -> Option<&mut T>` / `Option<(usize, &mut T)>`",
                                            )
                                        }
                                    }
                                } else {
                                    conv_ty(path, t, self_ty.as_deref(), &type_names)?
                                }
                            }
                        };
                        if let Sel::From(d, s) = sel {
                            // (the source type as the impl names it: `impl From<renet::DisconnectReason> for ..`)
                            let src_key = match params.first() {
                                Some((_, Ty::Named(k))) => k.clone(),
                                _ => type_key(path, s, &type_names),
                            };
                            g.from_impls.push((src_key, type_key(path, d, &type_names), (self_ty.clone(), fn_name.clone())));
                        }
                        g.fns.entry((self_ty.clone(), fn_name.clone())).or_default().push(FnInfo {
                            group: group.clone(),
                            ns: ns.clone(),
                            self_ty,
                            name: fn_name,
                            self_mode,
                            params,
                            err_state: matches!(ret, Ty::Res(_, _)) && (self_mode == SelfMode::Mut || !mut_params.is_empty()),
                            mut_params,
                            opt_mut_params,
                            field_clash: false,
                            ref_ret,
                            const_params,
                            ret,
                            order,
                        });
                    }
                }
            }
        }
        Ok(())
    }
}

fn borrowed_ok(file: &str, ty: &str) -> bool {
    crate::manifest::BORROWED_FIELDS_OK.iter().any(|(f, t, _)| *f == file && *t == ty)
}

/// `Option<&mut T>` → `Some(false)`, `Option<(usize, &mut T)>` → `Some(true)`
fn finder_shape(t: &syn::Type) -> Option<bool> {
    if let syn::Type::Path(p) = t {
        let last = p.path.segments.last()?;
        if last.ident == "Option" {
            let args = generic_args(last);
            if args.len() == 1 {
                match args[0] {
                    syn::Type::Reference(r) if r.mutability.is_some() && !has_mut_ref(&r.elem) => return Some(false),
                    syn::Type::Tuple(tt) if tt.elems.len() == 2 => {
                        let is_usize = matches!(&tt.elems[0], syn::Type::Path(pp) if pp.path.is_ident("usize"));
                        if let syn::Type::Reference(r) = &tt.elems[1] {
                            if is_usize && r.mutability.is_some() && !has_mut_ref(&r.elem) {
                                return Some(true);
                            }
                        }
                    }
                    _ => {}
                }
            }
        }
    }
    None
}

/// does the type mention a `&mut` reference anywhere?
pub fn has_mut_ref(t: &syn::Type) -> bool {
    match t {
        syn::Type::Reference(r) => r.mutability.is_some() || has_mut_ref(&r.elem),
        syn::Type::Paren(p) => has_mut_ref(&p.elem),
        syn::Type::Group(p) => has_mut_ref(&p.elem),
        syn::Type::Slice(s) => has_mut_ref(&s.elem),
        syn::Type::Array(a) => has_mut_ref(&a.elem),
        syn::Type::Tuple(tt) => tt.elems.iter().any(has_mut_ref),
        syn::Type::Path(p) => p.path.segments.iter().any(|seg| generic_args(seg).into_iter().any(has_mut_ref)),
        _ => false,
    }
}

/// `Option<&mut T>`: the `T`
pub fn option_of_mut_ref(t: &syn::Type) -> Option<&syn::Type> {
    if let syn::Type::Path(p) = t {
        let last = p.path.segments.last()?;
        if last.ident == "Option" {
            let args = generic_args(last);
            if args.len() == 1 {
                if let syn::Type::Reference(r) = args[0] {
                    if r.mutability.is_some() {
                        return Some(&r.elem);
                    }
                }
            }
        }
    }
    None
}

/// by-value semantic models (`&mut` parameters of these types are threaded through)
pub fn is_model_type(t: &syn::Type) -> bool {
    match t {
        syn::Type::Path(p) => p.path.segments.last().map(|s| s.ident == "OctetsMut" || s.ident == "Octets").unwrap_or(false),
        syn::Type::ImplTrait(_) => impl_trait_model(t).is_some(),
        _ => false,
    }
}

/// `impl io::Read` / `impl io::Write` parameters stand for the cursor models of RustSem (the only readers /
/// writers the selected code is called with are `io::Cursor`s over byte slices)
pub fn impl_trait_model(t: &syn::Type) -> Option<&'static str> {
    if let syn::Type::ImplTrait(it) = t {
        if it.bounds.len() == 1 {
            if let syn::TypeParamBound::Trait(tb) = &it.bounds[0] {
                let last = tb.path.segments.last()?.ident.to_string();
                return match last.as_str() {
                    "Read" => Some("ReadCursor"),
                    "Write" => Some("WriteCursor"),
                    _ => None,
                };
            }
        }
    }
    None
}

pub const BUILTIN_NS: &str = "RustSem";

/// semantic-model methods whose failure leaves the cursor in a changed state (their `Err` carries it); all other
/// model methods fail before touching the cursor
pub const ERR_STATE_BUILTINS: &[(&str, &str)] = &[("WriteCursor", "write_all"), ("Octets", "get_bytes_with_varint_length")];

/// The semantic-model types of RustSem and their methods (hand-written in RustSem.lean, trusted):
/// `std::ops::Range<u64>`, `octets::{OctetsMut, Octets, BufferTooShortError}`.
fn register_builtins(g: &mut Globals) {
    let ns = BUILTIN_NS.to_string();
    g.structs.insert(
        "Range".into(),
        StructInfo { group: String::new(), ns: ns.clone(), name: "Range".into(), fields: vec![("start".into(), Ty::Int(64)), ("end".into(), Ty::Int(64))], view: false, ignored: vec![] },
    );
    for n in ["OctetsMut", "Octets", "BufferTooShortError", "ReadCursor", "WriteCursor", "UdpSocket"] {
        g.structs.insert(n.into(), StructInfo { group: String::new(), ns: ns.clone(), name: n.into(), fields: vec![], view: false, ignored: vec![] });
    }
    let bts = Ty::Named("BufferTooShortError".into());
    let bytes = Ty::List(Box::new(Ty::u8()), ListKind::Slice);
    let mut add = |st: &str, name: &str, mode: SelfMode, params: Vec<(&str, Ty)>, ret: Ty| {
        g.fns.entry((Some(st.to_string()), name.to_string())).or_default().push(FnInfo {
            group: String::new(),
            ns: ns.clone(),
            self_ty: Some(st.to_string()),
            name: name.to_string(),
            self_mode: mode,
            params: params.into_iter().map(|(a, b)| (a.to_string(), b)).collect(),
            mut_params: vec![],
            opt_mut_params: vec![],
            field_clash: false,
            ref_ret: None,
            const_params: vec![],
            err_state: ERR_STATE_BUILTINS.contains(&(st, name)),
            ret,
            order: 0,
        });
    };
    let res = |t: Ty| Ty::Res(Box::new(t), Box::new(bts.clone()));
    add("OctetsMut", "put_u8", SelfMode::Mut, vec![("v", Ty::Int(8))], res(Ty::Unit));
    add("OctetsMut", "put_u16", SelfMode::Mut, vec![("v", Ty::Int(16))], res(Ty::Unit));
    add("OctetsMut", "put_u32", SelfMode::Mut, vec![("v", Ty::Int(32))], res(Ty::Unit));
    add("OctetsMut", "put_u64", SelfMode::Mut, vec![("v", Ty::Int(64))], res(Ty::Unit));
    add("OctetsMut", "put_varint", SelfMode::Mut, vec![("v", Ty::Int(64))], res(Ty::Unit));
    add("OctetsMut", "put_bytes", SelfMode::Mut, vec![("v", bytes.clone())], res(Ty::Unit));
    let io_err = Ty::Opaque("RustSem.IoError".into());
    let iores = |t: Ty| Ty::Res(Box::new(t), Box::new(io_err.clone()));
    add("WriteCursor", "write_all", SelfMode::Mut, vec![("buf", bytes.clone())], iores(Ty::Unit));
    add("WriteCursor", "write", SelfMode::Mut, vec![("buf", bytes.clone())], iores(Ty::Int(64)));
    add("ReadCursor", "set_position", SelfMode::Mut, vec![("pos", Ty::Int(64))], Ty::Unit);
    add("WriteCursor", "set_position", SelfMode::Mut, vec![("pos", Ty::Int(64))], Ty::Unit);
    add("Octets", "get_u8", SelfMode::Mut, vec![], res(Ty::Int(8)));

    add("Octets", "get_u16", SelfMode::Mut, vec![], res(Ty::Int(16)));
    add("Octets", "get_u32", SelfMode::Mut, vec![], res(Ty::Int(32)));
    add("Octets", "get_u64", SelfMode::Mut, vec![], res(Ty::Int(64)));
    add("Octets", "get_varint", SelfMode::Mut, vec![], res(Ty::Int(64)));
    add("Octets", "get_bytes", SelfMode::Mut, vec![("len", Ty::Int(64))], res(Ty::Named("Octets".into())));
    add("Octets", "get_bytes_with_varint_length", SelfMode::Mut, vec![], res(Ty::Named("Octets".into())));
    // `renetcode/src/crypto.rs`: EXTERNAL interface (not translated), mapped to the abstract AEAD parameter `RustSem.Aead`
    {
        let cerr = Ty::Opaque("RustSem.CryptoError".into());
        let bytes_slice = Ty::List(Box::new(Ty::u8()), ListKind::Slice);
        let arr = Ty::List(Box::new(Ty::u8()), ListKind::Array);
        for (name, second) in [
            ("encrypt_in_place", ("sequence", Ty::Int(64))),
            ("dencrypted_in_place", ("sequence", Ty::Int(64))),
            ("encrypt_in_place_xnonce", ("xnonce", arr.clone())),
            ("dencrypted_in_place_xnonce", ("xnonce", arr.clone())),
        ] {
            g.fns.entry((None, name.to_string())).or_default().push(FnInfo {
                group: String::new(),
                ns: BUILTIN_NS.to_string(),
                self_ty: None,
                name: name.to_string(),
                self_mode: SelfMode::None,
                params: vec![
                    ("buffer".to_string(), bytes_slice.clone()),
                    (second.0.to_string(), second.1.clone()),
                    ("private_key".to_string(), arr.clone()),
                    ("aad".to_string(), bytes_slice.clone()),
                ],
                mut_params: vec!["buffer".to_string()],
                opt_mut_params: vec![],
            field_clash: false,
            ref_ret: None,
                const_params: vec![],
                err_state: true,
                ret: Ty::Res(Box::new(Ty::Unit), Box::new(cerr.clone())),
                order: 0,
            });
        }
    }
    // the RustCrypto interface that `renetcode/src/crypto.rs` itself is written against (group NcCrypto translates that
    // file): `chacha20poly1305::{ChaCha20Poly1305, XChaCha20Poly1305}` are model types (the cipher = its key) whose
    // detached in-place operations are defined from the abstract `RustSem.Aead` in `Base/RustSemCrypto.lean`;
    // `Key` / `Tag` / `Nonce` / `XNonce` (`GenericArray<u8, N>`) are byte arrays, their constructors check the length
    {
        let cerr = Ty::Opaque("RustSem.CryptoError".into());
        let bytes_slice = Ty::List(Box::new(Ty::u8()), ListKind::Slice);
        let arr = Ty::List(Box::new(Ty::u8()), ListKind::Array);
        for n in ["ChaCha20Poly1305", "XChaCha20Poly1305", "Key", "Tag", "Nonce", "XNonce"] {
            g.structs.insert(n.into(), StructInfo { group: String::new(), ns: BUILTIN_NS.to_string(), name: n.into(), fields: vec![], view: false, ignored: vec![] });
        }
        let mk = |st: &str, name: &str, mode: SelfMode, params: Vec<(&str, Ty)>, mut_params: Vec<&str>, err_state: bool, ret: Ty| FnInfo {
            group: String::new(),
            ns: BUILTIN_NS.to_string(),
            self_ty: Some(st.to_string()),
            name: name.to_string(),
            self_mode: mode,
            params: params.into_iter().map(|(a, b)| (a.to_string(), b)).collect(),
            mut_params: mut_params.into_iter().map(|x| x.to_string()).collect(),
            opt_mut_params: vec![],
            field_clash: false,
            ref_ret: None,
            const_params: vec![],
            err_state,
            ret,
            order: 0,
        };
        let mut entries: Vec<FnInfo> = Vec::new();
        for cipher in ["ChaCha20Poly1305", "XChaCha20Poly1305"] {
            entries.push(mk(cipher, "new", SelfMode::None, vec![("key", arr.clone())], vec![], false, Ty::Named(cipher.to_string())));
            entries.push(mk(
                cipher,
                "encrypt_in_place_detached",
                SelfMode::Ref,
                vec![("nonce", arr.clone()), ("associated_data", bytes_slice.clone()), ("buffer", bytes_slice.clone())],
                vec!["buffer"],
                true,
                Ty::Res(Box::new(arr.clone()), Box::new(cerr.clone())),
            ));
            entries.push(mk(
                cipher,
                "decrypt_in_place_detached",
                SelfMode::Ref,
                vec![("nonce", arr.clone()), ("associated_data", bytes_slice.clone()), ("buffer", bytes_slice.clone()), ("tag", arr.clone())],
                vec!["buffer"],
                true,
                Ty::Res(Box::new(Ty::Unit), Box::new(cerr.clone())),
            ));
        }
        entries.push(mk("Key", "from_slice", SelfMode::None, vec![("slice", bytes_slice.clone())], vec![], false, arr.clone()));
        entries.push(mk("Tag", "from_slice", SelfMode::None, vec![("slice", bytes_slice.clone())], vec![], false, arr.clone()));
        entries.push(mk("XNonce", "from_slice", SelfMode::None, vec![("slice", bytes_slice.clone())], vec![], false, arr.clone()));
        entries.push(mk("Nonce", "from", SelfMode::None, vec![("arr", arr.clone())], vec![], false, arr.clone()));
        for e in entries {
            g.fns.entry((e.self_ty.clone(), e.name.clone())).or_default().push(e);
        }
    }
    // `std::net::UdpSocket` (semantic model): `recv_from` pops the next event of the inbox script into the caller's buffer,
    // `send_to` appends to the outbox log, `set_nonblocking` does nothing; `pending` (model only: fuel of receive loops)
    {
        let io_err = Ty::Opaque("RustSem.IoError".into());
        let bytes_slice = Ty::List(Box::new(Ty::u8()), ListKind::Slice);
        let addr = Ty::Opaque("RustSem.SocketAddr".into());
        let mk = |name: &str, mode: SelfMode, params: Vec<(&str, Ty)>, mut_params: Vec<&str>, err_state: bool, ret: Ty| FnInfo {
            group: String::new(),
            ns: BUILTIN_NS.to_string(),
            self_ty: Some("UdpSocket".to_string()),
            name: name.to_string(),
            self_mode: mode,
            params: params.into_iter().map(|(a, b)| (a.to_string(), b)).collect(),
            mut_params: mut_params.into_iter().map(|x| x.to_string()).collect(),
            opt_mut_params: vec![],
            field_clash: false,
            ref_ret: None,
            const_params: vec![],
            err_state,
            ret,
            order: 0,
        };
        let entries = vec![
            mk(
                "recv_from",
                SelfMode::Mut,
                vec![("buf", bytes_slice.clone())],
                vec!["buf"],
                true,
                Ty::Res(Box::new(Ty::Tuple(vec![Ty::usize(), addr.clone()])), Box::new(io_err.clone())),
            ),
            mk(
                "send_to",
                SelfMode::Mut,
                vec![("buf", bytes_slice.clone()), ("addr", addr.clone())],
                vec![],
                true,
                Ty::Res(Box::new(Ty::usize()), Box::new(io_err.clone())),
            ),
            mk("set_nonblocking", SelfMode::Mut, vec![("nonblocking", Ty::Bool)], vec![], true, Ty::Res(Box::new(Ty::Unit), Box::new(io_err.clone()))),
            mk("pending", SelfMode::Ref, vec![], vec![], false, Ty::usize()),
        ];
        for e in entries {
            g.fns.entry((Some("UdpSocket".to_string()), e.name.clone())).or_default().push(e);
        }
    }
    // free function `octets::varint_len`
    g.fns.entry((None, "varint_len".to_string())).or_default().push(FnInfo {
        group: String::new(),
        ns: BUILTIN_NS.to_string(),
        self_ty: None,
        name: "varint_len".to_string(),
        self_mode: SelfMode::None,
        params: vec![("v".to_string(), Ty::Int(64))],
        mut_params: vec![],
        opt_mut_params: vec![],
            field_clash: false,
            ref_ret: None,
        const_params: vec![],
        err_state: false,
        ret: Ty::usize(),
        order: 0,
    });
}

fn path_segments(p: &syn::Path) -> Vec<String> {
    p.segments.iter().map(|s| s.ident.to_string()).collect()
}

fn generic_args(seg: &syn::PathSegment) -> Vec<&syn::Type> {
    match &seg.arguments {
        syn::PathArguments::AngleBracketed(a) => a
            .args
            .iter()
            .filter_map(|x| match x {
                syn::GenericArgument::Type(t) => Some(t),
                _ => None,
            })
            .collect(),
        _ => Vec::new(),
    }
}

/// Rust type -> `Ty` (references are transparent)
pub fn conv_ty(file: &str, t: &syn::Type, self_ty: Option<&str>, type_names: &[String]) -> R<Ty> {
    match t {
        syn::Type::Reference(r) => conv_ty(file, &r.elem, self_ty, type_names),
        syn::Type::ImplTrait(it) => match impl_trait_model(t) {
            Some(n) => Ok(Ty::Named(n.to_string())),
            None => {
                // `impl Iterator<Item = T> + '_`: the list of its items (see the RustSem header: evaluated eagerly)
                for b in &it.bounds {
                    if let syn::TypeParamBound::Trait(tb) = b {
                        if let Some(seg) = tb.path.segments.last() {
                            if seg.ident == "Iterator" {
                                if let syn::PathArguments::AngleBracketed(a) = &seg.arguments {
                                    for x in &a.args {
                                        if let syn::GenericArgument::AssocType(at) = x {
                                            if at.ident == "Item" {
                                                let e = conv_ty(file, &at.ty, self_ty, type_names)?;
                                                return Ok(Ty::List(Box::new(e), ListKind::Iter));
                                            }
                                        }
                                    }
                                }
                            }
                        }
                    }
                }
                err_at(file, t.span(), "unsupported `impl Trait` (only `impl io::Read` / `impl io::Write` / `impl Iterator<Item = T>`)")
            }
        },
        syn::Type::Paren(p) => conv_ty(file, &p.elem, self_ty, type_names),
        syn::Type::Group(p) => conv_ty(file, &p.elem, self_ty, type_names),
        syn::Type::Slice(s) => Ok(Ty::List(Box::new(conv_ty(file, &s.elem, self_ty, type_names)?), ListKind::Slice)),
        syn::Type::Array(a) => Ok(Ty::List(Box::new(conv_ty(file, &a.elem, self_ty, type_names)?), ListKind::Array)),
        syn::Type::Tuple(tp) => {
            if tp.elems.is_empty() {
                Ok(Ty::Unit)
            } else {
                let mut v = Vec::new();
                for e in &tp.elems {
                    v.push(conv_ty(file, e, self_ty, type_names)?);
                }
                Ok(Ty::Tuple(v))
            }
        }
        syn::Type::Path(tp) if tp.qself.is_none() => {
            let segs = path_segments(&tp.path);
            let last = tp.path.segments.last().unwrap();
            let name = last.ident.to_string();
            for (pat, lean) in OPAQUE_TYPES {
                if segs.len() >= pat.len() && segs[segs.len() - pat.len()..].iter().zip(pat.iter()).all(|(a, b)| a == b) {
                    return Ok(Ty::Opaque(lean.to_string()));
                }
            }
            if name == "Ipv4Addr" || name == "Ipv6Addr" {
                // `std::net::Ipv4Addr` / `Ipv6Addr`: the array of their octets
                return Ok(Ty::List(Box::new(Ty::u8()), ListKind::Array));
            }
            if segs.len() == 1 {
                if let Some(w) = int_width(&name) {
                    return Ok(Ty::Int(w));
                }
                if name == "bool" {
                    return Ok(Ty::Bool);
                }
                if name == "i32" {
                    return Ok(Ty::SInt(32));
                }
                if name == "Self" {
                    return match self_ty {
                        // `impl From<T> for u8 { fn from(..) -> Self }`: `Self` is the primitive integer type
                        Some(s) if int_width(s).is_some() => Ok(Ty::Int(int_width(s).unwrap())),
                        Some(s) => Ok(Ty::Named(s.to_string())),
                        None => err_at(file, t.span(), "`Self` outside an impl"),
                    };
                }
            }
            let args = generic_args(last);
            if name == "Duration" && args.is_empty() {
                return Ok(Ty::Dur);
            }
            if name == "UdpSocket" && args.is_empty() {
                // `std::net::UdpSocket`: the semantic-model socket (see the RustSem header)
                return Ok(Ty::Named("UdpSocket".into()));
            }
            match (name.as_str(), args.len()) {
                ("Box", 1) => return conv_ty(file, args[0], self_ty, type_names),
                ("Vec", 1) | ("VecDeque", 1) => return Ok(Ty::List(Box::new(conv_ty(file, args[0], self_ty, type_names)?), ListKind::Vec)),
                ("Option", 1) => return Ok(Ty::Opt(Box::new(conv_ty(file, args[0], self_ty, type_names)?))),
                ("Result", 2) => {
                    return Ok(Ty::Res(
                        Box::new(conv_ty(file, args[0], self_ty, type_names)?),
                        Box::new(conv_ty(file, args[1], self_ty, type_names)?),
                    ))
                }
                ("Bytes", 0) => return Ok(Ty::List(Box::new(Ty::u8()), ListKind::Bytes)),
                ("BTreeMap", 2) | ("HashMap", 2) => {
                    let k = conv_ty(file, args[0], self_ty, type_names)?;
                    // integer keys: the key-sorted `RustSem.Map`; a `HashMap<SocketAddr, _>`: the association list
                    // `RustSem.AMap` (its iteration order is as unspecified as the HashMap's: same whitelist rules)
                    let addr_key = name == "HashMap" && matches!(&k, Ty::Opaque(o) if o == "RustSem.SocketAddr");
                    if !matches!(k, Ty::Int(_)) && !addr_key {
                        return err_at(file, t.span(), "only maps with an unsigned integer key (or `HashMap<SocketAddr, _>`) are supported");
                    }
                    let v = conv_ty(file, args[1], self_ty, type_names)?;
                    return Ok(Ty::Map(Box::new(k), Box::new(v), name == "HashMap"));
                }
                ("BTreeSet", 1) => {
                    let k = conv_ty(file, args[0], self_ty, type_names)?;
                    if !matches!(k, Ty::Int(_)) {
                        return err_at(file, t.span(), "only sets of unsigned integers are supported");
                    }
                    return Ok(Ty::Set(Box::new(k)));
                }
                ("Range", 1) => {
                    return match conv_ty(file, args[0], self_ty, type_names)? {
                        Ty::Int(64) => Ok(Ty::Named("Range".into())),
                        _ => err_at(file, t.span(), "only `Range<u64>` is supported"),
                    }
                }
                _ => {}
            }
            if let Some(k) = type_key_path(&segs, type_names) {
                return Ok(Ty::Named(k));
            }
            let name = type_key(file, &name, type_names);
            if type_names.iter().any(|n| *n == name) {
                return Ok(Ty::Named(name));
            }
            // a selected `type Name = T;` of this crate
            if let Some(t) = ALIASES.with(|a| a.borrow().get(&(crate_of(file).to_string(), name.clone())).cloned()) {
                return Ok(t);
            }
            // … or of another crate (imported with `use`), when the name is unambiguous
            let others: Vec<Ty> = ALIASES.with(|a| a.borrow().iter().filter(|((_, n), _)| *n == name).map(|(_, t)| t.clone()).collect());
            if others.len() == 1 {
                return Ok(others[0].clone());
            }
            err_at(file, t.span(), format!("unsupported type `{}`", quote::quote!(#t)))
        }
        _ => err_at(file, t.span(), format!("unsupported type `{}`", quote::quote!(#t))),
    }
}
