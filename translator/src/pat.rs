//! Patterns (`match` arms, `if let`, `matches!`, tuple `let`).

use super::cx::Cx;
use super::lean_type_name;
use crate::ty::{lean_ident, Ty};
use crate::R;
use syn::spanned::Spanned;

impl<'g> Cx<'g> {
    /// enum (simple name) + variant for a path used as pattern / expression
    pub fn resolve_variant(&self, path: &syn::Path) -> Option<(String, String)> {
        let segs: Vec<String> = path.segments.iter().map(|s| s.ident.to_string()).collect();
        match segs.len() {
            1 => {
                for en in self.glob_enums.iter().rev() {
                    if let Some(e) = self.g.enums.get(en) {
                        if e.variants.iter().any(|v| v.name == segs[0]) {
                            return Some((en.clone(), segs[0].clone()));
                        }
                    }
                }
                None
            }
            n => {
                let mut en = segs[n - 2].clone();
                if en == "Self" {
                    en = self.self_ty.clone()?;
                } else {
                    en = self.g.tkey(&self.file, &en);
                }
                let e = self.g.enums.get(&en)?;
                if e.variants.iter().any(|v| v.name == segs[n - 1]) {
                    Some((en, segs[n - 1].clone()))
                } else {
                    None
                }
            }
        }
    }

    pub fn variant_lean(&self, en: &str, v: &str) -> String {
        format!("{}.{}", lean_type_name(self.g, &self.ns, en), lean_ident(v))
    }

    /// Lean pattern text and the variables it binds
    pub fn pat(&self, p: &syn::Pat, scrut: &Ty) -> R<(String, Vec<(String, Ty)>)> {
        match p {
            syn::Pat::Wild(_) => Ok(("_".into(), vec![])),
            syn::Pat::Paren(pp) => self.pat(&pp.pat, scrut),
            syn::Pat::Reference(r) => self.pat(&r.pat, scrut),
            syn::Pat::Lit(l) => match &l.lit {
                syn::Lit::Int(i) => {
                    if !scrut.is_int() {
                        return self.bail(p.span(), "integer pattern on a value that is not an integer");
                    }
                    Ok((Self::int_lit_text(i), vec![]))
                }
                syn::Lit::Bool(b) => Ok((if b.value { "true".into() } else { "false".into() }, vec![])),
                _ => self.bail(p.span(), "unsupported literal pattern"),
            },
            syn::Pat::Ident(pi) => {
                if pi.subpat.is_some() {
                    return self.bail(p.span(), "`x @ pat` is not supported");
                }
                if pi.by_ref.is_some() && pi.mutability.is_some() {
                    return self.bail(p.span(), "`ref mut` bindings are not supported");
                }
                let name = pi.ident.to_string();
                let path: syn::Path = pi.ident.clone().into();
                if let Some((en, v)) = self.resolve_variant(&path) {
                    return Ok((self.variant_lean(&en, &v), vec![]));
                }
                if name == "None" {
                    return Ok(("none".into(), vec![]));
                }
                if self.g.consts.contains_key(&name) {
                    return self.bail(p.span(), "constant used as pattern is not supported");
                }
                self.check_local_name(&name, p.span())?;
                Ok((lean_ident(&name), vec![(name, scrut.clone())]))
            }
            syn::Pat::Path(pp) => {
                if let Some((en, v)) = self.resolve_variant(&pp.path) {
                    return Ok((self.variant_lean(&en, &v), vec![]));
                }
                if pp.path.is_ident("None") {
                    return Ok(("none".into(), vec![]));
                }
                self.bail(p.span(), "unsupported path pattern")
            }
            syn::Pat::TupleStruct(ts) => {
                // `SocketAddr::V4(a)` / `SocketAddr::V6(a)`: `a` is the address itself, known to be of that variant
                if let Ty::Opaque(o) = scrut {
                    let segs: Vec<String> = ts.path.segments.iter().map(|x| x.ident.to_string()).collect();
                    let n = segs.len();
                    if o == "RustSem.SocketAddr" && n >= 2 && segs[n - 2] == "SocketAddr" && ts.elems.len() == 1 && (segs[n - 1] == "V4" || segs[n - 1] == "V6") {
                        let v4 = segs[n - 1] == "V4";
                        let shape = if v4 { "RustSem.SocketAddr.v4 _ _" } else { "RustSem.SocketAddr.v6 _ _ _ _" };
                        let vt = Ty::Opaque(if v4 { "RustSem.SocketAddrV4".into() } else { "RustSem.SocketAddrV6".into() });
                        return match &ts.elems[0] {
                            syn::Pat::Ident(pi) if pi.subpat.is_none() => {
                                let name = pi.ident.to_string();
                                self.check_local_name(&name, p.span())?;
                                Ok((format!("{}@({})", lean_ident(&name), shape), vec![(name, vt)]))
                            }
                            syn::Pat::Wild(_) => Ok((shape.to_string(), vec![])),
                            o => self.bail(o.span(), "unsupported pattern inside `SocketAddr::V4(..)` / `V6(..)`"),
                        };
                    }
                }
                // `Ok(p)` / `Err(p)` on a `Result` value
                if (ts.path.is_ident("Ok") || ts.path.is_ident("Err")) && ts.elems.len() == 1 {
                    if let Ty::Res(a, b) = scrut {
                        let ok = ts.path.is_ident("Ok");
                        let inner: &Ty = if ok { a } else { b };
                        let (s, binds) = self.pat(&ts.elems[0], inner)?;
                        return Ok((format!("{} {}", if ok { "Except.ok" } else { "Except.error" }, Self::paren_pat(&s)), binds));
                    }
                }
                if ts.path.is_ident("Some") && ts.elems.len() == 1 {
                    let inner = match scrut {
                        Ty::Opt(t) => (**t).clone(),
                        _ => return self.bail(p.span(), "`Some(..)` pattern on a value that is not an Option"),
                    };
                    let (s, b) = self.pat(&ts.elems[0], &inner)?;
                    return Ok((format!("some {}", Self::paren_pat(&s)), b));
                }
                if let Some((en, v)) = self.resolve_variant(&ts.path) {
                    let info = self.g.enums.get(&en).unwrap().variants.iter().find(|x| x.name == v).unwrap().clone();
                    if info.fields.len() != ts.elems.len() {
                        return self.bail(p.span(), "wrong number of fields in variant pattern");
                    }
                    let mut s = self.variant_lean(&en, &v);
                    let mut binds = Vec::new();
                    for (e, (_, ft)) in ts.elems.iter().zip(info.fields.iter()) {
                        let (ps, b) = self.pat(e, ft)?;
                        s.push(' ');
                        s.push_str(&Self::paren_pat(&ps));
                        binds.extend(b);
                    }
                    return Ok((s, binds));
                }
                self.bail(p.span(), "unsupported tuple-struct pattern")
            }
            syn::Pat::Struct(ps) => {
                if let Some((en, v)) = self.resolve_variant(&ps.path) {
                    let info = self.g.enums.get(&en).unwrap().variants.iter().find(|x| x.name == v).unwrap().clone();
                    let mut s = self.variant_lean(&en, &v);
                    let mut binds = Vec::new();
                    for (fname, fty) in &info.fields {
                        let fname = fname.clone().unwrap_or_default();
                        match ps.fields.iter().find(|fp| matches!(&fp.member, syn::Member::Named(id) if *id == fname)) {
                            Some(fp) => {
                                let (t, b) = self.pat(&fp.pat, fty)?;
                                s.push(' ');
                                s.push_str(&Self::paren_pat(&t));
                                binds.extend(b);
                            }
                            None => {
                                if ps.rest.is_none() {
                                    return self.bail(p.span(), "missing field in struct pattern");
                                }
                                s.push_str(" _");
                            }
                        }
                    }
                    return Ok((s, binds));
                }
                self.bail(p.span(), "unsupported struct pattern")
            }
            syn::Pat::Or(o) => {
                // every alternative must bind the same variables with the same types (as in Rust)
                let mut parts = Vec::new();
                let mut binds: Option<Vec<(String, Ty)>> = None;
                for c in &o.cases {
                    let (s, b) = self.pat(c, scrut)?;
                    let mut sorted = b.clone();
                    sorted.sort_by(|x, y| x.0.cmp(&y.0));
                    match &binds {
                        None => binds = Some(b),
                        Some(first) => {
                            let mut f = first.clone();
                            f.sort_by(|x, y| x.0.cmp(&y.0));
                            if format!("{:?}", f) != format!("{:?}", sorted) {
                                return self.bail(p.span(), "the alternatives of an or-pattern bind different variables");
                            }
                        }
                    }
                    parts.push(s);
                }
                Ok((parts.join(" | "), binds.unwrap_or_default()))
            }
            syn::Pat::Tuple(t) => {
                let tys = match scrut {
                    Ty::Tuple(ts) if ts.len() == t.elems.len() => ts.clone(),
                    _ => return self.bail(p.span(), "tuple pattern on a value that is not a tuple of that size"),
                };
                // an or-pattern inside a tuple (`(A, X | Y)`) is distributed: `(A, X) | (A, Y)` (Lean has no nested `|`)
                let mut alts: Vec<Vec<String>> = vec![Vec::new()];
                let mut binds = Vec::new();
                for (e, ty) in t.elems.iter().zip(tys.iter()) {
                    let mut inner: &syn::Pat = e;
                    while let syn::Pat::Paren(pp) = inner {
                        inner = &pp.pat;
                    }
                    let choices: Vec<String> = if let syn::Pat::Or(o) = inner {
                        let mut cs = Vec::new();
                        let mut first: Option<Vec<(String, Ty)>> = None;
                        for c in &o.cases {
                            let (s, b) = self.pat(c, ty)?;
                            let mut sorted = b.clone();
                            sorted.sort_by(|x, y| x.0.cmp(&y.0));
                            match &first {
                                None => {
                                    first = Some(sorted);
                                    binds.extend(b);
                                }
                                Some(f) => {
                                    if format!("{:?}", f) != format!("{:?}", sorted) {
                                        return self.bail(p.span(), "the alternatives of an or-pattern bind different variables");
                                    }
                                }
                            }
                            cs.push(s);
                        }
                        cs
                    } else {
                        let (s, b) = self.pat(e, ty)?;
                        binds.extend(b);
                        vec![s]
                    };
                    let mut next = Vec::new();
                    for a in &alts {
                        for c in &choices {
                            let mut v = a.clone();
                            v.push(c.clone());
                            next.push(v);
                        }
                    }
                    alts = next;
                }
                let strs: Vec<String> = alts.iter().map(|parts| format!("({})", parts.join(", "))).collect();
                Ok((strs.join(" | "), binds))
            }
            _ => self.bail(p.span(), "unsupported pattern"),
        }
    }

    pub fn paren_pat(s: &str) -> String {
        if s.contains(' ') && !s.starts_with('(') {
            format!("({})", s)
        } else {
            s.to_string()
        }
    }

    pub fn int_lit_text(i: &syn::LitInt) -> String {
        let tok = i.token().to_string();
        let suffix = i.suffix();
        let body = tok.strip_suffix(suffix).unwrap_or(&tok);
        body.replace('_', "")
    }
}
