//! Expressions: A-normal form — every operation that can panic becomes a `let t ← RustSem.…`
//! pushed to `stmts` (in evaluation order), the returned text is a pure Lean term.

use super::cx::{Cx, Place, Tail};
use super::lean_type_name;
use crate::doc::{Doc, Stmt};
use crate::globals::{FnInfo, SelfMode};
use crate::ty::{int_width, lean_ident, ListKind, Ty};
use crate::R;
use syn::spanned::Spanned;

fn path_strs(p: &syn::Path) -> Vec<String> {
    p.segments.iter().map(|s| s.ident.to_string()).collect()
}

impl<'g> Cx<'g> {
    pub fn expr(&mut self, e: &syn::Expr, exp: Option<&Ty>, stmts: &mut Vec<Stmt>) -> R<(String, Ty)> {
        match e {
            syn::Expr::Paren(p) => {
                let (t, ty) = self.expr(&p.expr, exp, stmts)?;
                Ok((t, ty))
            }
            syn::Expr::Group(p) => self.expr(&p.expr, exp, stmts),
            syn::Expr::Lit(l) => self.lit(&l.lit, exp, e.span()),
            syn::Expr::Path(p) if p.qself.is_none() => self.path_expr(&p.path, exp, e.span(), stmts),
            syn::Expr::Reference(r) => {
                if r.mutability.is_some() {
                    // `&mut buf[a..b]` in value position (a field of a whitelisted borrowed result type / a whitelisted
                    // borrowed return value): the snapshot of the sub-slice
                    let mut inner: &syn::Expr = &r.expr;
                    while let syn::Expr::Paren(p) = inner {
                        inner = &p.expr;
                    }
                    if let syn::Expr::Index(ix) = inner {
                        if let syn::Expr::Range(rg) = &*ix.index {
                            // a leaf of `let x = match .. { .. => &mut P[lo..hi] }` (see `Cx::range_capture`): yields `hi`
                            if self.range_capture.is_some() {
                                if !matches!(rg.limits, syn::RangeLimits::HalfOpen(_)) {
                                    return self.bail(e.span(), "only half-open ranges are supported for an aliased sub-slice");
                                }
                                let base_txt = |x: &syn::Expr| quote::quote!(#x).to_string();
                                let lo_txt = |x: &Option<Box<syn::Expr>>| x.as_ref().map(|y| quote::quote!(#y).to_string()).unwrap_or_default();
                                let (cb, cl) = self.range_capture.clone().unwrap();
                                match &cb {
                                    None => {
                                        self.range_capture = Some((Some((*ix.expr).clone()), rg.start.as_ref().map(|x| (**x).clone())));
                                    }
                                    Some(b) => {
                                        let same = base_txt(b) == base_txt(&ix.expr) && lo_txt(&cl.map(Box::new)) == lo_txt(&rg.start);
                                        if !same {
                                            return self.bail(e.span(), "the branches alias different sub-slices");
                                        }
                                    }
                                }
                                return match &rg.end {
                                    Some(h) => self.expr(h, Some(&Ty::usize()), stmts),
                                    None => {
                                        let (b, _) = self.expr(&ix.expr, None, stmts)?;
                                        Ok((format!("(RustSem.len {})", b), Ty::usize()))
                                    }
                                };
                            }
                            return self.expr(inner, exp, stmts);
                        }
                    }
                    return self.bail(e.span(), "`&mut` expression is only supported as a call argument, in `let x = &mut place` and as `&mut buf[a..b]` of a borrowed result");
                }
                self.expr(&r.expr, exp, stmts)
            }
            syn::Expr::Unary(u) => match u.op {
                syn::UnOp::Deref(_) => self.expr(&u.expr, exp, stmts),
                syn::UnOp::Not(_) => {
                    let (t, ty) = self.expr(&u.expr, exp, stmts)?;
                    match ty {
                        Ty::Bool => Ok((format!("(!{})", t), Ty::Bool)),
                        Ty::Int(w) => Ok((format!("(RustSem.bnot {} {})", w, t), Ty::Int(w))),
                        _ => self.bail(e.span(), "`!` on a value that is neither bool nor a sized unsigned integer"),
                    }
                }
                _ => self.bail(e.span(), "unary minus is not supported (unsigned integers only)"),
            },
            syn::Expr::Cast(c) => self.cast(c, stmts),
            syn::Expr::Binary(b) => {
                if Self::assign_op(&b.op).is_some() {
                    return self.bail(e.span(), "compound assignment used as an expression");
                }
                self.binary(b, exp, e, stmts)
            }
            syn::Expr::Tuple(t) => {
                if t.elems.is_empty() {
                    return Ok(("()".into(), Ty::Unit));
                }
                let exps: Vec<Option<Ty>> = match exp {
                    Some(Ty::Tuple(ts)) if ts.len() == t.elems.len() => ts.iter().cloned().map(Some).collect(),
                    _ => vec![None; t.elems.len()],
                };
                let mut parts = Vec::new();
                let mut tys = Vec::new();
                for (x, ex) in t.elems.iter().zip(exps.iter()) {
                    let (s, ty) = self.expr(x, ex.as_ref(), stmts)?;
                    parts.push(s);
                    tys.push(match (ty, ex) {
                        (Ty::IntAny, Some(t)) => t.clone(),
                        (t, _) => t,
                    });
                }
                Ok((format!("({})", parts.join(", ")), Ty::Tuple(tys)))
            }
            syn::Expr::Field(f) => {
                let (b, bt) = self.expr(&f.base, None, stmts)?;
                let (fname, fty) = self.field_of(&bt, &f.member, e.span())?;
                Ok((format!("{}.{}", b, lean_ident(&fname)), fty))
            }
            syn::Expr::Index(ix) => {
                let (b, bt) = self.expr(&ix.expr, None, stmts)?;
                let (et, kind) = match bt {
                    Ty::List(t, k) => (*t, k),
                    _ => return self.bail(ix.expr.span(), "indexing a value that is not an array / Vec / slice"),
                };
                let site = self.site(e);
                if let syn::Expr::Range(r) = &*ix.index {
                    if !matches!(r.limits, syn::RangeLimits::HalfOpen(_)) {
                        return self.bail(r.span(), "only half-open ranges are supported");
                    }
                    let a = match &r.start {
                        Some(a) => self.expr(a, Some(&Ty::usize()), stmts)?.0,
                        None => "0".to_string(),
                    };
                    let bnd = match &r.end {
                        Some(x) => self.expr(x, Some(&Ty::usize()), stmts)?.0,
                        None => format!("(RustSem.len {})", b),
                    };
                    let t = self.fresh();
                    stmts.push(Stmt::Bind(t.clone(), Doc::atom(format!("RustSem.slice {} {} {} {}", b, a, bnd, site))));
                    let _ = kind;
                    return Ok((t, Ty::List(Box::new(et), ListKind::Slice)));
                }
                let (i, it) = self.expr(&ix.index, Some(&Ty::usize()), stmts)?;
                if !it.is_int() {
                    return self.bail(ix.index.span(), "index is not an integer");
                }
                let t = self.fresh();
                stmts.push(Stmt::Bind(t.clone(), Doc::atom(format!("RustSem.index {} {} {}", b, i, site))));
                Ok((t, et))
            }
            syn::Expr::If(i) => {
                // the outer variables assigned inside are returned together with the value
                let m = self.assigned_in_expr(e);
                self.value_carry.push(m.clone());
                let r = self.if_doc(i, &Tail::Value(exp.cloned()), stmts);
                self.value_carry.pop();
                let (d, ty) = r?;
                let t = self.bind_carried(&m, d, stmts);
                Ok((t, ty))
            }
            syn::Expr::Match(mt) => {
                let m = self.assigned_in_expr(e);
                self.value_carry.push(m.clone());
                let r = self.match_doc(mt, &Tail::Value(exp.cloned()), stmts);
                self.value_carry.pop();
                let (d, ty) = r?;
                let t = self.bind_carried(&m, d, stmts);
                Ok((t, ty))
            }
            syn::Expr::Block(b) if b.label.is_none() => {
                let m = self.assigned_in_expr(e);
                self.value_carry.push(m.clone());
                let r = self.block(&b.block, &Tail::Value(exp.cloned()), &[]);
                self.value_carry.pop();
                let (d, ty, _) = r?;
                let t = self.bind_carried(&m, d, stmts);
                Ok((t, ty))
            }
            syn::Expr::Struct(s) => self.struct_lit(s, stmts),
            syn::Expr::Repeat(r) => {
                let et = match exp {
                    Some(Ty::List(t, _)) => Some((**t).clone()),
                    _ => None,
                };
                let (x, xt) = self.expr(&r.expr, et.as_ref(), stmts)?;
                let (n, _) = self.expr(&r.len, Some(&Ty::usize()), stmts)?;
                let et = et.unwrap_or(xt);
                Ok((format!("(RustSem.repeat_ {} {})", x, n), Ty::List(Box::new(et), ListKind::Array)))
            }
            syn::Expr::Array(a) => {
                let et = match exp {
                    Some(Ty::List(t, _)) => Some((**t).clone()),
                    _ => None,
                };
                let mut parts = Vec::new();
                let mut ty = et.clone().unwrap_or(Ty::Unknown);
                for x in &a.elems {
                    let (s, t) = self.expr(x, et.as_ref(), stmts)?;
                    if matches!(ty, Ty::Unknown) {
                        ty = t;
                    }
                    parts.push(s);
                }
                Ok((format!("[{}]", parts.join(", ")), Ty::List(Box::new(ty), ListKind::Array)))
            }
            syn::Expr::Call(c) => self.call(c, exp, e, stmts),
            syn::Expr::MethodCall(m) => self.method_call(m, exp, e, stmts),
            syn::Expr::Macro(m) => self.expr_macro(&m.mac, exp, e, stmts),
            syn::Expr::Try(t) => self.try_expr(t, stmts),
            syn::Expr::Range(r) => {
                if !matches!(r.limits, syn::RangeLimits::HalfOpen(_)) {
                    return self.bail(e.span(), "only half-open ranges are supported");
                }
                match (&r.start, &r.end) {
                    (Some(a), Some(b)) => {
                        let (at, aty) = self.expr(a, Some(&Ty::Int(64)), stmts)?;
                        let (bt, bty) = self.expr(b, Some(&Ty::Int(64)), stmts)?;
                        if !matches!(aty, Ty::Int(64) | Ty::IntAny) || !matches!(bty, Ty::Int(64) | Ty::IntAny) {
                            return self.bail(e.span(), "only `Range<u64>` values are supported");
                        }
                        Ok((format!("(RustSem.Range.mk {} {})", at, bt), Ty::Named("Range".into())))
                    }
                    _ => self.bail(e.span(), "range value needs both bounds"),
                }
            }
            syn::Expr::Return(_) => self.bail(e.span(), "`return` in this expression position is not supported"),
            _ => self.bail(e.span(), format!("unsupported expression `{}`", self.src(e.span(), String::new()))),
        }
    }

    fn lit(&self, l: &syn::Lit, exp: Option<&Ty>, span: proc_macro2::Span) -> R<(String, Ty)> {
        match l {
            syn::Lit::Bool(b) => Ok((if b.value { "true".into() } else { "false".into() }, Ty::Bool)),
            syn::Lit::Int(i) => {
                let val: u128 = match i.base10_parse::<u128>() {
                    Ok(v) => v,
                    Err(_) => return self.bail(span, "integer literal too large"),
                };
                let ty = if !i.suffix().is_empty() {
                    match int_width(i.suffix()) {
                        Some(w) => Ty::Int(w),
                        None => return self.bail(span, format!("unsupported literal suffix `{}` (unsigned integers only)", i.suffix())),
                    }
                } else {
                    match exp {
                        Some(Ty::Int(w)) => Ty::Int(*w),
                        _ => Ty::IntAny,
                    }
                };
                if let Ty::Int(w) = ty {
                    if w < 128 && val >> w != 0 {
                        return self.bail(span, format!("literal does not fit in u{}", w));
                    }
                }
                Ok((Self::int_lit_text(i), ty))
            }
            syn::Lit::ByteStr(b) => {
                let v: Vec<String> = b.value().iter().map(|x| x.to_string()).collect();
                Ok((format!("[{}]", v.join(", ")), Ty::List(Box::new(Ty::u8()), ListKind::Array)))
            }
            syn::Lit::Byte(b) => Ok((b.value().to_string(), Ty::u8())),
            _ => self.bail(span, "unsupported literal"),
        }
    }

    fn path_expr(&mut self, p: &syn::Path, exp: Option<&Ty>, span: proc_macro2::Span, stmts: &mut Vec<Stmt>) -> R<(String, Ty)> {
        let segs = path_strs(p);
        if segs.len() == 1 {
            let n = &segs[0];
            if let Some(pl) = self.alias_of(n) {
                let t = self.read(&pl, stmts)?;
                return Ok((t, pl.ty()));
            }
            if let Some(t) = self.lookup(n) {
                return Ok((lean_ident(n), t));
            }
            if n == "None" {
                let t = match exp {
                    Some(Ty::Opt(t)) => Ty::Opt(t.clone()),
                    _ => Ty::Opt(Box::new(Ty::Unknown)),
                };
                return Ok(("none".into(), t));
            }
            if let Some((en, v)) = self.resolve_variant(p) {
                return self.unit_variant(&en, &v, span);
            }
            if let Some(cs) = self.g.consts.get(n) {
                let c = match cs.iter().find(|c| c.ns == self.ns) {
                    Some(c) => c,
                    None if cs.len() == 1 => &cs[0],
                    None => return self.bail(span, format!("constant `{}` is ambiguous", n)),
                };
                let name = if c.ns == self.ns { lean_ident(&c.name) } else { format!("{}.{}", c.ns, lean_ident(&c.name)) };
                self.g.note(&c.group);
                return Ok((name, c.ty.clone()));
            }
            // a unit struct (`ClientNotFound`)
            let key = self.g.tkey(&self.file, n);
            if let Some(info) = self.g.structs.get(&key) {
                if info.fields.is_empty() && !info.view && info.ignored.is_empty() && !info.group.is_empty() {
                    self.g.note(&info.group);
                    let lt = lean_type_name(self.g, &self.ns, &key);
                    return Ok((format!("({{ }} : {})", lt), Ty::Named(key)));
                }
            }
            return self.bail(span, format!("unknown identifier `{}` (not a local, a selected constant, a unit struct or an enum variant)", n));
        }
        // `io::ErrorKind::X` (the kinds translated code distinguishes; every other kind is `Other`)
        if segs.len() >= 2 && segs[segs.len() - 2] == "ErrorKind" {
            let k = segs[segs.len() - 1].as_str();
            return match k {
                "WouldBlock" | "Interrupted" | "ConnectionReset" => Ok((format!("RustSem.ErrorKind.{}", k), Ty::Opaque("RustSem.ErrorKind".into()))),
                _ => self.bail(span, format!("`io::ErrorKind::{}` is not modelled (only WouldBlock, Interrupted, ConnectionReset)", k)),
            };
        }
        if segs.len() == 2 && segs[0] == "Duration" && segs[1] == "MAX" {
            return Ok(("RustSem.Duration.MAX".into(), Ty::Dur));
        }
        if segs.len() == 2 && segs[0] == "Duration" && segs[1] == "ZERO" {
            return Ok(("0".into(), Ty::Dur));
        }
        if segs.len() == 2 {
            if let Some(w) = int_width(&segs[0]) {
                if segs[1] == "MAX" {
                    return Ok((format!("(RustSem.MAX {})", w), Ty::Int(w)));
                }
                if segs[1] == "MIN" {
                    return Ok(("0".into(), Ty::Int(w)));
                }
            }
        }
        if let Some((en, v)) = self.resolve_variant(p) {
            return self.unit_variant(&en, &v, span);
        }
        // `crate::module::CONST`
        let last = segs.last().unwrap();
        if let Some(cs) = self.g.consts.get(last) {
            if cs.len() == 1 {
                let c = &cs[0];
                let name = if c.ns == self.ns { lean_ident(&c.name) } else { format!("{}.{}", c.ns, lean_ident(&c.name)) };
                self.g.note(&c.group);
                return Ok((name, c.ty.clone()));
            }
        }
        self.bail(span, format!("unsupported path `{}`", segs.join("::")))
    }

    fn unit_variant(&self, en: &str, v: &str, span: proc_macro2::Span) -> R<(String, Ty)> {
        let info = self.g.enums.get(en).unwrap().variants.iter().find(|x| x.name == v).unwrap();
        if !info.fields.is_empty() {
            return self.bail(span, "variant with fields used without arguments");
        }
        Ok((self.variant_lean(en, v), Ty::Named(en.to_string())))
    }

    fn cast(&mut self, c: &syn::ExprCast, stmts: &mut Vec<Stmt>) -> R<(String, Ty)> {
        let w = match &*c.ty {
            syn::Type::Path(tp) if tp.path.segments.len() == 1 => int_width(&tp.path.segments[0].ident.to_string()),
            _ => None,
        };
        let w = match w {
            Some(w) => w,
            None => return self.bail(c.ty.span(), "only casts to unsigned integer types are supported"),
        };
        let (t, ty) = self.expr(&c.expr, None, stmts)?;
        match ty {
            Ty::Int(_) | Ty::IntAny => Ok((format!("(RustSem.cast {} {})", w, t), Ty::Int(w))),
            Ty::Bool => Ok((format!("(RustSem.castBool {})", t), Ty::Int(w))),
            // `i32 as uN`: sign extension, then truncation
            Ty::SInt(32) => Ok((format!("(RustSem.cast_i32 {} {})", w, t), Ty::Int(w))),
            Ty::Named(n) if self.g.enums.get(&n).map(|e| e.all_unit).unwrap_or(false) => {
                Ok((format!("(RustSem.cast {} ({}.discr {}))", w, lean_type_name(self.g, &self.ns, &n), t), Ty::Int(w)))
            }
            _ => self.bail(c.span(), "unsupported cast source (unsigned integers, bool, field-less enums)"),
        }
    }

    fn binary(&mut self, b: &syn::ExprBinary, exp: Option<&Ty>, whole: &syn::Expr, stmts: &mut Vec<Stmt>) -> R<(String, Ty)> {
        use syn::BinOp::*;
        match b.op {
            And(_) | Or(_) => {
                let (l, lt) = self.expr(&b.left, Some(&Ty::Bool), stmts)?;
                let mut rs: Vec<Stmt> = Vec::new();
                let (r, rt) = self.expr(&b.right, Some(&Ty::Bool), &mut rs)?;
                if !matches!(lt, Ty::Bool) || !matches!(rt, Ty::Bool) {
                    return self.bail(whole.span(), "`&&` / `||` on values that are not bool");
                }
                let is_and = matches!(b.op, And(_));
                if rs.is_empty() {
                    return Ok((format!("({} {} {})", l, if is_and { "&&" } else { "||" }, r), Ty::Bool));
                }
                // the right operand can panic: keep the short circuit
                let t = self.fresh();
                let rhs = Doc::seq(rs, Doc::atom(format!("pure {}", r)));
                let d = if is_and {
                    Doc::If(l, Box::new(rhs), Box::new(Doc::atom("pure false")))
                } else {
                    Doc::If(l, Box::new(Doc::atom("pure true")), Box::new(rhs))
                };
                stmts.push(Stmt::Bind(t.clone(), d));
                Ok((t, Ty::Bool))
            }
            _ => {
                let cmp = matches!(b.op, Eq(_) | Ne(_) | Lt(_) | Le(_) | Gt(_) | Ge(_));
                let shift = Self::is_shift(&b.op);
                let (l, lt) = self.expr(&b.left, if cmp { None } else { exp }, stmts)?;
                let rexp: Option<Ty> = if shift {
                    None
                } else if matches!(lt, Ty::Int(_) | Ty::Bool) {
                    Some(lt.clone())
                } else if cmp {
                    None
                } else {
                    exp.cloned()
                };
                let (r, rt) = self.expr(&b.right, rexp.as_ref(), stmts)?;
                self.binop(&b.op, (l, lt), (r, rt), exp, whole, stmts)
            }
        }
    }

    /// arithmetic / bit / comparison on already translated operands
    pub fn binop(
        &mut self,
        op: &syn::BinOp,
        (l, lt): (String, Ty),
        (r, rt): (String, Ty),
        exp: Option<&Ty>,
        whole: &syn::Expr,
        stmts: &mut Vec<Stmt>,
    ) -> R<(String, Ty)> {
        use syn::BinOp::*;
        let span = whole.span();
        match op {
            Eq(_) | Ne(_) | Lt(_) | Le(_) | Gt(_) | Ge(_) => {
                let ok = match (&lt, &rt) {
                    (a, b) if a.is_int() && b.is_int() => match (a, b) {
                        (Ty::Int(x), Ty::Int(y)) => x == y,
                        _ => true,
                    },
                    (Ty::Bool, Ty::Bool) => matches!(op, Eq(_) | Ne(_)),
                    (Ty::Dur, Ty::Dur) => true,
                    // `i32` against `i32` or a (non-negative) literal: comparison of the `Int`s
                    (Ty::SInt(32), Ty::SInt(32)) | (Ty::SInt(32), Ty::IntAny) | (Ty::IntAny, Ty::SInt(32)) => true,
                    // `==` / `!=` on data whose `PartialEq` is structural equality of the representation:
                    // byte arrays / vectors, table-mapped types, selected structs and enums
                    (a, b) => {
                        matches!(op, Eq(_) | Ne(_))
                            && !a.has_unknown()
                            && matches!(a, Ty::List(_, _) | Ty::Named(_) | Ty::Opaque(_) | Ty::Opt(_) | Ty::Tuple(_))
                            && Self::same_shape(a, b)
                    }
                };
                if !ok {
                    return self.bail(
                        span,
                        "comparison is only supported between integers of the same type, Durations, `==`/`!=` on bool and on data of the same translated type",
                    );
                }
                let sym = match op {
                    Eq(_) => "=",
                    Ne(_) => "≠",
                    Lt(_) => "<",
                    Le(_) => "≤",
                    Gt(_) => ">",
                    _ => "≥",
                };
                Ok((format!("(decide ({} {} {}))", l, sym, r), Ty::Bool))
            }
            Shl(_) | Shr(_) => {
                let w = match (&lt, exp) {
                    (Ty::Int(w), _) => *w,
                    (Ty::IntAny, Some(Ty::Int(w))) => *w,
                    _ => return self.bail(span, "cannot determine the integer type of the shifted value"),
                };
                if !rt.is_int() {
                    return self.bail(span, "shift amount is not an integer");
                }
                let f = if matches!(op, Shl(_)) { "shl" } else { "shr" };
                let t = self.fresh();
                let site = self.site(whole);
                stmts.push(Stmt::Bind(t.clone(), Doc::atom(format!("RustSem.{} {} {} {} {}", f, w, l, r, site))));
                Ok((t, Ty::Int(w)))
            }
            Add(_) | Sub(_) if matches!((&lt, &rt), (Ty::Dur, Ty::Dur)) => {
                // `Duration + Duration` / `Duration - Duration` panic on overflow / underflow
                let f = if matches!(op, Add(_)) { "add" } else { "sub" };
                let t = self.fresh();
                let site = self.site(whole);
                stmts.push(Stmt::Bind(t.clone(), Doc::atom(format!("RustSem.Duration.{} {} {} {}", f, l, r, site))));
                Ok((t, Ty::Dur))
            }
            Add(_) | Sub(_) | Mul(_) | Div(_) | Rem(_) | BitAnd(_) | BitOr(_) | BitXor(_) => {
                if matches!((&lt, &rt), (Ty::Bool, Ty::Bool)) {
                    let f = match op {
                        BitAnd(_) => "&&",
                        BitOr(_) => "||",
                        BitXor(_) => "!=",
                        _ => return self.bail(span, "arithmetic on bool"),
                    };
                    return Ok((format!("({} {} {})", l, f, r), Ty::Bool));
                }
                let w = match (&lt, &rt) {
                    (Ty::Int(a), Ty::Int(b)) if a == b => Some(*a),
                    (Ty::Int(_), Ty::Int(_)) => return self.bail(span, "operands have different integer types"),
                    (Ty::Int(a), Ty::IntAny) | (Ty::IntAny, Ty::Int(a)) => Some(*a),
                    (Ty::IntAny, Ty::IntAny) => match exp {
                        Some(Ty::Int(w)) => Some(*w),
                        _ => None,
                    },
                    _ => return self.bail(span, "arithmetic on values that are not unsigned integers"),
                };
                let pure_bit = match op {
                    BitAnd(_) => Some("band"),
                    BitOr(_) => Some("bor"),
                    BitXor(_) => Some("bxor"),
                    _ => None,
                };
                if let Some(f) = pure_bit {
                    let ty = match w {
                        Some(w) => Ty::Int(w),
                        None => Ty::IntAny,
                    };
                    return Ok((format!("(RustSem.{} {} {})", f, l, r), ty));
                }
                let w = match w {
                    Some(w) => w,
                    None => return self.bail(span, "cannot determine the integer type of this arithmetic operation"),
                };
                if self.const_ctx {
                    // the initialiser of a `const` is evaluated by the compiler: overflow, underflow and division by
                    // zero are compile errors, so in a program that compiles the exact result is in range
                    let sym = match op {
                        Add(_) => "+",
                        Sub(_) => "-",
                        Mul(_) => "*",
                        Div(_) => "/",
                        _ => "%",
                    };
                    return Ok((format!("({} {} {})", l, sym, r), Ty::Int(w)));
                }
                let f = match op {
                    Add(_) => "add",
                    Sub(_) => "sub",
                    Mul(_) => "mul",
                    Div(_) => "div",
                    _ => "rem",
                };
                let t = self.fresh();
                let site = self.site(whole);
                stmts.push(Stmt::Bind(t.clone(), Doc::atom(format!("RustSem.{} {} {} {} {}", f, w, l, r, site))));
                Ok((t, Ty::Int(w)))
            }
            _ => self.bail(span, "unsupported binary operator"),
        }
    }

    /// same representation type (list kinds are irrelevant)
    fn same_shape(a: &Ty, b: &Ty) -> bool {
        match (a, b) {
            (Ty::Int(x), Ty::Int(y)) => x == y,
            (Ty::Bool, Ty::Bool) | (Ty::Unit, Ty::Unit) | (Ty::Dur, Ty::Dur) => true,
            (Ty::List(x, _), Ty::List(y, _)) | (Ty::Opt(x), Ty::Opt(y)) => Self::same_shape(x, y),
            (Ty::Map(a, b, _), Ty::Map(c, d, _)) => Self::same_shape(a, c) && Self::same_shape(b, d),
            (Ty::Set(a), Ty::Set(b)) => Self::same_shape(a, b),
            (Ty::Tuple(x), Ty::Tuple(y)) => x.len() == y.len() && x.iter().zip(y.iter()).all(|(p, q)| Self::same_shape(p, q)),
            (Ty::Named(x), Ty::Named(y)) | (Ty::Opaque(x), Ty::Opaque(y)) => x == y,
            _ => false,
        }
    }

    fn struct_lit(&mut self, s: &syn::ExprStruct, stmts: &mut Vec<Stmt>) -> R<(String, Ty)> {
        let segs = path_strs(&s.path);
        let mut name = segs.last().unwrap().clone();
        if name == "Self" {
            name = match &self.self_ty {
                Some(t) => t.clone(),
                None => return self.bail(s.span(), "`Self` outside an impl"),
            };
        }
        // enum struct-variant
        if let Some((en, v)) = self.resolve_variant(&s.path) {
            let info = self.g.enums.get(&en).unwrap().variants.iter().find(|x| x.name == v).unwrap().clone();
            if s.rest.is_some() {
                return self.bail(s.span(), "`..` in an enum variant literal is not supported");
            }
            // evaluate in source order, emit in declaration order
            let mut vals: Vec<(String, String)> = Vec::new();
            for fv in &s.fields {
                let fname = match &fv.member {
                    syn::Member::Named(id) => id.to_string(),
                    _ => return self.bail(fv.span(), "unsupported field"),
                };
                let fty = match info.fields.iter().find(|(n, _)| n.as_deref() == Some(fname.as_str())) {
                    Some((_, t)) => t.clone(),
                    None => return self.bail(fv.span(), "unknown field"),
                };
                let (t, _) = self.expr(&fv.expr, Some(&fty), stmts)?;
                vals.push((fname, t));
            }
            let mut out = self.variant_lean(&en, &v);
            for (fname, _) in &info.fields {
                let fname = fname.clone().unwrap_or_default();
                match vals.iter().find(|(n, _)| *n == fname) {
                    Some((_, t)) => {
                        out.push(' ');
                        out.push_str(t);
                    }
                    None => return self.bail(s.span(), format!("missing field `{}`", fname)),
                }
            }
            return Ok((format!("({})", out), Ty::Named(en)));
        }
        let name = self.g.tkey(&self.file, &name);
        let info = match self.g.structs.get(&name) {
            Some(i) => i.clone(),
            None => return self.bail(s.span(), format!("struct `{}` is not a selected type", name)),
        };
        let mut parts = Vec::new();
        for fv in &s.fields {
            let fname = match &fv.member {
                syn::Member::Named(id) => id.to_string(),
                _ => return self.bail(fv.span(), "unsupported field"),
            };
            if info.ignored.contains(&fname) {
                // an ignored field (manifest): its initialiser is only evaluated for its effects
                self.effects_only(&fv.expr, stmts)?;
                continue;
            }
            let fty = match info.fields.iter().find(|(n, _)| *n == fname) {
                Some((_, t)) => t.clone(),
                None => return self.bail(fv.span(), format!("unknown field `{}`", fname)),
            };
            let (t, _) = self.expr(&fv.expr, Some(&fty), stmts)?;
            parts.push(format!("{} := {}", lean_ident(&fname), t));
        }
        let lt = lean_type_name(self.g, &self.ns, &name);
        let text = match &s.rest {
            Some(base) => {
                let (b, _) = self.expr(base, Some(&Ty::Named(name.clone())), stmts)?;
                format!("({{ {} with {} }} : {})", b, parts.join(", "), lt)
            }
            None => {
                if parts.len() != info.fields.len() {
                    return self.bail(s.span(), "struct literal does not give every field");
                }
                format!("({{ {} }} : {})", parts.join(", "), lt)
            }
        };
        Ok((text, Ty::Named(name)))
    }

    // ------------------------------------------------------------------ calls

    /// projection of component `idx` of a right-nested tuple with `total` components
    fn tuple_proj(t: &str, idx: usize, total: usize) -> String {
        let mut s = t.to_string();
        for _ in 0..idx {
            s.push_str(".2");
        }
        if idx + 1 < total {
            s.push_str(".1");
        }
        s
    }

    /// the explicit randomness parameters of the callee (see `manifest::RANDOM_SOURCES`): one fresh parameter of the
    /// current fn each
    fn push_rand_args(&mut self, info: &FnInfo, args: &mut String) {
        let n = self.g.rand_counts.borrow().get(&(info.ns.clone(), info.short_lean())).copied().unwrap_or(0);
        for _ in 0..n {
            self.rand_sites += 1;
            args.push_str(&format!(" rand{}", self.rand_sites));
        }
    }

    /// resolve a call expression to a translated fn; returns the applied Lean term (a `Res` value) and the places
    /// passed as `&mut` cursor parameters (to be written back from the result tuple)
    pub fn call_term(&mut self, e: &syn::Expr, stmts: &mut Vec<Stmt>) -> R<(String, FnInfo, Vec<Place>)> {
        match e {
            syn::Expr::Call(c) => {
                let p = match &*c.func {
                    syn::Expr::Path(p) if p.qself.is_none() => &p.path,
                    _ => return self.bail(c.func.span(), "unsupported callee"),
                };
                let segs = path_strs(p);
                let (st, name) = match segs.len() {
                    1 => (None, segs[0].clone()),
                    n => {
                        let mut t = segs[n - 2].clone();
                        if t == "Self" {
                            t = self.self_ty.clone().unwrap_or(t);
                        } else {
                            t = self.g.tkey(&self.file, &t);
                        }
                        if self.g.structs.contains_key(&t) || self.g.enums.contains_key(&t) {
                            (Some(t), segs[n - 1].clone())
                        } else {
                            (None, segs[n - 1].clone())
                        }
                    }
                };
                let info = self.find_fn(st.as_deref(), &name, c.func.span())?;
                let mut args = String::new();
                // const-generic arguments: turbofish, or the array length of the `let` annotation
                if !info.const_params.is_empty() {
                    let last = p.segments.last().unwrap();
                    let mut given: Vec<String> = Vec::new();
                    if let syn::PathArguments::AngleBracketed(a) = &last.arguments {
                        for ga in &a.args {
                            let ex: Option<syn::Expr> = match ga {
                                syn::GenericArgument::Const(ex) => Some(ex.clone()),
                                syn::GenericArgument::Type(syn::Type::Path(tp)) if tp.qself.is_none() => {
                                    Some(syn::Expr::Path(syn::ExprPath { attrs: vec![], qself: None, path: tp.path.clone() }))
                                }
                                _ => None,
                            };
                            if let Some(ex) = ex {
                                let mut tmp: Vec<Stmt> = Vec::new();
                                let (t, _) = self.expr(&ex, Some(&Ty::usize()), &mut tmp)?;
                                if !tmp.is_empty() {
                                    return self.bail(c.span(), "const-generic argument must be a constant expression");
                                }
                                given.push(t);
                            }
                        }
                    }
                    if given.is_empty() && info.const_params.len() == 1 {
                        if let Some(h) = self.array_len_hint.take() {
                            given.push(h);
                        }
                    }
                    if given.len() != info.const_params.len() {
                        return self.bail(
                            c.span(),
                            "cannot determine the const-generic argument of this call (use a turbofish or annotate the `let` with the array type)",
                        );
                    }
                    for gterm in given {
                        args.push_str(&format!(" {}", gterm));
                    }
                }
                let mut idx = 0;
                let call_args: Vec<&syn::Expr> = c.args.iter().collect();
                if info.self_mode != SelfMode::None {
                    // UFCS `Type::method(recv, ..)`
                    if call_args.is_empty() {
                        return self.bail(c.span(), "missing receiver");
                    }
                    if info.self_mode == SelfMode::Mut {
                        return self.bail(c.span(), "UFCS call of a `&mut self` method is not supported");
                    }
                    let (r, _) = self.expr(call_args[0], Some(&Ty::Named(info.self_ty.clone().unwrap())), stmts)?;
                    args.push_str(&format!(" {}", r));
                    idx = 1;
                }
                if call_args.len() - idx != info.params.len() {
                    return self.bail(c.span(), "wrong number of arguments");
                }
                let mut places: Vec<Place> = Vec::new();
                for (a, (pn, pt)) in call_args[idx..].iter().zip(info.params.iter()) {
                    if info.ref_ret.as_ref().map(|(_, p)| p == pn).unwrap_or(false) {
                        // the slice a finder searches (used here only for `is_some()` / `is_none()`): its current value
                        let mut inner: &syn::Expr = a;
                        loop {
                            match inner {
                                syn::Expr::Reference(r) => inner = &r.expr,
                                syn::Expr::Paren(p) => inner = &p.expr,
                                _ => break,
                            }
                        }
                        let (t, _) = self.expr(inner, Some(pt), stmts)?;
                        args.push_str(&format!(" {}", t));
                    } else if info.mut_params.contains(pn) {
                        // `&mut cursor` argument: a place (a `&mut impl Read` parameter passed on, or `&mut local`)
                        let pl = self.mut_arg_place(a, pt, stmts)?;
                        let t = self.read(&pl, stmts)?;
                        args.push_str(&format!(" {}", t));
                        places.push(pl);
                    } else {
                        let (t, _) = self.expr(a, Some(pt), stmts)?;
                        args.push_str(&format!(" {}", t));
                    }
                }
                self.push_rand_args(&info, &mut args);
                Ok((format!("{}{}", self.fn_lean_name(&info), args), info, places))
            }
            syn::Expr::MethodCall(m) => {
                let (r, rt) = self.expr(&m.receiver, None, stmts)?;
                let st = match &rt {
                    Ty::Named(n) => n.clone(),
                    _ => return self.bail(m.span(), format!("unsupported method `{}` on this receiver", m.method)),
                };
                let info = self.find_fn(Some(&st), &m.method.to_string(), m.method.span())?;
                if info.self_mode == SelfMode::None {
                    return self.bail(m.span(), "method call of an associated fn without receiver");
                }
                if m.args.len() != info.params.len() {
                    return self.bail(m.span(), "wrong number of arguments");
                }
                let mut args = format!(" {}", r);
                let mut places: Vec<Place> = Vec::new();
                for (a, (pn, pt)) in m.args.iter().zip(info.params.iter()) {
                    if info.mut_params.contains(pn) {
                        let pl = self.mut_arg_place(a, pt, stmts)?;
                        let t = self.read(&pl, stmts)?;
                        args.push_str(&format!(" {}", t));
                        places.push(pl);
                    } else {
                        let (t, _) = self.expr(a, Some(pt), stmts)?;
                        args.push_str(&format!(" {}", t));
                    }
                }
                self.push_rand_args(&info, &mut args);
                Ok((format!("{}{}", self.fn_lean_name(&info), args), info, places))
            }
            _ => self.bail(e.span(), "expected a call"),
        }
    }

    /// a one-parameter closure `|pat| body` over elements of type `et`: (Lean pattern, statements of the body, value, type).
    /// The closure may not assign outer variables nor leave the enclosing fn.
    pub fn closure1(&mut self, clos: &syn::Expr, et: &Ty, exp: Option<&Ty>) -> R<(String, Vec<Stmt>, String, Ty)> {
        let (cpat, body) = match clos {
            syn::Expr::Closure(c) if c.inputs.len() == 1 && c.capture.is_none() => (&c.inputs[0], &*c.body),
            o => return self.bail(o.span(), "only simple closures `|x| expr` are supported here"),
        };
        let mut cp: &syn::Pat = cpat;
        while let syn::Pat::Reference(pr) = cp {
            cp = &pr.pat;
        }
        let (lp, binds) = self.pat(cp, et)?;
        for (n, _) in &binds {
            self.check_local_name(n, clos.span())?;
        }
        if !self.assigned_in_expr(body).is_empty() {
            return self.bail(clos.span(), "closure must not assign outer variables");
        }
        if super::analysis::expr_leaves_fn(body) {
            return self.bail(clos.span(), "`return` / `?` / labelled jumps are not supported in a closure");
        }
        self.push_scope(binds);
        let mut bs: Vec<Stmt> = Vec::new();
        let rb = self.expr(body, exp, &mut bs);
        self.pop_scope();
        let (b, bt) = rb?;
        Ok((Self::paren_pat(&lp), bs, b, bt))
    }

    /// the place behind a `&mut` argument: `&mut place`, `&mut place[a..b]`, a `&mut` parameter passed on, or a fresh
    /// temporary for `&mut Cursor::new(..)` (a cursor over a buffer keeps writing into that buffer)
    pub fn mut_arg_place(&mut self, a: &syn::Expr, pt: &Ty, stmts: &mut Vec<Stmt>) -> R<Place> {
        let mut inner: &syn::Expr = a;
        loop {
            match inner {
                syn::Expr::Reference(r) => inner = &r.expr,
                syn::Expr::Paren(p) => inner = &p.expr,
                _ => break,
            }
        }
        // an `Option<&mut T>` parameter: `Some(&mut place)`, `None`, or the caller's own such parameter
        if let Ty::Opt(et) = pt {
            match inner {
                syn::Expr::Call(c) if matches!(&*c.func, syn::Expr::Path(p) if p.path.is_ident("Some")) && c.args.len() == 1 => {
                    let mut x: &syn::Expr = &c.args[0];
                    loop {
                        match x {
                            syn::Expr::Reference(r) => x = &r.expr,
                            syn::Expr::Paren(p) => x = &p.expr,
                            _ => break,
                        }
                    }
                    let pl = self.place(x, stmts)?;
                    let site = self.site(inner);
                    return Ok(Place::OptWrap(Box::new(pl), pt.clone(), site));
                }
                syn::Expr::Path(p) if p.path.is_ident("None") => return Ok(Place::Nowhere(pt.clone())),
                syn::Expr::Path(p) if p.path.segments.len() == 1 && self.opt_mut_params.contains(&p.path.segments[0].ident.to_string()) => {
                    return Ok(Place::Var(p.path.segments[0].ident.to_string(), pt.clone()));
                }
                _ => {
                    let _ = et;
                    return self.bail(a.span(), "argument for an `Option<&mut T>` parameter must be `Some(&mut place)`, `None` or such a parameter");
                }
            }
        }
        if let syn::Expr::Call(_) = inner {
            let (v, t) = self.expr(inner, Some(pt), stmts)?;
            let k = self.fresh();
            let name = format!("tmp_{}", k);
            stmts.push(Stmt::Let(lean_ident(&name), v));
            self.declare(&name, t.clone());
            if let Some(b) = self.pending_backing.take() {
                self.backings.push((name.clone(), b));
            }
            return Ok(Place::Var(name, t));
        }
        self.place(inner, stmts)
    }

    /// bind a call (`caller (term)`), write the `&mut` cursor arguments back, return the value term
    fn finish_call(&mut self, caller: &str, term: &str, info: &FnInfo, places: &[Place], ok_ty: &Ty, stmts: &mut Vec<Stmt>) -> R<String> {
        let t = self.fresh();
        stmts.push(Stmt::Bind(t.clone(), Doc::atom(format!("{} ({})", caller, term))));
        if places.is_empty() {
            return Ok(t);
        }
        let _ = info;
        let total = places.len() + 1;
        for (i, pl) in places.iter().enumerate() {
            self.write(pl, Self::tuple_proj(&t, i, total), stmts)?;
        }
        if matches!(ok_ty, Ty::Unit) {
            Ok("()".to_string())
        } else {
            Ok(Self::tuple_proj(&t, total - 1, total))
        }
    }

    fn find_fn(&self, st: Option<&str>, name: &str, span: proc_macro2::Span) -> R<FnInfo> {
        let key = (st.map(|s| s.to_string()), name.to_string());
        let v = match self.g.fns.get(&key) {
            Some(v) => v,
            None => {
                return Err(crate::TErr {
                    file: self.file.clone(),
                    line: span.start().line,
                    msg: format!(
                        "call of `{}{}` which is neither a RustSem primitive nor a translatable fn of this crate",
                        st.map(|s| format!("{}::", s)).unwrap_or_default(),
                        name
                    ),
                    missing: Some(crate::Missing { self_ty: st.map(|s| crate::globals::simple_of(s).to_string()), name: name.to_string() }),
                })
            }
        };
        let f = match v.iter().find(|f| f.ns == self.ns) {
            Some(f) => f,
            None if v.len() == 1 => &v[0],
            // an external-interface builtin (`RustSem.encrypt_in_place` …) that is ALSO translated from the source (group
            // NcCrypto translates renetcode/src/crypto.rs): callers in other files keep calling the builtin; the two are
            // proved equal in Lean (Props/SrcTieNcCrypto.lean)
            None if v.iter().filter(|f| f.group.is_empty()).count() == 1 => v.iter().find(|f| f.group.is_empty()).unwrap(),
            None => return self.bail(span, format!("call of `{}` is ambiguous between files", name)),
        };
        if f.order >= self.order {
            return self.bail(span, format!("`{}` is called before it is emitted: fix the manifest order (recursion is not supported)", name));
        }
        Ok(f.clone())
    }

    /// `place.method(args)` where `method` is a `&mut self` method (translated or semantic model):
    /// binds the pair (new receiver, result), writes the receiver back, yields the result.
    /// `try_mode`: the call is followed by `?`.
    fn mut_method_call(&mut self, m: &syn::ExprMethodCall, try_mode: bool, stmts: &mut Vec<Stmt>) -> R<Option<(String, Ty)>> {
        if !self.is_place(&m.receiver) {
            return Ok(None);
        }
        if m.method == "read_exact" && m.args.len() == 1 {
            if let Some(r) = self.read_exact_call(m, try_mode, stmts)? {
                return Ok(Some(r));
            }
        }
        let mut probe: Vec<Stmt> = Vec::new();
        let saved = self.tmp_mark();
        let pl = match self.place(&m.receiver, &mut probe) {
            Ok(p) => p,
            Err(_) => {
                self.tmp_reset(saved);
                return Ok(None);
            }
        };
        let n = match pl.ty() {
            Ty::Named(n) => n,
            _ => {
                self.tmp_reset(saved);
                return Ok(None);
            }
        };
        let is_mut = self
            .g
            .fns
            .get(&(Some(n.clone()), m.method.to_string()))
            .map(|v| v.iter().any(|f| f.self_mode == SelfMode::Mut))
            .unwrap_or(false);
        if !is_mut {
            self.tmp_reset(saved);
            return Ok(None);
        }
        stmts.extend(probe);
        let info = self.find_fn(Some(&n), &m.method.to_string(), m.method.span())?;
        if m.args.len() != info.params.len() {
            return self.bail(m.span(), "wrong number of arguments");
        }
        let cur = self.read(&pl, stmts)?;
        let mut args = format!(" {}", cur);
        // the receiver, then the `&mut` parameters: all are written back from the result
        let mut places: Vec<Place> = vec![pl.clone()];
        for (a, (pn, pt)) in m.args.iter().zip(info.params.iter()) {
            if info.mut_params.contains(pn) {
                let apl = self.mut_arg_place(a, pt, stmts)?;
                let t = self.read(&apl, stmts)?;
                args.push_str(&format!(" {}", t));
                places.push(apl);
            } else {
                let (t, _) = self.expr(a, Some(pt), stmts)?;
                args.push_str(&format!(" {}", t));
            }
        }
        let applied = format!("{}{}", self.fn_lean_name(&info), args);
        let total = places.len() + 1;
        let (caller, ok_ty) = match (&info.ret, try_mode) {
            (Ty::Res(a, b), true) => (self.try_caller(b, info.err_state, &places, m.span())?, (**a).clone()),
            (Ty::Res(_, _), false) => {
                // the caller inspects the `Result`: the receiver (and the `&mut` arguments) keep the state the callee
                // leaves behind (Ok or Err)
                let t = self.fresh();
                let comb = match places.len() {
                    1 => "Exec.attempt",
                    2 => "Exec.attempt2",
                    _ => return self.bail(m.span(), "an inspected `Result` call with more than two components of `&mut` state is not supported"),
                };
                stmts.push(Stmt::Bind(t.clone(), Doc::atom(format!("{} ({})", comb, applied))));
                let n = places.len();
                for (i, p) in places.iter().enumerate() {
                    let comp = if n == 1 { format!("{}.1", t) } else { Self::tuple_proj(&format!("{}.1", t), i, n) };
                    self.write(p, comp, stmts)?;
                }
                return Ok(Some((format!("{}.2", t), info.ret.clone())));
            }
            (_, true) => return self.bail(m.span(), "`?` on a call that does not return `Result`"),
            (t, false) => ("Exec.call".to_string(), t.clone()),
        };
        let t = self.fresh();
        stmts.push(Stmt::Bind(t.clone(), Doc::atom(format!("{} ({})", caller, applied))));
        for (i, p) in places.iter().enumerate() {
            self.write(p, Self::tuple_proj(&t, i, total), stmts)?;
        }
        let v = if matches!(ok_ty, Ty::Unit) { "()".to_string() } else { Self::tuple_proj(&t, total - 1, total) };
        Ok(Some((v, ok_ty)))
    }

    /// `reader.read_exact(&mut buf)?` / `reader.read_exact(&mut buf[a..b])?` on a `ReadCursor`:
    /// reads as many bytes as the destination holds and stores them there
    fn read_exact_call(&mut self, m: &syn::ExprMethodCall, try_mode: bool, stmts: &mut Vec<Stmt>) -> R<Option<(String, Ty)>> {
        let mut probe: Vec<Stmt> = Vec::new();
        let saved = self.tmp_mark();
        let pl = match self.place(&m.receiver, &mut probe) {
            Ok(p) => p,
            Err(_) => {
                self.tmp_reset(saved);
                return Ok(None);
            }
        };
        if !matches!(pl.ty(), Ty::Named(ref n) if n == "ReadCursor") {
            self.tmp_reset(saved);
            return Ok(None);
        }
        stmts.extend(probe);
        if !try_mode {
            return self.bail(m.span(), "a `Result` fn can only be called with `?` or in return position");
        }
        let io_err = Ty::Opaque("RustSem.IoError".into());
        let caller = self.try_caller(&io_err, true, std::slice::from_ref(&pl), m.span())?;
        let dst = match &m.args[0] {
            syn::Expr::Reference(r) if r.mutability.is_some() => &*r.expr,
            other => return self.bail(other.span(), "`read_exact` needs a `&mut` destination"),
        };
        let site = self.site(m);
        let cur = self.read(&pl, stmts)?;
        // destination: whole place or a sub-range of a place
        if let syn::Expr::Index(ix) = dst {
            if let syn::Expr::Range(r) = &*ix.index {
                if !matches!(r.limits, syn::RangeLimits::HalfOpen(_)) {
                    return self.bail(r.span(), "only half-open ranges are supported");
                }
                let dpl = self.place(&ix.expr, stmts)?;
                if !matches!(dpl.ty(), Ty::List(ref e, _) if matches!(**e, Ty::Int(8) | Ty::IntAny)) {
                    return self.bail(ix.expr.span(), "`read_exact` destination is not a byte buffer");
                }
                // the signature of `read_exact` fixes the element type of an `[0; N]` buffer to `u8`
                if let Place::Var(n, Ty::List(e, k)) = &dpl {
                    if matches!(**e, Ty::IntAny) {
                        self.retype(n, Ty::List(Box::new(Ty::u8()), k.clone()));
                    }
                }
                let dcur = self.read(&dpl, stmts)?;
                let a = match &r.start {
                    Some(a) => self.expr(a, Some(&Ty::usize()), stmts)?.0,
                    None => "0".to_string(),
                };
                let b = match &r.end {
                    Some(b) => self.expr(b, Some(&Ty::usize()), stmts)?.0,
                    None => format!("(RustSem.len {})", dcur),
                };
                // `&mut buf[a..b]` is bounds-checked before the read
                let sl = self.fresh();
                stmts.push(Stmt::Bind(sl.clone(), Doc::atom(format!("RustSem.slice {} {} {} {}", dcur, a, b, site))));
                let t = self.fresh();
                stmts.push(Stmt::Bind(t.clone(), Doc::atom(format!("{} (RustSem.ReadCursor.read_exact {} (RustSem.len {}))", caller, cur, sl))));
                self.write(&pl, format!("{}.1", t), stmts)?;
                let t2 = self.fresh();
                stmts.push(Stmt::Bind(t2.clone(), Doc::atom(format!("RustSem.copy_from_slice {} {} {} {}.2 {}", dcur, a, b, t, site))));
                self.write(&dpl, t2, stmts)?;
                return Ok(Some(("()".into(), Ty::Unit)));
            }
        }
        let dpl = self.place(dst, stmts)?;
        if !matches!(dpl.ty(), Ty::List(ref e, _) if matches!(**e, Ty::Int(8) | Ty::IntAny)) {
            return self.bail(dst.span(), "`read_exact` destination is not a byte buffer");
        }
        if let Place::Var(n, Ty::List(e, k)) = &dpl {
            if matches!(**e, Ty::IntAny) {
                self.retype(n, Ty::List(Box::new(Ty::u8()), k.clone()));
            }
        }
        let dcur = self.read(&dpl, stmts)?;
        let t = self.fresh();
        stmts.push(Stmt::Bind(t.clone(), Doc::atom(format!("{} (RustSem.ReadCursor.read_exact {} (RustSem.len {}))", caller, cur, dcur))));
        self.write(&pl, format!("{}.1", t), stmts)?;
        self.write(&dpl, format!("{}.2", t), stmts)?;
        Ok(Some(("()".into(), Ty::Unit)))
    }

    /// the `Exec` combinator for `callee(..)?`: converts the error (`From`), and — when the caller has `&mut` state —
    /// pairs it with the caller's current state, in which the places handed to the callee are replaced by the state
    /// the callee's `Err` reports for them
    fn try_caller(&self, callee_err: &Ty, callee_err_state: bool, places: &[Place], span: proc_macro2::Span) -> R<String> {
        let my_err = match &self.err {
            Some(e) => e.clone(),
            None => return self.bail(span, "`?` in a function that does not return `Result`"),
        };
        let conv: Option<String> = if format!("{:?}", callee_err) == format!("{:?}", my_err) {
            None
        } else {
            let (src, dst) = match (callee_err, &my_err) {
                (Ty::Named(a), Ty::Named(b)) => (a.clone(), b.clone()),
                // a table-mapped external type: the `From` impl names its Rust type (`impl From<io::Error> for ..`)
                (Ty::Opaque(a), Ty::Named(b)) => (
                    crate::manifest::OPAQUE_TYPES
                        .iter()
                        .find(|(_, lean)| *lean == a.as_str())
                        .and_then(|(pat, _)| pat.last().map(|x| x.to_string()))
                        .unwrap_or_else(|| a.rsplit('.').next().unwrap_or(a).to_string()),
                    b.clone(),
                ),
                _ => return self.bail(span, "`?` with an error conversion between these types is not supported"),
            };
            match self.g.from_impls.iter().find(|(s, d, _)| *s == src && *d == dst) {
                Some((_, _, key)) => {
                    let v = self.g.fns.get(key).unwrap();
                    let f = &v[0];
                    if f.order >= self.order {
                        return self.bail(span, "the `From` impl used by `?` must be emitted before its use: fix the manifest order");
                    }
                    Some(self.fn_lean_name(f))
                }
                None => return self.bail(span, format!("`?` needs `impl From<{}> for {}`, which is not a selected item", src, dst)),
            }
        };
        let my_state = self.err_state;
        if conv.is_none() && !callee_err_state && !my_state {
            return Ok("Exec.call".to_string());
        }
        let e_term = if callee_err_state { "err.1" } else { "err" };
        // caller state after the failed call
        let mut roots: std::collections::BTreeMap<String, String> = std::collections::BTreeMap::new();
        if callee_err_state && my_state {
            let total = places.len();
            for (i, pl) in places.iter().enumerate() {
                let comp = if total == 1 { "err.2".to_string() } else { Self::tuple_proj("err.2", i, total) };
                if !self.pure_update(pl, comp, &mut roots) {
                    return self.bail(span, "`?` on a call whose `&mut` argument is an element of an indexed element is not supported");
                }
            }
        }
        let body = match (&conv, my_state) {
            (None, false) => format!("Res.ok {}", e_term),
            (Some(c), false) => format!("{} {}", c, e_term),
            (None, true) => format!("Res.ok ({}, {})", e_term, self.state_tuple(&roots)),
            (Some(c), true) => format!("Res.bind ({} {}) (fun e' => Res.ok (e', {}))", c, e_term, self.state_tuple(&roots)),
        };
        Ok(format!("Exec.callFrom (fun err => {})", body))
    }

    /// bind the result of a call of a translated non-`Result` fn
    fn bind_call(&mut self, e: &syn::Expr, stmts: &mut Vec<Stmt>) -> R<(String, Ty)> {
        if let syn::Expr::MethodCall(m) = e {
            if let Some(r) = self.mut_method_call(m, false, stmts)? {
                return Ok(r);
            }
        }
        let (term, info, places) = self.call_term(e, stmts)?;
        if info.self_mode == SelfMode::Mut {
            return self.bail(e.span(), "`&mut self` method called on something that is not a place");
        }
        if matches!(info.ret, Ty::Res(_, _)) {
            // the caller inspects the `Result` (`if let Err(e) = f(..)`, `match f(..) { Ok(x) => .., Err(e) => .. }`)
            let t = self.fresh();
            if info.err_state {
                // (one or two components of `&mut` state; the two-component form regroups the callee's result)
                let comb = match places.len() {
                    1 => "Exec.attempt",
                    2 => "Exec.attempt2",
                    _ => return self.bail(e.span(), "an inspected `Result` call with more than two `&mut` arguments is not supported"),
                };
                stmts.push(Stmt::Bind(t.clone(), Doc::atom(format!("{} ({})", comb, term))));
                let n = places.len();
                for (i, pl) in places.iter().enumerate() {
                    let comp = if n == 1 { format!("{}.1", t) } else { Self::tuple_proj(&format!("{}.1", t), i, n) };
                    self.write(pl, comp, stmts)?;
                }
                return Ok((format!("{}.2", t), info.ret.clone()));
            }
            stmts.push(Stmt::Bind(t.clone(), Doc::atom(format!("Exec.attemptPure ({})", term))));
            return Ok((t, info.ret.clone()));
        }
        let ret = info.ret.clone();
        let v = self.finish_call("Exec.call", &term, &info, &places, &ret, stmts)?;
        Ok((v, ret))
    }

    fn try_expr(&mut self, t: &syn::ExprTry, stmts: &mut Vec<Stmt>) -> R<(String, Ty)> {
        if self.err.is_none() && matches!(self.ret, Ty::Opt(_)) {
            // `e?` in a fn returning `Option`: the value of `Some`, or `return None`
            let (v, vt) = self.expr(&t.expr, None, stmts)?;
            let inner = match vt {
                Ty::Opt(i) => *i,
                _ => return self.bail(t.span(), "`?` in a fn returning `Option` on a value that is not an `Option`"),
            };
            let r = self.early_payload("none");
            let x = self.fresh();
            stmts.push(Stmt::Bind(x.clone(), Doc::atom(format!("RustSem.try_option {} {}", v, r))));
            return Ok((x, inner));
        }
        self.try_call(&t.expr, t.span(), true, stmts)
    }

    /// `call?` (also used for a `Result` call in tail position: `g(..)` ≡ `Ok(g(..)?)` for equal error types)
    pub fn try_call(&mut self, call: &syn::Expr, span: proc_macro2::Span, _question: bool, stmts: &mut Vec<Stmt>) -> R<(String, Ty)> {
        if self.err.is_none() {
            return self.bail(span, "`?` in a function that does not return `Result`");
        }
        let mut inner: &syn::Expr = call;
        while let syn::Expr::Paren(p) = inner {
            inner = &p.expr;
        }
        if let syn::Expr::MethodCall(m) = inner {
            if let Some(r) = self.mut_method_call(m, true, stmts)? {
                return Ok(r);
            }
        }
        let (term, info, places) = self.call_term(inner, stmts)?;
        let (ok, er) = match &info.ret {
            Ty::Res(a, b) => ((**a).clone(), (**b).clone()),
            _ => return self.bail(span, "`?` on a call that does not return `Result`"),
        };
        if info.self_mode == SelfMode::Mut {
            return self.bail(span, "`&mut self` method called on something that is not a place");
        }
        if info.err_state && self.err_state {
            for pl in &places {
                self.snapshot_for_update(pl, stmts)?;
            }
        }
        let caller = self.try_caller(&er, info.err_state, &places, span);
        self.snapshots.clear();
        let caller = caller?;
        let v = self.finish_call(&caller, &term, &info, &places, &ok, stmts)?;
        Ok((v, ok))
    }

    fn call(&mut self, c: &syn::ExprCall, exp: Option<&Ty>, whole: &syn::Expr, stmts: &mut Vec<Stmt>) -> R<(String, Ty)> {
        let p = match &*c.func {
            syn::Expr::Path(p) if p.qself.is_none() => &p.path,
            _ => return self.bail(c.func.span(), "unsupported callee"),
        };
        let segs = path_strs(p);
        let args: Vec<&syn::Expr> = c.args.iter().collect();
        let last = segs.last().unwrap().as_str();
        // a call of a local closure: its body, inlined
        if let Some(blk) = self.closure_call_block(whole) {
            return self.expr(&blk, exp, stmts);
        }
        // an external source of randomness: an explicit parameter of the generated fn
        if args.is_empty()
            && crate::manifest::RANDOM_SOURCES.iter().any(|(_, n)| *n == last)
            && !self.g.fns.contains_key(&(None, last.to_string()))
        {
            self.rand_sites += 1;
            let ty = match exp {
                Some(t @ Ty::List(..)) => t.clone(),
                _ => Ty::List(Box::new(Ty::u8()), ListKind::Array),
            };
            return Ok((format!("rand{}", self.rand_sites), ty));
        }
        // `Box::new(x)`: a box is its content
        if segs.len() == 2 && segs[0] == "Box" && last == "new" && args.len() == 1 {
            return self.expr(args[0], exp, stmts);
        }
        if segs.len() == 1 && last == "Some" && args.len() == 1 {
            let inner = match exp {
                Some(Ty::Opt(t)) => Some((**t).clone()),
                _ => None,
            };
            let (t, ty) = self.expr(args[0], inner.as_ref(), stmts)?;
            let ty = match inner {
                Some(i) if !i.has_unknown() => i,
                _ => ty,
            };
            return Ok((format!("(some {})", t), Ty::Opt(Box::new(ty))));
        }
        if segs.len() == 1 && (last == "Ok" || last == "Err") {
            return self.bail(whole.span(), "`Ok(..)` / `Err(..)` are only supported in return position");
        }
        if last == "take" && segs.len() >= 2 && segs[segs.len() - 2] == "mem" && args.len() == 1 {
            if let syn::Expr::Reference(r) = args[0] {
                if r.mutability.is_some() {
                    let pl = self.place(&r.expr, stmts)?;
                    let ty = pl.ty();
                    let dflt = match &ty {
                        // (`Box<[T]>` / `&[T]`: the empty slice)
                        Ty::List(_, ListKind::Vec) | Ty::List(_, ListKind::Bytes) | Ty::List(_, ListKind::Slice) => "[]",
                        Ty::Int(_) => "0",
                        Ty::Bool => "false",
                        Ty::Opt(_) => "none",
                        _ => return self.bail(whole.span(), "`mem::take` on a type without a known `Default`"),
                    };
                    let cur = self.read(&pl, stmts)?;
                    let t = self.fresh();
                    stmts.push(Stmt::Let(t.clone(), cur));
                    self.write(&pl, dflt.to_string(), stmts)?;
                    return Ok((t, ty));
                }
            }
            return self.bail(whole.span(), "`mem::take` needs a `&mut place` argument");
        }
        if segs.len() >= 2 && segs[segs.len() - 2] == "Error" && last == "new" && args.len() == 2
            && (segs.len() == 2 || segs[segs.len() - 3] == "io")
        {
            // `io::Error::new(kind, msg)`: the content of an io::Error is not modelled; arguments must be pure
            for a in &args {
                match a {
                    syn::Expr::Path(_) | syn::Expr::Lit(_) => {}
                    other => return self.bail(other.span(), "`io::Error::new` arguments must be a kind path and a literal"),
                }
            }
            return Ok(("RustSem.IoError.opaque".into(), Ty::Opaque("RustSem.IoError".into())));
        }
        if segs.len() == 2 && segs[0] == "Duration" && (last == "from_secs" || last == "from_millis") && args.len() == 1 {
            // `u64` seconds / milliseconds always fit a Duration
            let (t, ty) = self.expr(args[0], Some(&Ty::Int(64)), stmts)?;
            if !ty.is_int() {
                return self.bail(whole.span(), "Duration::from_* needs an integer");
            }
            return Ok((format!("(RustSem.Duration.{} {})", last, t), Ty::Dur));
        }
        if segs.len() == 2 && (segs[0] == "BTreeMap" || segs[0] == "HashMap") && last == "new" && args.is_empty() {
            let t = match exp {
                Some(t @ Ty::Map(_, _, _)) => t.clone(),
                _ => Ty::Map(Box::new(Ty::Int(64)), Box::new(Ty::Unknown), segs[0] == "HashMap"),
            };
            return Ok(("[]".into(), t));
        }
        if segs.len() >= 2 && segs[segs.len() - 2] == "Cursor" && last == "new" && args.len() == 1 {
            // `io::Cursor::new(slice)`: a reader (`io::Read`) or, over a `&mut` buffer, a writer (`io::Write`) whose writes
            // land in that buffer.  Which one is decided by the expected type (the callee's `impl io::Read` /
            // `impl io::Write` parameter) or, for a `let`, by how the variable is used (see `cursor_kind_hint`).
            let mut inner: &syn::Expr = args[0];
            let mut by_mut_ref = false;
            loop {
                match inner {
                    syn::Expr::Reference(r) => {
                        by_mut_ref = by_mut_ref || r.mutability.is_some();
                        inner = &r.expr
                    }
                    syn::Expr::Paren(p) => inner = &p.expr,
                    syn::Expr::Unary(u) if matches!(u.op, syn::UnOp::Deref(_)) => inner = &u.expr,
                    _ => break,
                }
            }
            // `buffer[..]` is the buffer
            if let syn::Expr::Index(ix) = inner {
                if let syn::Expr::Range(r) = &*ix.index {
                    if r.start.is_none() && r.end.is_none() {
                        inner = &ix.expr;
                    }
                }
            }
            // a `&mut [u8]` parameter passed without `&mut`
            if let syn::Expr::Path(p) = inner {
                if p.path.segments.len() == 1 && self.mut_params.contains(&p.path.segments[0].ident.to_string()) {
                    by_mut_ref = true;
                }
            }
            let want_writer = match exp {
                Some(Ty::Named(n)) if n == "WriteCursor" => true,
                Some(Ty::Named(n)) if n == "ReadCursor" => false,
                _ => self.cursor_kind_hint.take().unwrap_or(false),
            };
            if want_writer {
                if !by_mut_ref || !self.is_place(inner) {
                    return self.bail(whole.span(), "a writing `Cursor::new` needs `&mut <buffer place>`");
                }
                let pl = self.place(inner, stmts)?;
                if !matches!(pl.ty(), Ty::List(ref e, _) if matches!(**e, Ty::Int(8))) {
                    return self.bail(whole.span(), "`Cursor::new` needs a byte buffer");
                }
                let cur = self.read(&pl, stmts)?;
                self.pending_backing = Some(pl);
                return Ok((format!("(RustSem.WriteCursor.new {})", cur), Ty::Named("WriteCursor".into())));
            }
            let (t, ty) = self.expr(inner, None, stmts)?;
            if !matches!(&ty, Ty::List(e, _) if matches!(**e, Ty::Int(8))) {
                return self.bail(whole.span(), "`Cursor::new` needs a byte slice");
            }
            return Ok((format!("(RustSem.ReadCursor.new {})", t), Ty::Named("ReadCursor".into())));
        }
        // `OctetsMut::with_slice(&mut buffer)` / `Octets::with_slice(slice)`: a cursor at offset 0.  The mutable cursor
        // borrows `buffer`: whatever is written through it is written into `buffer`
        if segs.len() >= 2 && (segs[segs.len() - 2] == "OctetsMut" || segs[segs.len() - 2] == "Octets") && last == "with_slice" && args.len() == 1 {
            let is_mut = segs[segs.len() - 2] == "OctetsMut";
            let mut inner: &syn::Expr = args[0];
            let mut by_mut_ref = false;
            loop {
                match inner {
                    syn::Expr::Reference(r) => {
                        by_mut_ref = by_mut_ref || r.mutability.is_some();
                        inner = &r.expr
                    }
                    syn::Expr::Paren(p) => inner = &p.expr,
                    _ => break,
                }
            }
            if is_mut {
                if !by_mut_ref || !self.is_place(inner) {
                    return self.bail(whole.span(), "`OctetsMut::with_slice` needs `&mut <buffer variable>`");
                }
                let pl = self.place(inner, stmts)?;
                if !matches!(pl.ty(), Ty::List(ref e, _) if matches!(**e, Ty::Int(8))) {
                    return self.bail(whole.span(), "`OctetsMut::with_slice` needs a byte buffer");
                }
                let cur = self.read(&pl, stmts)?;
                self.pending_backing = Some(pl);
                return Ok((format!("(RustSem.OctetsMut.with_slice {})", cur), Ty::Named("OctetsMut".into())));
            }
            let (t, ty) = self.expr(inner, None, stmts)?;
            if !matches!(&ty, Ty::List(e, _) if matches!(**e, Ty::Int(8))) {
                return self.bail(whole.span(), "`Octets::with_slice` needs a byte slice");
            }
            return Ok((format!("(RustSem.Octets.with_slice {})", t), Ty::Named("Octets".into())));
        }
        // std::net
        if segs.len() >= 2 && (segs[segs.len() - 2] == "Ipv4Addr" || segs[segs.len() - 2] == "Ipv6Addr") && last == "from" && args.len() == 1 {
            let (t, ty) = self.expr(args[0], None, stmts)?;
            if !matches!(&ty, Ty::List(e, ListKind::Array) if matches!(**e, Ty::Int(8))) {
                return self.bail(whole.span(), "`Ipv4Addr::from` / `Ipv6Addr::from` need a byte array");
            }
            return Ok((t, Ty::List(Box::new(Ty::u8()), ListKind::Array)));
        }
        if segs.len() >= 2 && segs[segs.len() - 2] == "IpAddr" && (last == "V4" || last == "V6") && args.len() == 1 {
            let (t, ty) = self.expr(args[0], None, stmts)?;
            if !matches!(&ty, Ty::List(e, _) if matches!(**e, Ty::Int(8))) {
                return self.bail(whole.span(), "`IpAddr::V4` / `IpAddr::V6` need an `Ipv4Addr` / `Ipv6Addr`");
            }
            return Ok((format!("(RustSem.IpAddr.{} {})", if last == "V4" { "v4" } else { "v6" }, t), Ty::Opaque("RustSem.IpAddr".into())));
        }
        if segs.len() >= 2 && segs[segs.len() - 2] == "SocketAddr" && last == "new" && args.len() == 2 {
            let (ip, it) = self.expr(args[0], None, stmts)?;
            if !matches!(&it, Ty::Opaque(o) if o == "RustSem.IpAddr") {
                return self.bail(whole.span(), "`SocketAddr::new` needs an `IpAddr`");
            }
            let (port, _) = self.expr(args[1], Some(&Ty::Int(16)), stmts)?;
            return Ok((format!("(RustSem.SocketAddr.new {} {})", ip, port), Ty::Opaque("RustSem.SocketAddr".into())));
        }
        if segs.len() == 2 && segs[0] == "BTreeSet" && last == "new" && args.is_empty() {
            let t = match exp {
                Some(t @ Ty::Set(_)) => t.clone(),
                _ => Ty::Set(Box::new(Ty::Int(64))),
            };
            return Ok(("[]".into(), t));
        }
        if segs.len() == 2 && segs[0] == "i32" && last == "from_le_bytes" && args.len() == 1 {
            let (t, ty) = self.expr(args[0], None, stmts)?;
            if !matches!(&ty, Ty::List(e, _) if matches!(**e, Ty::Int(8))) {
                return self.bail(whole.span(), "from_le_bytes needs a byte array");
            }
            return Ok((format!("(RustSem.i32_from_le_bytes {})", t), Ty::SInt(32)));
        }
        if segs.len() == 2 {
            if let Some(w) = int_width(&segs[0]) {
                match (last, args.len()) {
                    ("from_le_bytes", 1) | ("from_be_bytes", 1) => {
                        let (t, ty) = self.expr(args[0], None, stmts)?;
                        if !matches!(&ty, Ty::List(e, _) if matches!(**e, Ty::Int(8))) {
                            return self.bail(whole.span(), "from_*_bytes needs a byte array");
                        }
                        return Ok((format!("(RustSem.{} {})", last, t), Ty::Int(w)));
                    }
                    ("from", 1) => {
                        let (t, ty) = self.expr(args[0], None, stmts)?;
                        return match ty {
                            Ty::Int(v) if v <= w => Ok((t, Ty::Int(w))),
                            Ty::Bool => Ok((format!("(RustSem.castBool {})", t), Ty::Int(w))),
                            _ => self.bail(whole.span(), "unsupported `from` conversion"),
                        };
                    }
                    _ => {}
                }
            }
            if ((segs[0] == "Vec" || segs[0] == "VecDeque") && last == "new" && args.is_empty()) || (segs[0] == "Bytes" && last == "new" && args.is_empty()) {
                let et = match exp {
                    Some(Ty::List(t, _)) => (**t).clone(),
                    _ => Ty::Unknown,
                };
                let kind = if segs[0] == "Vec" { ListKind::Vec } else { ListKind::Bytes };
                return Ok(("[]".into(), Ty::List(Box::new(et), kind)));
            }
            if segs[0] == "Vec" && last == "with_capacity" && args.len() == 1 {
                let (_n, nt) = self.expr(args[0], Some(&Ty::usize()), stmts)?;
                if !nt.is_int() {
                    return self.bail(whole.span(), "capacity is not an integer");
                }
                let et = match exp {
                    Some(Ty::List(t, _)) => (**t).clone(),
                    _ => Ty::Unknown,
                };
                return Ok(("[]".into(), Ty::List(Box::new(et), ListKind::Vec)));
            }
            if segs[0] == "Bytes" && (last == "from" || last == "copy_from_slice") && args.len() == 1 {
                let (t, ty) = self.expr(args[0], None, stmts)?;
                if !matches!(&ty, Ty::List(e, _) if matches!(**e, Ty::Int(8))) {
                    return self.bail(whole.span(), "Bytes::from needs bytes");
                }
                return Ok((t, Ty::List(Box::new(Ty::u8()), ListKind::Bytes)));
            }
        }
        // enum tuple-variant constructor
        if let Some((en, v)) = self.resolve_variant(p) {
            let info = self.g.enums.get(&en).unwrap().variants.iter().find(|x| x.name == v).unwrap().clone();
            if info.fields.len() != args.len() {
                return self.bail(whole.span(), "wrong number of variant fields");
            }
            let mut s = self.variant_lean(&en, &v);
            for (a, (_, ft)) in args.iter().zip(info.fields.iter()) {
                let (t, _) = self.expr(a, Some(ft), stmts)?;
                s.push(' ');
                s.push_str(&t);
            }
            return Ok((format!("({})", s), Ty::Named(en)));
        }
        self.bind_call(whole, stmts)
    }

    fn method_call(&mut self, m: &syn::ExprMethodCall, exp: Option<&Ty>, whole: &syn::Expr, stmts: &mut Vec<Stmt>) -> R<(String, Ty)> {
        let name = m.method.to_string();
        // `map.remove(&k)` used as a value: the old binding, the place keeps the map without it
        if name == "remove" && m.args.len() == 1 && self.is_place(&m.receiver) {
            let mut probe: Vec<Stmt> = Vec::new();
            let saved = self.tmp_mark();
            if let Ok(pl) = self.place(&m.receiver, &mut probe) {
                if let Ty::Map(kt, vt, _) = pl.ty() {
                    stmts.extend(probe);
                    let (k, _) = self.expr(&m.args[0], Some(&kt), stmts)?;
                    let cur = self.read(&pl, stmts)?;
                    let mns = pl.ty().map_ns();
                    let t = self.fresh();
                    stmts.push(Stmt::Let(t.clone(), format!("({mns}.find? {} {})", cur, k)));
                    self.write(&pl, format!("({mns}.remove {} {})", cur, k), stmts)?;
                    return Ok((t, Ty::Opt(vt)));
                }
            }
            self.tmp_reset(saved);
        }
        // `place.take()` on an `Option` place: the old value, the place keeps `None`
        if name == "take" && m.args.is_empty() && self.is_place(&m.receiver) {
            let mut probe: Vec<Stmt> = Vec::new();
            let saved = self.tmp_mark();
            if let Ok(pl) = self.place(&m.receiver, &mut probe) {
                if let Ty::Opt(_) = pl.ty() {
                    stmts.extend(probe);
                    let cur = self.read(&pl, stmts)?;
                    let t = self.fresh();
                    stmts.push(Stmt::Let(t.clone(), cur));
                    self.write(&pl, "none".to_string(), stmts)?;
                    return Ok((t, pl.ty()));
                }
            }
            self.tmp_reset(saved);
        }
        // `map.insert(k, v)` used as a value: the old binding
        if name == "insert" && m.args.len() == 2 && self.is_place(&m.receiver) {
            let mut probe: Vec<Stmt> = Vec::new();
            let saved = self.tmp_mark();
            if let Ok(pl) = self.place(&m.receiver, &mut probe) {
                if let Ty::Map(kt, vt, _) = pl.ty() {
                    stmts.extend(probe);
                    let (k, _) = self.expr(&m.args[0], Some(&kt), stmts)?;
                    let (v, _) = self.expr(&m.args[1], Some(&vt), stmts)?;
                    let cur = self.read(&pl, stmts)?;
                    let mns = pl.ty().map_ns();
                    let t = self.fresh();
                    stmts.push(Stmt::Let(t.clone(), format!("({mns}.find? {} {})", cur, k)));
                    self.write(&pl, format!("({mns}.insert {} {} {})", cur, k, v), stmts)?;
                    return Ok((t, Ty::Opt(vt)));
                }
            }
            self.tmp_reset(saved);
        }
        // `btree.pop_first()`: the first binding in key order, the place keeps the rest
        if name == "pop_first" && m.args.is_empty() && self.is_place(&m.receiver) {
            let pl = self.place(&m.receiver, stmts)?;
            return match pl.ty() {
                Ty::Map(kt, vt, false) => {
                    let cur = self.read(&pl, stmts)?;
                    let t = self.fresh();
                    stmts.push(Stmt::Let(t.clone(), format!("(RustSem.Map.first? {})", cur)));
                    self.write(&pl, format!("(RustSem.Map.without_first {})", cur), stmts)?;
                    Ok((t, Ty::Opt(Box::new(Ty::Tuple(vec![*kt, *vt])))))
                }
                _ => self.bail(whole.span(), "`pop_first` is only supported on a `BTreeMap`"),
            };
        }
        if super::analysis::MUTATING_METHODS.contains(&name.as_str()) {
            return self.bail(whole.span(), format!("`{}` is only supported as a statement on a place", name));
        }
        // iterator `next()` on a place: head of the list, the place keeps the tail
        if (name == "next" || name == "pop_front") && m.args.is_empty() && self.is_place(&m.receiver) {
            let pl = self.place(&m.receiver, stmts)?;
            let ok_kind = match (&pl.ty(), name.as_str()) {
                (Ty::List(_, ListKind::Iter), "next") => true,
                (Ty::List(_, ListKind::Vec), "pop_front") => true,
                _ => false,
            };
            if let (true, Ty::List(et, _)) = (ok_kind, pl.ty()) {
                let cur = self.read(&pl, stmts)?;
                let t = self.fresh();
                stmts.push(Stmt::Let(t.clone(), format!("(List.head? {})", cur)));
                self.write(&pl, format!("(List.tail {})", cur), stmts)?;
                return Ok((t, Ty::Opt(et)));
            }
            return self.bail(whole.span(), "`next()` / `pop_front()` are only supported on a slice iterator / VecDeque place");
        }
        // translated methods first (receiver of a translated type)
        let mut probe: Vec<Stmt> = Vec::new();
        let saved = self.tmp_mark();
        let (r, rt) = self.expr(&m.receiver, None, &mut probe)?;
        if let Ty::Named(n) = &rt {
            // observers of the semantic-model cursor types are pure
            let pure_model = match (n.as_str(), name.as_str(), m.args.len()) {
                ("OctetsMut" | "Octets", "cap" | "off" | "len", 0) => Some(Ty::usize()),
                ("OctetsMut" | "Octets", "is_empty", 0) => Some(Ty::Bool),
                ("OctetsMut" | "Octets", "to_vec", 0) => Some(Ty::List(Box::new(Ty::u8()), ListKind::Vec)),
                ("Range", "is_empty", 0) => Some(Ty::Bool),
                ("ReadCursor" | "WriteCursor", "position", 0) => Some(Ty::Int(64)),
                _ => None,
            };
            if let Some(t) = pure_model {
                stmts.extend(probe);
                return Ok((format!("(RustSem.{}.{} {})", n, name, r), t));
            }
            if n == "Range" && name == "contains" && m.args.len() == 1 {
                stmts.extend(probe);
                let (x, xt) = self.expr(&m.args[0], Some(&Ty::Int(64)), stmts)?;
                if !xt.is_int() {
                    return self.bail(whole.span(), "`contains` needs an integer");
                }
                return Ok((format!("(RustSem.Range.contains {} {})", r, x), Ty::Bool));
            }
            // `#[derive(Clone)]` on a translated type: the identity on the representation
            if name == "clone" && m.args.is_empty() && self.g.derive_clone.contains(n) {
                stmts.extend(probe);
                return Ok((r, rt.clone()));
            }
            // `x.into()` to another translated type: a selected `impl From<Src> for Dst`
            if name == "into" && m.args.is_empty() && !self.g.fns.contains_key(&(Some(n.clone()), "into".to_string())) {
                if let Some(Ty::Named(dst)) = exp {
                    if dst == n {
                        stmts.extend(probe);
                        return Ok((r, rt.clone()));
                    }
                    if let Some((_, _, key)) = self.g.from_impls.iter().find(|(s0, d0, _)| s0 == n && d0 == dst) {
                        let f = self.g.fns.get(key).unwrap()[0].clone();
                        if f.order >= self.order {
                            return self.bail(whole.span(), "the `From` impl used by `.into()` must be emitted before its use: fix the manifest order");
                        }
                        stmts.extend(probe);
                        let t = self.fresh();
                        stmts.push(Stmt::Bind(t.clone(), Doc::atom(format!("Exec.call ({} {})", self.fn_lean_name(&f), r))));
                        return Ok((t, Ty::Named(dst.clone())));
                    }
                    return self.bail(whole.span(), format!("`.into()` needs `impl From<{}> for {}`, which is not a selected item", n, dst));
                }
            }
            self.tmp_reset(saved);
            return self.bind_call(whole, stmts);
        }
        stmts.extend(probe);
        let args: Vec<&syn::Expr> = m.args.iter().collect();
        match (&rt, name.as_str(), args.len()) {
            (Ty::Int(w), "checked_add" | "checked_sub" | "checked_mul", 1) => {
                let (a, _) = self.expr(args[0], Some(&rt), stmts)?;
                Ok((format!("(RustSem.{} {} {} {})", name, w, r, a), Ty::Opt(Box::new(rt.clone()))))
            }
            (Ty::Int(w), "wrapping_add" | "wrapping_sub" | "wrapping_mul" | "saturating_add" | "saturating_sub" | "saturating_mul", 1) => {
                let (a, _) = self.expr(args[0], Some(&rt), stmts)?;
                Ok((format!("(RustSem.{} {} {} {})", name, w, r, a), rt.clone()))
            }
            (Ty::Int(_), "min" | "max", 1) => {
                let (a, _) = self.expr(args[0], Some(&rt), stmts)?;
                Ok((format!("(Nat.{} {} {})", name, r, a), rt.clone()))
            }
            (Ty::Int(w), "to_le_bytes" | "to_be_bytes", 0) => {
                Ok((format!("(RustSem.{} {} {})", name, w, r), Ty::List(Box::new(Ty::u8()), ListKind::Array)))
            }
            (Ty::Int(_) | Ty::Bool, "clone", 0) => Ok((r, rt.clone())),
            (Ty::List(e, k), "iter", 0) if *k != ListKind::Iter => Ok((r, Ty::List(e.clone(), ListKind::Iter))),
            // `vec.into_iter()`: the elements by value, same order
            (Ty::List(e, ListKind::Vec), "into_iter", 0) => Ok((r, Ty::List(e.clone(), ListKind::Iter))),
            (Ty::List(e, ListKind::Iter), "rev", 0) => Ok((format!("(List.reverse {})", r), Ty::List(e.clone(), ListKind::Iter))),
            (Ty::List(_, _), "len", 0) => Ok((format!("(RustSem.len {})", r), Ty::usize())),
            (Ty::List(e, ListKind::Bytes), "slice", 1) => {
                // `Bytes::slice(a..b)` (panics when the range is invalid, like slice indexing)
                let rg = match args[0] {
                    syn::Expr::Range(rg) if matches!(rg.limits, syn::RangeLimits::HalfOpen(_)) => rg,
                    o => return self.bail(o.span(), "`Bytes::slice` needs a half-open range"),
                };
                let a = match &rg.start {
                    Some(a) => self.expr(a, Some(&Ty::usize()), stmts)?.0,
                    None => "0".to_string(),
                };
                let b = match &rg.end {
                    Some(b) => self.expr(b, Some(&Ty::usize()), stmts)?.0,
                    None => format!("(RustSem.len {})", r),
                };
                let v = self.fresh();
                let site = self.site(whole);
                stmts.push(Stmt::Bind(v.clone(), Doc::atom(format!("RustSem.slice {} {} {} {}", r, a, b, site))));
                Ok((v, Ty::List(e.clone(), ListKind::Bytes)))
            }
            (Ty::Int(w), "div_ceil", 1) => {
                let (a, _) = self.expr(args[0], Some(&rt), stmts)?;
                let v = self.fresh();
                let site = self.site(whole);
                stmts.push(Stmt::Bind(v.clone(), Doc::atom(format!("RustSem.div_ceil {} {} {} {}", w, r, a, site))));
                Ok((v, rt.clone()))
            }
            (Ty::List(e, k), "last" | "first", 0) if *k != ListKind::Iter => {
                Ok((format!("(List.{} {})", if name == "last" { "getLast?" } else { "head?" }, r), Ty::Opt(e.clone())))
            }
            (Ty::List(_, _), "is_empty", 0) => Ok((format!("(RustSem.is_empty {})", r), Ty::Bool)),
            // `slice.contains(&x)` (`==` of the element type)
            (Ty::List(e, k), "contains", 1) if *k != ListKind::Iter => {
                let et = (**e).clone();
                let (x, _) = self.expr(&m.args[0], Some(&et), stmts)?;
                Ok((format!("(RustSem.contains {} {})", r, x), Ty::Bool))
            }
            (Ty::List(e, _), "to_vec" | "into_vec", 0) => Ok((r, Ty::List(e.clone(), ListKind::Vec))),
            (Ty::List(e, ListKind::Vec), "into_boxed_slice", 0) => Ok((r, Ty::List(e.clone(), ListKind::Slice))),
            (Ty::List(_, _), "clone" | "as_slice" | "as_ref", 0) => Ok((r, rt.clone())),
            // `x.into()` on an unsigned integer: the same value (`I: Into<uN>` parameters, widening conversions)
            (Ty::Int(w), "into", 0) => match exp {
                Some(Ty::Int(w2)) if w2 >= w => Ok((r, Ty::Int(*w2))),
                Some(Ty::Int(_)) => self.bail(whole.span(), "`.into()` to a narrower integer type"),
                _ => Ok((r, Ty::Int(*w))),
            },
            (Ty::List(e, k), "into", 0) => {
                // identity conversions between byte containers only
                match (exp, &**e) {
                    (Some(Ty::List(te, tk)), Ty::Int(8)) if matches!(**te, Ty::Int(8)) && (*k == ListKind::Vec || *k == ListKind::Bytes) && (*tk == ListKind::Vec || *tk == ListKind::Bytes) => {
                        Ok((r, Ty::List(te.clone(), tk.clone())))
                    }
                    // no annotation (`let m = message.into();` of a `B: Into<Bytes>` parameter): the byte containers share
                    // one representation, the value keeps its kind
                    (None, Ty::Int(8)) if *k == ListKind::Vec || *k == ListKind::Bytes => Ok((r, rt.clone())),
                    _ => self.bail(whole.span(), "`.into()` is only supported between `Vec<u8>` and `Bytes` with a known target type"),
                }
            }
            (Ty::Opt(t), "is_some_and", 1) | (Ty::Opt(t), "map_or", 2) => {
                // `o.is_some_and(|x| e)` / `o.map_or(d, |x| e)` with a simple closure
                let (dflt, dty, clos) = if name == "map_or" {
                    let (d, dt) = self.expr(args[0], exp, stmts)?; // the default is evaluated eagerly
                    (d, Some(dt), args[1])
                } else {
                    ("false".to_string(), Some(Ty::Bool), args[0])
                };
                let (x, body) = match clos {
                    syn::Expr::Closure(c) if c.inputs.len() == 1 && c.capture.is_none() => match &c.inputs[0] {
                        syn::Pat::Ident(pi) if pi.subpat.is_none() => (pi.ident.to_string(), &*c.body),
                        syn::Pat::Reference(pr) => match &*pr.pat {
                            syn::Pat::Ident(pi) if pi.subpat.is_none() => (pi.ident.to_string(), &*c.body),
                            o => return self.bail(o.span(), "unsupported closure parameter"),
                        },
                        o => return self.bail(o.span(), "unsupported closure parameter"),
                    },
                    o => return self.bail(o.span(), "only simple closures `|x| expr` are supported here"),
                };
                self.check_local_name(&x, clos.span())?;
                if !self.assigned_in_expr(body).is_empty() {
                    return self.bail(clos.span(), "closure must not assign outer variables");
                }
                self.push_scope(vec![(x.clone(), (**t).clone())]);
                let mut bs: Vec<Stmt> = Vec::new();
                let rb = self.expr(body, dty.as_ref(), &mut bs);
                self.pop_scope();
                let (b, bt) = rb?;
                let v = self.fresh();
                let d = Doc::Match(
                    r,
                    vec![
                        (format!("some {}", lean_ident(&x)), Doc::seq(bs, Doc::atom(format!("pure {}", b)))),
                        ("none".to_string(), Doc::atom(format!("pure {}", dflt))),
                    ],
                );
                stmts.push(Stmt::Bind(v.clone(), d));
                Ok((v, bt))
            }
            (Ty::List(t, ListKind::Iter), "filter", 1) => {
                // `iter.filter(|pat| e)`: a pure boolean expression is `List.filter`; a body that calls translated fns
                // (which may panic) is `RustSem.filterM` (evaluated eagerly, in order)
                let (cpat, body) = match args[0] {
                    syn::Expr::Closure(c) if c.inputs.len() == 1 && c.capture.is_none() => (&c.inputs[0], &*c.body),
                    o => return self.bail(o.span(), "only simple closures `|x| expr` are supported here"),
                };
                let mut cp: &syn::Pat = cpat;
                while let syn::Pat::Reference(pr) = cp {
                    cp = &pr.pat;
                }
                let (lp, binds) = self.pat(cp, t)?;
                for (n, _) in &binds {
                    self.check_local_name(n, args[0].span())?;
                }
                if !self.assigned_in_expr(body).is_empty() {
                    return self.bail(args[0].span(), "closure must not assign outer variables");
                }
                if super::analysis::expr_leaves_fn(body) {
                    return self.bail(args[0].span(), "`return` / `?` / labelled jumps are not supported in a closure");
                }
                self.push_scope(binds);
                let mut bs: Vec<Stmt> = Vec::new();
                let rb = self.expr(body, Some(&Ty::Bool), &mut bs);
                self.pop_scope();
                let (b, bt) = rb?;
                if !matches!(bt, Ty::Bool) {
                    return self.bail(args[0].span(), "the closure of `filter` must be a boolean expression");
                }
                if bs.is_empty() {
                    Ok((format!("(List.filter (fun {} => {}) {})", Self::paren_pat(&lp), b, r), Ty::List(t.clone(), ListKind::Iter)))
                } else {
                    let v = self.fresh();
                    stmts.push(Stmt::Bind(
                        v.clone(),
                        Doc::Lam(format!("RustSem.filterM {}", r), format!("fun {}", Self::paren_pat(&lp)), Box::new(Doc::seq(bs, Doc::atom(format!("pure {}", b))))),
                    ));
                    Ok((v, Ty::List(t.clone(), ListKind::Iter)))
                }
            }
            (Ty::Dur, "as_secs", 0) => Ok((format!("(RustSem.Duration.as_secs {})", r), Ty::Int(64))),
            (Ty::Opt(_), "as_ref", 0) => Ok((r, rt.clone())),
            (Ty::Opt(t), "map", 1) => {
                let (lp, bs, b, bt) = self.closure1(args[0], t, None)?;
                if !bs.is_empty() {
                    return self.bail(args[0].span(), "the closure of `Option::map` must be a pure expression");
                }
                Ok((format!("(Option.map (fun {} => {}) {})", lp, b, r), Ty::Opt(Box::new(bt))))
            }
            (Ty::List(t, ListKind::Iter), "enumerate", 0) => {
                Ok((format!("(RustSem.enumerate {})", r), Ty::List(Box::new(Ty::Tuple(vec![Ty::usize(), (**t).clone()])), ListKind::Iter)))
            }
            // `find` / `find_map` / `filter_map` / `any` / `position` with a closure: the pure `List` function when the body
            // is a pure expression, else the monadic primitive of RustSem (same evaluation order and short-circuiting)
            (Ty::List(t, ListKind::Iter), "find" | "find_map" | "filter_map" | "any" | "position", 1) => {
                let want = match name.as_str() {
                    "find" | "any" | "position" => Some(Ty::Bool),
                    _ => None,
                };
                let (lp, bs, b, bt) = self.closure1(args[0], t, want.as_ref())?;
                let (pure_fn, mon_fn, rty): (String, &str, Ty) = match name.as_str() {
                    "find" => (format!("(List.find? (fun {} => {}) {})", lp, b, r), "findM", Ty::Opt(t.clone())),
                    "any" => (format!("(List.any {} (fun {} => {}))", r, lp, b), "anyM", Ty::Bool),
                    "position" => (format!("(List.findIdx? (fun {} => {}) {})", lp, b, r), "positionM", Ty::Opt(Box::new(Ty::usize()))),
                    "find_map" => match &bt {
                        Ty::Opt(_) => (format!("(List.findSome? (fun {} => {}) {})", lp, b, r), "find_mapM", bt.clone()),
                        _ => return self.bail(args[0].span(), "the closure of `find_map` must return an `Option`"),
                    },
                    _ => match &bt {
                        Ty::Opt(inner) => (
                            format!("(List.filterMap (fun {} => {}) {})", lp, b, r),
                            "filter_mapM",
                            Ty::List(inner.clone(), ListKind::Iter),
                        ),
                        _ => return self.bail(args[0].span(), "the closure of `filter_map` must return an `Option`"),
                    },
                };
                if matches!(name.as_str(), "find" | "any" | "position") && !matches!(bt, Ty::Bool) {
                    return self.bail(args[0].span(), "the closure must be a boolean expression");
                }
                if bs.is_empty() {
                    Ok((pure_fn, rty))
                } else {
                    let v = self.fresh();
                    stmts.push(Stmt::Bind(
                        v.clone(),
                        Doc::Lam(format!("RustSem.{} {}", mon_fn, r), format!("fun {}", lp), Box::new(Doc::seq(bs, Doc::atom(format!("pure {}", b))))),
                    ));
                    Ok((v, rty))
                }
            }
            (Ty::List(t, ListKind::Iter), "map", 1) => {
                // `iter.map(|pat| e)` with a closure whose body is a pure expression
                let (cpat, body) = match args[0] {
                    syn::Expr::Closure(c) if c.inputs.len() == 1 && c.capture.is_none() => (&c.inputs[0], &*c.body),
                    o => return self.bail(o.span(), "only simple closures `|x| expr` are supported here"),
                };
                let mut cp: &syn::Pat = cpat;
                while let syn::Pat::Reference(pr) = cp {
                    cp = &pr.pat;
                }
                let (lp, binds) = self.pat(cp, t)?;
                for (n, _) in &binds {
                    self.check_local_name(n, args[0].span())?;
                }
                if !self.assigned_in_expr(body).is_empty() {
                    return self.bail(args[0].span(), "closure must not assign outer variables");
                }
                self.push_scope(binds);
                let mut bs: Vec<Stmt> = Vec::new();
                let rb = self.expr(body, None, &mut bs);
                self.pop_scope();
                let (b, bt) = rb?;
                if !bs.is_empty() {
                    return self.bail(args[0].span(), "the closure of `map` must be a pure expression");
                }
                Ok((format!("(List.map (fun {} => {}) {})", Self::paren_pat(&lp), b, r), Ty::List(Box::new(bt), ListKind::Iter)))
            }
            (Ty::List(t, ListKind::Iter), "collect", 0) => match exp {
                Some(Ty::List(te, ListKind::Vec)) if !te.has_unknown() && !Self::same_shape(te, t) => {
                    self.bail(whole.span(), "`collect()` into a Vec of another element type")
                }
                _ => Ok((r, Ty::List(t.clone(), ListKind::Vec))),
            },
            (Ty::List(_, ListKind::Iter), "count", 0) => Ok((format!("(RustSem.len {})", r), Ty::usize())),
            (Ty::List(t, ListKind::Iter), "flatten", 0) => match &**t {
                // an iterator over `Option<T>`: its `Some` values in order
                Ty::Opt(inner) => Ok((format!("(List.filterMap (fun x => x) {})", r), Ty::List(inner.clone(), ListKind::Iter))),
                _ => self.bail(whole.span(), "`flatten` is only supported on an iterator over `Option`s"),
            },
            // `x.into()` through a selected `impl From<Src> for Dst` (the target type is known from the context)
            (Ty::Named(_) | Ty::Opaque(_), "into", 0) if matches!(exp, Some(Ty::Named(_))) => {
                let dst = match exp {
                    Some(Ty::Named(d)) => d.clone(),
                    _ => unreachable!(),
                };
                let src = match &rt {
                    Ty::Named(a) => a.clone(),
                    Ty::Opaque(a) => crate::manifest::OPAQUE_TYPES
                        .iter()
                        .find(|(_, lean)| *lean == a.as_str())
                        .and_then(|(pat, _)| pat.last().map(|x| x.to_string()))
                        .unwrap_or_else(|| a.rsplit('.').next().unwrap_or(a).to_string()),
                    _ => unreachable!(),
                };
                if src == dst {
                    return Ok((r, rt.clone()));
                }
                match self.g.from_impls.iter().find(|(s0, d0, _)| *s0 == src && *d0 == dst) {
                    Some((_, _, key)) => {
                        let f = self.g.fns.get(key).unwrap()[0].clone();
                        if f.order >= self.order {
                            return self.bail(whole.span(), "the `From` impl used by `.into()` must be emitted before its use: fix the manifest order");
                        }
                        let t = self.fresh();
                        stmts.push(Stmt::Bind(t.clone(), Doc::atom(format!("Exec.call ({} {})", self.fn_lean_name(&f), r))));
                        Ok((t, Ty::Named(dst)))
                    }
                    None => self.bail(whole.span(), format!("`.into()` needs `impl From<{}> for {}`, which is not a selected item", src, dst)),
                }
            }
            // `io::Error::kind()`
            (Ty::Opaque(o), "kind", 0) if o == "RustSem.IoError" => Ok((format!("(RustSem.IoError.kind {})", r), Ty::Opaque("RustSem.ErrorKind".into()))),
            // std::net
            (Ty::Opaque(o), "port", 0) if o == "RustSem.SocketAddr" || o == "RustSem.SocketAddrV4" || o == "RustSem.SocketAddrV6" => {
                Ok((format!("(RustSem.SocketAddr.port {})", r), Ty::Int(16)))
            }
            (Ty::Opaque(o), "ip", 0) if o == "RustSem.SocketAddrV4" || o == "RustSem.SocketAddrV6" => {
                Ok((format!("(RustSem.SocketAddr.ip_octets {})", r), Ty::List(Box::new(Ty::u8()), ListKind::Array)))
            }
            (Ty::List(e, ListKind::Array), "octets", 0) if matches!(**e, Ty::Int(8)) => Ok((r, Ty::List(Box::new(Ty::u8()), ListKind::Array))),
            (Ty::SInt(32), "to_le_bytes", 0) => Ok((format!("(RustSem.i32_to_le_bytes {})", r), Ty::List(Box::new(Ty::u8()), ListKind::Array))),
            (Ty::Opt(t), "unwrap_or", 1) => {
                let (d, _) = self.expr(args[0], Some(t), stmts)?;
                Ok((format!("(Option.getD {} {})", r, d), (**t).clone()))
            }
            (Ty::Int(w), "leading_zeros" | "trailing_zeros", 0) => Ok((format!("(RustSem.{} {} {})", name, w, r), Ty::Int(32))),
            (Ty::Opt(_), "is_some", 0) => Ok((format!("(Option.isSome {})", r), Ty::Bool)),
            (Ty::Opt(_), "is_none", 0) => Ok((format!("(Option.isNone {})", r), Ty::Bool)),
            (Ty::Map(kt, _, _), "contains_key", 1) => {
                let mns = rt.map_ns();
                let (k, _) = self.expr(args[0], Some(kt), stmts)?;
                Ok((format!("({mns}.contains_key {} {})", r, k), Ty::Bool))
            }
            (Ty::Map(kt, vt, _), "get", 1) => {
                let mns = rt.map_ns();
                let (k, _) = self.expr(args[0], Some(kt), stmts)?;
                Ok((format!("({mns}.find? {} {})", r, k), Ty::Opt(vt.clone())))
            }
            (Ty::Map(kt, vt, false), "first_key_value", 0) => {
                Ok((format!("(RustSem.Map.first? {})", r), Ty::Opt(Box::new(Ty::Tuple(vec![(**kt).clone(), (**vt).clone()])))))
            }
            (Ty::Set(kt), "contains", 1) => {
                let (k, _) = self.expr(args[0], Some(kt), stmts)?;
                Ok((format!("(RustSem.Set.contains {} {})", r, k), Ty::Bool))
            }
            (Ty::Set(_), "len", 0) => Ok((format!("(RustSem.len {})", r), Ty::usize())),
            (Ty::Set(_), "is_empty", 0) => Ok((format!("(RustSem.is_empty {})", r), Ty::Bool)),
            (Ty::Set(kt), "iter", 0) => Ok((r, Ty::List(kt.clone(), ListKind::Iter))),
            (Ty::Map(_, _, _), "len", 0) => Ok((format!("(RustSem.len {})", r), Ty::usize())),
            (Ty::Map(_, _, _), "is_empty", 0) => Ok((format!("(RustSem.is_empty {})", r), Ty::Bool)),
            (Ty::Map(kt, vt, hash), "iter", 0) => {
                if *hash {
                    // only where the manifest says that the result does not depend on the order or is claimed up to a
                    // permutation only
                    let rtxt = match whole {
                        syn::Expr::MethodCall(mc) => self.src(mc.receiver.span(), String::new()),
                        _ => String::new(),
                    };
                    let ok = crate::manifest::HASHMAP_ITER_ORDER_OK.iter().any(|(fl, d, rc, _)| *fl == self.file && *d == self.fn_disp && *rc == rtxt);
                    if !ok {
                        return self.bail(
                            whole.span(),
                            "iteration over a `HashMap` is rejected: the model is key-sorted and the iteration order of a HashMap is unspecified (no HASHMAP_ITER_ORDER_OK entry)",
                        );
                    }
                }
                Ok((r, Ty::List(Box::new(Ty::Tuple(vec![(**kt).clone(), (**vt).clone()])), ListKind::Iter)))
            }
            // `btree.range(a..b)` with a `Range<u64>` value: the bindings with `a ≤ k < b` in key order; panics when `a > b`
            (Ty::Map(kt, vt, false), "range", 1) => {
                let (rg, rt) = self.expr(args[0], Some(&Ty::Named("Range".into())), stmts)?;
                if !matches!(&rt, Ty::Named(n) if n == "Range") {
                    return self.bail(args[0].span(), "`BTreeMap::range` is only supported with a `Range<u64>` value");
                }
                let v = self.fresh();
                let site = self.site(whole);
                stmts.push(Stmt::Bind(v.clone(), Doc::atom(format!("RustSem.Map.range {} {} {}", r, rg, site))));
                Ok((v, Ty::List(Box::new(Ty::Tuple(vec![(**kt).clone(), (**vt).clone()])), ListKind::Iter)))
            }
            (Ty::Opt(t), "expect", 1) => {
                if !matches!(args[0], syn::Expr::Lit(_)) {
                    return self.bail(whole.span(), "`expect` needs a literal message");
                }
                let v = self.fresh();
                let site = self.site(whole);
                stmts.push(Stmt::Bind(v.clone(), Doc::atom(format!("RustSem.unwrap {} {}", r, site))));
                Ok((v, (**t).clone()))
            }
            (Ty::Opt(t), "unwrap", 0) => {
                let v = self.fresh();
                let site = self.site(whole);
                stmts.push(Stmt::Bind(v.clone(), Doc::atom(format!("RustSem.unwrap {} {}", r, site))));
                Ok((v, (**t).clone()))
            }
            // `result.unwrap()`: the `Ok` value, panic on `Err`
            (Ty::Res(t, _), "unwrap", 0) => {
                let v = self.fresh();
                let site = self.site(whole);
                stmts.push(Stmt::Bind(v.clone(), Doc::atom(format!("RustSem.unwrap_ok {} {}", r, site))));
                Ok((v, (**t).clone()))
            }
            _ => self.bail(whole.span(), format!("unsupported method `{}` on this receiver", name)),
        }
    }

    fn expr_macro(&mut self, mac: &syn::Macro, exp: Option<&Ty>, whole: &syn::Expr, stmts: &mut Vec<Stmt>) -> R<(String, Ty)> {
        let name = mac.path.segments.last().map(|s| s.ident.to_string()).unwrap_or_default();
        if mac.path.segments.len() == 1 && name == "vec" {
            enum V {
                Rep(syn::Expr, syn::Expr),
                List(Vec<syn::Expr>),
            }
            let parsed = mac.parse_body_with(|input: syn::parse::ParseStream| -> syn::Result<V> {
                if input.is_empty() {
                    return Ok(V::List(vec![]));
                }
                let first: syn::Expr = input.parse()?;
                if input.peek(syn::Token![;]) {
                    input.parse::<syn::Token![;]>()?;
                    let n: syn::Expr = input.parse()?;
                    return Ok(V::Rep(first, n));
                }
                let mut v = vec![first];
                while !input.is_empty() {
                    input.parse::<syn::Token![,]>()?;
                    if input.is_empty() {
                        break;
                    }
                    v.push(input.parse()?);
                }
                Ok(V::List(v))
            });
            let et = match exp {
                Some(Ty::List(t, _)) => Some((**t).clone()),
                _ => None,
            };
            return match parsed {
                Ok(V::Rep(x, n)) => {
                    let (xs, xt) = self.expr(&x, et.as_ref(), stmts)?;
                    let (ns, nt) = self.expr(&n, Some(&Ty::usize()), stmts)?;
                    if !nt.is_int() {
                        return self.bail(whole.span(), "vec! length is not an integer");
                    }
                    Ok((format!("(RustSem.repeat_ {} {})", xs, ns), Ty::List(Box::new(et.unwrap_or(xt)), ListKind::Vec)))
                }
                Ok(V::List(xs)) => {
                    let mut parts = Vec::new();
                    let mut ty = et.clone().unwrap_or(Ty::Unknown);
                    for x in &xs {
                        let (s, t) = self.expr(x, et.as_ref(), stmts)?;
                        if matches!(ty, Ty::Unknown) {
                            ty = t;
                        }
                        parts.push(s);
                    }
                    Ok((format!("[{}]", parts.join(", ")), Ty::List(Box::new(ty), ListKind::Vec)))
                }
                Err(_) => self.bail(whole.span(), "cannot parse `vec!` arguments"),
            };
        }
        if mac.path.segments.len() == 1 && name == "matches" {
            let parsed = mac.parse_body_with(|input: syn::parse::ParseStream| -> syn::Result<(syn::Expr, syn::Pat, bool)> {
                let e: syn::Expr = input.parse()?;
                input.parse::<syn::Token![,]>()?;
                let p = syn::Pat::parse_multi_with_leading_vert(input)?;
                let guard = input.peek(syn::Token![if]);
                if !guard && input.peek(syn::Token![,]) {
                    input.parse::<syn::Token![,]>()?;
                }
                Ok((e, p, guard || !input.is_empty()))
            });
            return match parsed {
                Ok((_, _, true)) => self.bail(whole.span(), "`matches!` with a guard is not supported"),
                Ok((e, p, false)) => {
                    let (s, st) = self.expr(&e, None, stmts)?;
                    let (ps, binds) = self.pat(&p, &st)?;
                    if !binds.is_empty() {
                        return self.bail(whole.span(), "`matches!` pattern must not bind variables");
                    }
                    Ok((format!("(match {} with | {} => true | _ => false)", s, ps), Ty::Bool))
                }
                Err(_) => self.bail(whole.span(), "cannot parse `matches!` arguments"),
            };
        }
        self.bail(whole.span(), format!("unsupported macro `{}!`", name))
    }
}
