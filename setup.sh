#!/bin/sh
# Build the framework from files on disk only (offline).
set -e
cd /verif
python3 tools/gen_consts.py
cd /verif/translator && CARGO_NET_OFFLINE=true cargo build --offline && ./target/debug/translator --repo /repo --out /verif/lean/RenetVerif/Generated/Src.lean
cd /verif/lean && lake build RenetVerif driver
cd /verif/harness && CARGO_NET_OFFLINE=true cargo build --offline
echo setup-ok
