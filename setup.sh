#!/bin/sh
# Build the framework from files on disk only (offline).
set -e
cd /verif
python3 tools/gen_consts.py
cd /verif/lean && lake build RenetVerif driver
cd /verif/harness && CARGO_NET_OFFLINE=true cargo build --offline
echo setup-ok
