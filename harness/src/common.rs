//! Shared infrastructure of the correspondence harness: PRNG, hex, the World/Profile/Oracle
//! types, case runner (implementation side), Lean driver invocation, diffing, shrinking.
use std::io::Write;
use std::panic::{catch_unwind, AssertUnwindSafe};
use std::process::{Command, Stdio};

#[derive(Clone)]
pub struct Rng(pub u64);

impl Rng {
    pub fn new(seed: u64) -> Self {
        let mut r = Rng(seed ^ 0x9E37_79B9_7F4A_7C15);
        r.next_u64();
        r
    }
    /// splitmix64
    pub fn next_u64(&mut self) -> u64 {
        self.0 = self.0.wrapping_add(0x9E37_79B9_7F4A_7C15);
        let mut z = self.0;
        z = (z ^ (z >> 30)).wrapping_mul(0xBF58_476D_1CE4_E5B9);
        z = (z ^ (z >> 27)).wrapping_mul(0x94D0_49BB_1331_11EB);
        z ^ (z >> 31)
    }
    /// uniform in 0..n (n > 0)
    pub fn below(&mut self, n: u64) -> u64 {
        if n == 0 {
            0
        } else {
            self.next_u64() % n
        }
    }
    pub fn range(&mut self, lo: u64, hi_incl: u64) -> u64 {
        lo + self.below(hi_incl - lo + 1)
    }
    pub fn chance(&mut self, num: u64, den: u64) -> bool {
        self.below(den) < num
    }
    pub fn pick<T: Clone>(&mut self, xs: &[T]) -> T {
        xs[self.below(xs.len() as u64) as usize].clone()
    }
    pub fn bytes(&mut self, n: usize) -> Vec<u8> {
        (0..n).map(|_| self.next_u64() as u8).collect()
    }
    /// position-dependent payload: a misplaced slice is visible
    pub fn payload(&mut self, n: usize) -> Vec<u8> {
        let a = self.next_u64() as usize;
        (0..n).map(|i| ((i * 7 + a + i / 251) % 256) as u8).collect()
    }
}

pub fn hex(b: &[u8]) -> String {
    if b.is_empty() {
        return "-".to_string();
    }
    // (table lookup: the implementation-only cases print tens of megabytes of packets)
    const DIGITS: &[u8; 16] = b"0123456789abcdef";
    let mut s = String::with_capacity(b.len() * 2);
    for x in b {
        s.push(DIGITS[(x >> 4) as usize] as char);
        s.push(DIGITS[(x & 15) as usize] as char);
    }
    s
}

pub fn unhex(s: &str) -> Option<Vec<u8>> {
    if s == "-" {
        return Some(vec![]);
    }
    if s.len() % 2 != 0 {
        return None;
    }
    let mut out = Vec::with_capacity(s.len() / 2);
    let b = s.as_bytes();
    for i in (0..b.len()).step_by(2) {
        let h = (b[i] as char).to_digit(16)?;
        let l = (b[i + 1] as char).to_digit(16)?;
        out.push((h * 16 + l) as u8);
    }
    Some(out)
}

#[derive(Clone, Copy, PartialEq, Eq, Debug)]
pub enum Tier {
    Quick,
    Thorough,
}

/// The real implementation behind the line protocol: one op in, one output line out.
pub trait World {
    fn exec(&mut self, op: &str) -> String;
}

pub struct Profile {
    pub name: &'static str,
    /// properties this profile's correspondence stream and oracles serve
    pub props: &'static [&'static str],
    pub cases: fn(Tier) -> usize,
    pub new_world: fn() -> Box<dyn World>,
    /// issues ops through the closure (which returns the implementation's output line)
    pub script: fn(&mut Rng, Tier, &mut dyn FnMut(&str) -> String),
    /// does this trace exercise something non-trivial for the properties it serves?
    pub nontrivial: fn(&Trace) -> bool,
    /// number of leading configuration ops the shrinker must keep
    pub keep: fn(&[String]) -> usize,
    /// regression profiles: case index -> fixed op list (then `script` is not used)
    pub fixed: Option<fn(usize) -> Vec<String>>,
}

#[derive(Clone, Debug)]
pub struct OracleFail {
    /// index of the op at which the property is seen to fail
    pub at: usize,
    pub what: String,
    /// stable identification of the failure class (matched against known_findings.json)
    pub signature: String,
}

pub struct Oracle {
    pub prop: &'static str,
    pub name: &'static str,
    /// profiles (by name prefix) whose traces this oracle understands; empty = all
    pub engines: &'static [&'static str],
    pub check: fn(ops: &[String], outs: &[String]) -> Option<OracleFail>,
}

#[derive(Clone, Debug, Default)]
pub struct Trace {
    pub ops: Vec<String>,
    pub outs: Vec<String>,
}

/// Profiles that run on the implementation ONLY: their op lines stand for inputs far too large for the line protocol (a
/// 1.2 GB message), so they are never piped to the Lean driver and no correspondence is claimed for them; the statement they
/// reproduce is proved on the Lean side separately. Their cases are counted in `impl_only_cases` of the result file.
pub const IMPL_ONLY_PROFILES: &[&str] = &["rn-known", "rn-slice-wrap"];

pub fn impl_only(profile: &str) -> bool {
    IMPL_ONLY_PROFILES.contains(&profile)
}

/// Failure classes whose verdict rests on a script's promise about the whole trace (`note healed`: "a lossless phase long
/// enough for the backlog has just ended"). Deleting ops from such a trace (deliveries, flushes, or a send that shifts the
/// indices the deliveries refer to) breaks the promise and makes the oracle "fail" on correct code, so these failures are
/// reported with the unshrunk trace.
pub fn liveness_signature(sig: &str) -> bool {
    sig.ends_with("-after-heal")
}

/// Execute a list of ops on a fresh implementation world. A Rust unwind is the output `panic`;
/// after a panic the remaining ops are still executed (the world may be poisoned; outputs are
/// whatever it answers) so that traces stay aligned.
pub fn run_ops(new_world: fn() -> Box<dyn World>, ops: &[String]) -> Vec<String> {
    let mut world = new_world();
    let mut outs = Vec::with_capacity(ops.len());
    let mut dead = false;
    for op in ops {
        if dead {
            outs.push("dead".to_string());
            continue;
        }
        let r = catch_unwind(AssertUnwindSafe(|| world.exec(op)));
        match r {
            Ok(o) => outs.push(o),
            Err(_) => {
                outs.push("panic".to_string());
                dead = true;
            }
        }
    }
    outs
}

/// Run a profile's script against a fresh world, recording the trace.
pub fn run_script(p: &Profile, rng: &mut Rng, tier: Tier, case: usize) -> Trace {
    if let Some(f) = p.fixed {
        let ops = f(case);
        let outs = run_ops(p.new_world, &ops);
        return Trace { ops, outs };
    }
    let mut world = (p.new_world)();
    let mut trace = Trace::default();
    let mut dead = false;
    {
        let mut exec = |op: &str| -> String {
            let out = if dead {
                "dead".to_string()
            } else {
                match catch_unwind(AssertUnwindSafe(|| world.exec(op))) {
                    Ok(o) => o,
                    Err(_) => {
                        dead = true;
                        "panic".to_string()
                    }
                }
            };
            trace.ops.push(op.to_string());
            trace.outs.push(out.clone());
            out
        };
        (p.script)(rng, tier, &mut exec);
    }
    trace
}

/// Pipe many cases through the Lean driver in one process. Each case is framed by
/// `case <n>` … `end`; the driver prints one line per op plus `ok` for case/end lines.
pub fn run_model(driver: &str, cases: &[&[String]]) -> Result<Vec<Vec<String>>, String> {
    if driver == "none" {
        // model unavailable (its build is broken): only the implementation oracles can judge
        return Err("no-model".to_string());
    }
    let mut input = String::new();
    for (i, ops) in cases.iter().enumerate() {
        input.push_str(&format!("case {}\n", i));
        for op in ops.iter() {
            input.push_str(op);
            input.push('\n');
        }
        input.push_str("end\n");
    }
    let mut child = Command::new(driver)
        .stdin(Stdio::piped())
        .stdout(Stdio::piped())
        .stderr(Stdio::piped())
        .spawn()
        .map_err(|e| format!("cannot start driver {}: {}", driver, e))?;
    let mut stdin = child.stdin.take().unwrap();
    let writer = std::thread::spawn(move || {
        let _ = stdin.write_all(input.as_bytes());
    });
    let out = child.wait_with_output().map_err(|e| format!("driver failed: {}", e))?;
    let _ = writer.join();
    if !out.status.success() {
        return Err(format!(
            "driver exited with {:?}: {}",
            out.status.code(),
            String::from_utf8_lossy(&out.stderr)
        ));
    }
    let text = String::from_utf8_lossy(&out.stdout);
    let mut lines = text.lines();
    let mut res = Vec::with_capacity(cases.len());
    for ops in cases.iter() {
        let hdr = lines.next().ok_or("driver output truncated (case header)")?;
        if hdr != "ok" {
            return Err(format!("driver: unexpected case header answer {:?}", hdr));
        }
        let mut outs = Vec::with_capacity(ops.len());
        for _ in ops.iter() {
            outs.push(lines.next().ok_or("driver output truncated")?.to_string());
        }
        let end = lines.next().ok_or("driver output truncated (end)")?;
        if end != "ok" {
            return Err(format!("driver: unexpected end answer {:?}", end));
        }
        res.push(outs);
    }
    Ok(res)
}

pub fn first_diff(a: &[String], b: &[String]) -> Option<usize> {
    for i in 0..a.len().max(b.len()) {
        if a.get(i) != b.get(i) {
            return Some(i);
        }
    }
    None
}

/// Delta-debugging over the op list: `fails(ops)` must be true for the input and stays true for
/// the result. Tries removing chunks of decreasing size; never removes the first `keep` ops
/// (configuration lines).
pub fn shrink(ops: &[String], keep: usize, fails: &mut dyn FnMut(&[String]) -> bool) -> Vec<String> {
    let mut cur: Vec<String> = ops.to_vec();
    let mut chunk = (cur.len().saturating_sub(keep) / 2).max(1);
    let mut budget = 400usize;
    // wall-clock cap: shrinking must never dominate a check (a model re-run can take seconds)
    let cap_s: u64 = std::env::var("VERIF_SHRINK_S").ok().and_then(|v| v.parse().ok()).unwrap_or(45);
    let deadline = std::time::Instant::now() + std::time::Duration::from_secs(cap_s);
    loop {
        let mut i = keep;
        let mut changed = false;
        while i < cur.len() && budget > 0 {
            if std::time::Instant::now() > deadline {
                budget = 0;
                break;
            }
            let end = (i + chunk).min(cur.len());
            let mut cand = cur[..i].to_vec();
            cand.extend_from_slice(&cur[end..]);
            budget -= 1;
            if fails(&cand) {
                cur = cand;
                changed = true;
            } else {
                i = end;
            }
        }
        if budget == 0 {
            break;
        }
        if chunk == 1 && !changed {
            break;
        }
        if !changed {
            chunk = (chunk / 2).max(1);
        }
    }
    cur
}

pub fn fnv(s: &str) -> u64 {
    let mut h: u64 = 0xcbf2_9ce4_8422_2325;
    for b in s.as_bytes() {
        h ^= *b as u64;
        h = h.wrapping_mul(0x0000_0100_0000_01b3);
    }
    h
}

pub fn json_str(s: &str) -> String {
    let mut o = String::with_capacity(s.len() + 2);
    o.push('"');
    for c in s.chars() {
        match c {
            '"' => o.push_str("\\\""),
            '\\' => o.push_str("\\\\"),
            '\n' => o.push_str("\\n"),
            '\t' => o.push_str("\\t"),
            c if (c as u32) < 0x20 => o.push_str(&format!("\\u{:04x}", c as u32)),
            c => o.push(c),
        }
    }
    o.push('"');
    o
}

pub fn json_list(xs: &[String]) -> String {
    let v: Vec<String> = xs.iter().map(|s| json_str(s)).collect();
    format!("[{}]", v.join(","))
}
