// ---------------------------------------------------------------------------------------------
// Profiles (scripts) and trace oracles of the netcode engine. Included into nc.rs.
//
// Conventions shared by scripts and oracles:
//   * every connect token is created inside the trace by `ptok-seal` (+ `tok-write`), so the
//     oracles know id, user data, keys, expiry and host list of every token the harness issued;
//   * `note hostile` : the next op delivers a datagram that is NOT authentic for the receiving
//     endpoint in its current state (junk, mutated, sealed under a foreign key / protocol id,
//     replay of an already accepted protected packet). Expectation: answer `none`, and (when the
//     script brackets it with dumps) an unchanged state dump;
//   * `note stale` : like `hostile`, for a genuine datagram that arrives for the first time but has fallen
//     out of the 256-entry replay window;
//   * `note expect-payload` : the next op hands a genuine payload datagram, for the first time and inside
//     the window, to a live session: it must be surfaced;
//   * `note expect-connected[:<signature>]` : the next op is a valid connection response for a server with a
//     free slot below its limit: it must answer `connected …`;
//   * `note expect-up[:<signature>]` : the next op is a `cli-q` / `srv-q` of an honest client with a valid token and
//     a free slot after a lossless phase of at least three send periods on the live address: that side must be
//     connected;
//   * `note server-full` : from here on handshakes reach a server whose seats are all taken by live sessions; the
//     expectations that follow (`expect-up`, `expect-payload`) are also judged under C10 ("without disturbing existing sessions");
//   * `note others-changed` : from here on ANOTHER client has left and a new one has joined; the expectations that follow
//     (`expect-up`, `expect-payload`) about the sessions nobody ended are also judged under C11 (`nc-other-clients-undisturbed`);
//   * `note rt` : the next two ops are an encode/decode (seal/open, write/read) pair that must round-trip;
//   * `note mutated` : the next op decodes/opens a tampered sealed input: it must not answer `ok`;
//   * `note setup-done` : end of the configuration prefix (kept by the shrinker).
// ---------------------------------------------------------------------------------------------

#[derive(Clone, Debug, PartialEq)]
enum Src {
    Srv(u64),
    Cli(u64),
}

#[derive(Clone, Debug)]
struct Dg {
    bytes: Vec<u8>,
    to: String,
    from: Src,
}

struct Sc<'a> {
    f: &'a mut dyn FnMut(&str) -> String,
    hist: Vec<Dg>,
    n: usize,
}

fn src_of(op: &str) -> Option<Src> {
    let mut it = op.split(' ');
    let k = it.next()?;
    let h = p_u64(it.next()?)?;
    if k.starts_with("srv-") {
        Some(Src::Srv(h))
    } else if k.starts_with("cli-") {
        Some(Src::Cli(h))
    } else {
        None
    }
}

impl<'a> Sc<'a> {
    fn new(f: &'a mut dyn FnMut(&str) -> String) -> Self {
        Sc { f, hist: vec![], n: 0 }
    }
    /// issue one op; returns the output and the history index of the datagram it emitted (if any)
    fn opd(&mut self, op: &str) -> (String, Option<usize>) {
        let out = (self.f)(op);
        self.n += 1;
        if let Some((to, bytes)) = emitted_of(op, &out) {
            if let Some(from) = src_of(op) {
                self.hist.push(Dg { bytes, to, from });
                return (out, Some(self.hist.len() - 1));
            }
        }
        (out, None)
    }
    fn op(&mut self, op: &str) -> String {
        self.opd(op).0
    }
}

fn k32(rng: &mut Rng) -> [u8; 32] {
    let v = rng.bytes(32);
    let mut a = [0u8; 32];
    a.copy_from_slice(&v);
    a
}

fn k24(rng: &mut Rng) -> [u8; 24] {
    let v = rng.bytes(24);
    let mut a = [0u8; 24];
    a.copy_from_slice(&v);
    a
}

const VERSION_HEX: &str = "4e4554434f444520312e303200";

#[derive(Clone, Debug)]
struct TokSpec {
    id: u64,
    proto: u64,
    /// protocol id used in the AAD of the private part (normally = proto)
    seal_proto: u64,
    create: u64,
    expire: u64,
    /// expiry used in the AAD of the private part (normally = expire)
    seal_expire: u64,
    timeout: i32,
    addrs: String,
    c2s: [u8; 32],
    s2c: [u8; 32],
    ud: Vec<u8>,
    xnonce: [u8; 24],
    key: [u8; 32],
}

#[derive(Clone, Debug)]
struct Tok {
    spec: TokSpec,
    private: Vec<u8>,
    hex: String,
}

fn base_spec(rng: &mut Rng, id: u64, proto: u64, key: [u8; 32], now_s: u64, addrs: &str) -> TokSpec {
    let ud_len = rng.pick(&[0usize, 1, 8, 255, 256, 256]);
    let expire = now_s + rng.pick(&[2u64, 5, 10, 30]);
    TokSpec {
        id,
        proto,
        seal_proto: proto,
        create: now_s,
        expire,
        seal_expire: expire,
        timeout: rng.pick(&[1i32, 2, 5, 15]),
        addrs: addrs.to_string(),
        c2s: k32(rng),
        s2c: k32(rng),
        ud: rng.bytes(ud_len),
        xnonce: k24(rng),
        key,
    }
}

/// `ptok-seal` + `tok-write`; None when either op does not answer `ok …`
fn mk_token(sc: &mut Sc, spec: &TokSpec) -> Option<Tok> {
    let out = sc.op(&format!(
        "ptok-seal {} {} {} {} {} {} {} {} {} {}",
        spec.seal_proto,
        spec.seal_expire,
        hex(&spec.xnonce),
        hex(&spec.key),
        spec.id,
        spec.timeout,
        spec.addrs,
        hex(&spec.c2s),
        hex(&spec.s2c),
        hex(&spec.ud)
    ));
    let private = unhex(out.strip_prefix("ok ")?)?;
    let out = sc.op(&format!(
        "tok-write {} {} {} {} {} {} {} {} {} {} {}",
        spec.id,
        VERSION_HEX,
        spec.proto,
        spec.create,
        spec.expire,
        hex(&spec.xnonce),
        hex(&private),
        spec.timeout,
        spec.addrs,
        hex(&spec.c2s),
        hex(&spec.s2c)
    ));
    let hex = out.strip_prefix("ok ")?.to_string();
    Some(Tok { spec: spec.clone(), private, hex })
}

// ----- attacker-side crypto (the chacha20poly1305 crate directly) -----------------------------

fn seq_bytes_required(seq: u64) -> usize {
    (0..8).rev().find(|i| (seq >> (8 * i)) & 0xff != 0).map(|i| i + 1).unwrap_or(1)
}

fn nc_aad(prefix: u8, proto: u64) -> Vec<u8> {
    let mut a = b"NETCODE 1.02\0".to_vec();
    a.extend_from_slice(&proto.to_le_bytes());
    a.push(prefix);
    a
}

fn nc_nonce(seq: u64) -> [u8; 12] {
    let mut n = [0u8; 12];
    n[4..].copy_from_slice(&seq.to_le_bytes());
    n
}

/// seal a netcode packet of type `ty` (1..6) with body `body` the way `Packet::encode` does
fn forge(ty: u8, seq: u64, proto: u64, key: &[u8; 32], body: &[u8]) -> Vec<u8> {
    let n = seq_bytes_required(seq);
    let prefix = ty | ((n as u8) << 4);
    let mut out = vec![prefix];
    out.extend_from_slice(&seq.to_le_bytes()[..n]);
    let mut ct = body.to_vec();
    let cipher = ChaCha20Poly1305::new(Key::from_slice(key));
    let tag = cipher
        .encrypt_in_place_detached(Nonce::from_slice(&nc_nonce(seq)), &nc_aad(prefix, proto), &mut ct)
        .expect("seal");
    out.extend_from_slice(&ct);
    out.extend_from_slice(&tag);
    out
}

/// try to open a sealed netcode datagram (types 1..6) under `key`; returns (type, sequence, body)
fn try_open(d: &[u8], proto: u64, key: &[u8; 32]) -> Option<(u8, u64, Vec<u8>)> {
    if d.len() < 18 {
        return None;
    }
    let prefix = d[0];
    let ty = prefix & 0xf;
    let n = (prefix >> 4) as usize;
    if ty == 0 || ty > 6 || n > 8 || d.len() < 1 + n + 16 {
        return None;
    }
    let mut sb = [0u8; 8];
    sb[..n].copy_from_slice(&d[1..1 + n]);
    let seq = u64::from_le_bytes(sb);
    let mut ct = d[1 + n..d.len() - 16].to_vec();
    let tag = Tag::from_slice(&d[d.len() - 16..]);
    let cipher = ChaCha20Poly1305::new(Key::from_slice(key));
    cipher.decrypt_in_place_detached(Nonce::from_slice(&nc_nonce(seq)), &nc_aad(prefix, proto), &mut ct, tag).ok()?;
    Some((ty, seq, ct))
}

/// (type, sequence) announced by the prefix of a datagram, without opening it
fn dg_header(d: &[u8]) -> Option<(u8, u64)> {
    if d.is_empty() {
        return None;
    }
    let ty = d[0] & 0xf;
    let n = (d[0] >> 4) as usize;
    if ty == 0 {
        return Some((0, 0));
    }
    if n > 8 || d.len() < 1 + n {
        return None;
    }
    let mut sb = [0u8; 8];
    sb[..n].copy_from_slice(&d[1..1 + n]);
    Some((ty, u64::from_le_bytes(sb)))
}

/// seal a private connect token body (already serialised, ≤ 1008 bytes) the way the library does
fn forge_private(plain: &[u8], proto: u64, expire: u64, xnonce: &[u8; 24], key: &[u8; 32]) -> Vec<u8> {
    let mut buf = vec![0u8; 1008];
    buf[..plain.len().min(1008)].copy_from_slice(&plain[..plain.len().min(1008)]);
    let mut aad = b"NETCODE 1.02\0".to_vec();
    aad.extend_from_slice(&proto.to_le_bytes());
    aad.extend_from_slice(&expire.to_le_bytes());
    let cipher = XChaCha20Poly1305::new(Key::from_slice(key));
    let tag = cipher.encrypt_in_place_detached(XNonce::from_slice(xnonce), &aad, &mut buf).expect("xseal");
    buf.extend_from_slice(&tag);
    buf
}

fn flip_bit(d: &[u8], bit: usize) -> Vec<u8> {
    let mut v = d.to_vec();
    if !v.is_empty() {
        let b = bit % (v.len() * 8);
        v[b / 8] ^= 1 << (b % 8);
    }
    v
}

// ----- addresses ------------------------------------------------------------------------------

fn a4(a: u8, b: u8, c: u8, d: u8, port: u16) -> String {
    format!("4:{:02x}{:02x}{:02x}{:02x}:{}", a, b, c, d, port)
}

/// the IPv4-mapped IPv6 form `::ffff:a.b.c.d` (a different socket address than the plain IPv4 one with the same octets)
fn mapped4(a: u8, b: u8, c: u8, d: u8, port: u16) -> String {
    format!("6:00000000000000000000ffff{:02x}{:02x}{:02x}{:02x}:{}", a, b, c, d, port)
}

fn a6(last: u16, port: u16) -> String {
    format!("6:20010db8000000000000000000000{:03x}:{}", last & 0xfff, port)
}

const SRV_A: &str = "4:7f000001:5000";
const SRV_B: &str = "6:00000000000000000000000000000001:5001";
const BOGUS_A: &str = "4:0a636363:5999";

// =============================================================================================
// profile 2: nc-handshake
// =============================================================================================

#[derive(Clone, Copy, Debug, PartialEq)]
enum TokKind {
    Valid,
    ExpiredAt(i64), // server clock relative to expiry: expire = now_s + delta
    ForeignKey,
    ForeignProto,
    SealProto,
    SealExpire,
    WrongHost,
    WrongPort,
    MultiHost,
    SameIdAsPrev,
}

struct Cl {
    h: u64,
    addr: String,
    tok: Tok,
}

struct Net {
    /// (history index, deliver-at tick)
    q: Vec<(usize, u32)>,
}

struct HsState {
    connected: Vec<u64>,
    srv_addrs: Vec<String>,
    /// counter that decides which genuine requests get trailing bytes
    pad: usize,
    /// clients whose own request has reached the server from their own address
    own_seen: HashSet<u64>,
    /// clients whose token was first presented by somebody else (it is bound to that address now)
    hijacked: HashSet<u64>,
    /// client ids whose session the server has ended once (a later attempt of that client object is another story:
    /// it may still be answering the old challenge, its replay window knows the old session's sequence numbers)
    ended: HashSet<u64>,
    /// addresses the server has sent a ConnectionDenied to (the client behind it gives up when it gets it, and goes on
    /// answering a void challenge when it does not)
    denied: HashSet<String>,
}

fn track_result(st: &mut HsState, out: &str) {
    let t: Vec<&str> = out.split(' ').collect();
    match t.as_slice() {
        ["connected", id, ..] => {
            if let Some(id) = p_u64(id) {
                if !st.connected.contains(&id) {
                    st.connected.push(id);
                }
            }
        }
        ["disconnected", id, ..] => {
            if let Some(id) = p_u64(id) {
                st.ended.insert(id);
                st.connected.retain(|x| *x != id);
            }
        }
        _ => {}
    }
}

/// hand datagram `k` of the script history to its destination(s)
fn deliver(sc: &mut Sc, st: &mut HsState, cls: &[Cl], k: usize, redirect: bool, net: &mut Net, tick: u32) {
    let dg = sc.hist[k].clone();
    match dg.from {
        Src::Cli(c) => {
            if !st.srv_addrs.contains(&dg.to) && !redirect {
                return; // sent to an address nobody listens on
            }
            if let Some(cl) = cls.iter().find(|x| x.h == c) {
                // (now and then a genuine request arrives with trailing bytes: still a request)
                let mut bytes = dg.bytes.clone();
                if bytes.len() >= 1078 && bytes[0] & 0xf == 0 {
                    st.own_seen.insert(c);
                }
                if bytes.len() == 1078 && bytes[0] & 0xf == 0 && st.pad % 5 == 4 {
                    bytes.extend(vec![0xabu8; [1usize, 300, 322][(st.pad / 5) % 3]]);
                }
                st.pad += 1;
                let (out, e) = sc.opd(&format!("srv-rx 0 {} {}", cl.addr, hex(&bytes)));
                track_result(st, &out);
                if let Some(e) = e {
                    if sc.hist[e].bytes.first().map(|b| b & 0xf) == Some(1) {
                        st.denied.insert(cl.addr.clone());
                    }
                    net.q.push((e, tick));
                }
            }
        }
        Src::Srv(_) => {
            let targets: Vec<u64> = cls.iter().filter(|x| x.addr == dg.to).map(|x| x.h).collect();
            for c in targets {
                sc.op(&format!("cli-rx {} {}", c, hex(&dg.bytes)));
            }
        }
    }
}

fn script_handshake(rng: &mut Rng, tier: Tier, f: &mut dyn FnMut(&str) -> String) {
    let mut sc = Sc::new(f);
    let budget = if tier == Tier::Thorough { 90 } else { 70 };
    let key = k32(rng);
    let ckey = k32(rng);
    let proto = rng.pick(&[0u64, 7, 0x1122334455667788, u64::MAX]);
    let now0_us = rng.pick(&[0u64, 999_999, 5_000_000, 1_758_700_000_123_456]);
    let now_s = now0_us / 1_000_000;
    let max = rng.pick(&[1usize, 1, 2, 2, 3, 4, 0]);
    let two_addrs = rng.chance(1, 3);
    let wild = rng.chance(1, 8);
    let srv_addrs: Vec<String> = if wild {
        vec![rng.pick(&[WILD_4, MAPPED_A]).to_string()]
    } else if two_addrs {
        vec![SRV_A.to_string(), SRV_B.to_string()]
    } else {
        vec![SRV_A.to_string()]
    };
    // unsecure mode: connect key = zeros, host list not checked
    let secure = !rng.chance(1, 8);
    let key = if secure { key } else { [0u8; 32] };
    sc.op(&format!("srv-new 0 {} {} {} {} {} {} {}", now0_us, max, proto, secure as u8, hex(&if secure { key } else { k32(rng) }), hex(&ckey), srv_addrs.join(",")));
    let n_clients = rng.range(1, 4) as usize;
    let mut cls: Vec<Cl> = vec![];
    let mut kinds: Vec<TokKind> = vec![];
    for i in 0..n_clients {
        let kind = rng.pick(&[
            TokKind::Valid,
            TokKind::Valid,
            TokKind::Valid,
            TokKind::Valid,
            TokKind::Valid,
            TokKind::ExpiredAt(0),
            TokKind::ExpiredAt(1),
            TokKind::ExpiredAt(-1),
            TokKind::ForeignKey,
            TokKind::ForeignProto,
            TokKind::SealProto,
            TokKind::SealExpire,
            TokKind::WrongHost,
            TokKind::WrongPort,
            TokKind::MultiHost,
            TokKind::SameIdAsPrev,
        ]);
        let mut spec = base_spec(rng, 1000 + i as u64, proto, key, now_s, &srv_addrs.join(","));
        if rng.chance(1, 8) {
            spec.timeout = rng.pick(&[0i32, -1]); // no timeout at all: only the token's expiry ends an attempt
        }
        match kind {
            TokKind::Valid => {}
            TokKind::ExpiredAt(d) => {
                // the client keeps trying for ~10 s while the server sees the token at its expiry second
                spec.create = now_s.saturating_sub(10);
                spec.expire = (now_s as i64 + d).max(0) as u64;
                spec.seal_expire = spec.expire;
            }
            TokKind::ForeignKey => spec.key = k32(rng),
            TokKind::ForeignProto => {
                spec.proto = proto.wrapping_add(1);
                spec.seal_proto = spec.proto;
            }
            TokKind::SealProto => spec.seal_proto = proto.wrapping_add(1),
            TokKind::SealExpire => spec.seal_expire = spec.expire + 1,
            // (against a wildcard public address: another machine with the SAME port)
            TokKind::WrongHost => spec.addrs = if wild { a4(10, 99, 99, 99, 5000) } else { BOGUS_A.to_string() },
            // the server's host with another port: a different public address
            TokKind::WrongPort => {
                spec.addrs = match srv_addrs[0].rsplit_once(':') {
                    Some((head, _)) => format!("{}:5999", head),
                    None => BOGUS_A.to_string(),
                }
            }
            TokKind::MultiHost => {
                // 2..4 addresses, only one of them (at a random position) is the server's
                let n = rng.range(2, 4) as usize;
                let k = rng.below(n as u64) as usize;
                let list: Vec<String> = (0..n).map(|j| if j == k { srv_addrs[0].clone() } else { a4(10, 99, 99, j as u8, 5990 + j as u16) }).collect();
                spec.addrs = list.join(",");
                spec.timeout = rng.pick(&[1, 2]);
                spec.expire = now_s + 30;
                spec.seal_expire = spec.expire;
            }
            TokKind::SameIdAsPrev => {
                if i > 0 {
                    spec.id = cls[i - 1].tok.spec.id;
                }
            }
        }
        let tok = match mk_token(&mut sc, &spec) {
            Some(t) => t,
            None => continue,
        };
        let addr = if i > 0 && rng.chance(1, 8) {
            cls[i - 1].addr.clone()
        } else if rng.chance(1, 4) {
            a6(0x10 + i as u16, 4000 + i as u16)
        } else if rng.chance(1, 5) {
            // the mapped twin of the plain address another client of this case may have
            mapped4(10, 0, 0, 1 + rng.below(2) as u8, 4000 + rng.below(2) as u16)
        } else {
            a4(10, 0, 0, 1 + i as u8, 4000 + i as u16)
        };
        let out = sc.op(&format!("cli-new {} {} {}", i, now0_us, tok.hex));
        if out == "ok" {
            cls.push(Cl { h: i as u64, addr, tok });
            kinds.push(kind);
        }
    }
    sc.op("note setup-done");
    let mut st = HsState { connected: vec![], srv_addrs, pad: 0, own_seen: HashSet::new(), hijacked: HashSet::new(), ended: HashSet::new(), denied: HashSet::new() };
    let mut srv_now_us = now0_us;
    let mut limit = max.min(1024);
    let mut net = Net { q: vec![] };
    let loss = rng.pick(&[0u64, 0, 1, 2, 4]); // out of 8
    let dup = rng.pick(&[0u64, 1, 2]);
    let delay = rng.pick(&[0u64, 0, 2, 4]);
    let mut tick: u32 = 0;
    while sc.n < budget && tick < 40 {
        tick += 1;
        let dt: u64 = if rng.chance(1, 12) {
            rng.pick(&[1_000_000u64, 2_000_000, 5_000_001, 16_000_000])
        } else {
            rng.pick(&[100_000u64, 249_999, 250_000, 250_001, 300_000, 500_000, 0])
        };
        sc.op(&format!("srv-upd 0 {}", dt));
        srv_now_us += dt;
        if !st.connected.is_empty() {
            sc.op("srv-dump 0");
        }
        for id in st.connected.clone() {
            let (out, e) = sc.opd(&format!("srv-updc 0 {}", id));
            track_result(&mut st, &out);
            if let Some(e) = e {
                net.q.push((e, tick));
            }
        }
        for i in 0..cls.len() {
            let cdt = if rng.chance(1, 10) { dt + 1000 } else { dt };
            let bracket = rng.chance(1, 6);
            if bracket {
                sc.op(&format!("cli-dump {}", cls[i].h));
            }
            let (_, e) = sc.opd(&format!("cli-upd {} {}", cls[i].h, cdt));
            if bracket {
                sc.op(&format!("cli-dump {}", cls[i].h));
            }
            if let Some(e) = e {
                net.q.push((e, tick));
            }
            if cls[i].tok.spec.addrs.contains(',') && rng.chance(2, 3) {
                sc.op(&format!("cli-q {}", cls[i].h));
            }
        }
        // the network
        let mut due: Vec<usize> = vec![];
        let mut later: Vec<(usize, u32)> = vec![];
        for (k, at) in net.q.drain(..) {
            if at <= tick {
                due.push(k);
            } else {
                later.push((k, at));
            }
        }
        net.q = later;
        if rng.chance(1, 4) {
            due.reverse();
        }
        for k in due {
            if rng.below(8) < loss {
                continue;
            }
            if rng.below(8) < delay {
                net.q.push((k, tick + rng.range(1, 3) as u32));
                continue;
            }
            let redirect = rng.chance(1, 2);
            deliver(&mut sc, &mut st, &cls, k, redirect, &mut net, tick);
            if rng.below(8) < dup {
                deliver(&mut sc, &mut st, &cls, k, redirect, &mut net, tick);
            }
        }
        // application-level actions
        match rng.below(16) {
            0 => {
                let m = rng.pick(&[0usize, 1, 2, 3, 5, 1024, 2000]);
                sc.op(&format!("srv-setmax 0 {}", m));
                limit = m.min(1024);
            }
            1 if rng.chance(1, 3) => {
                if let Some(id) = st.connected.first().cloned() {
                    let (out, e) = sc.opd(&format!("srv-disc 0 {}", id));
                    track_result(&mut st, &out);
                    if let Some(e) = e {
                        net.q.push((e, tick));
                    }
                }
            }
            2 if rng.chance(1, 3) => {
                if !cls.is_empty() {
                    let c = rng.below(cls.len() as u64);
                    let (_, e) = sc.opd(&format!("cli-disc {}", cls[c as usize].h));
                    if let Some(e) = e {
                        net.q.push((e, tick));
                    }
                }
            }
            3 | 4 => {
                if let Some(id) = st.connected.last().cloned() {
                    let n = rng.pick(&[0usize, 1, 100, 1300, 1301]);
                    let (_, e) = sc.opd(&format!("srv-pay 0 {} {}", id, hex(&rng.payload(n))));
                    if let Some(e) = e {
                        net.q.push((e, tick));
                    }
                }
            }
            5 | 6 => {
                if !cls.is_empty() {
                    let c = rng.below(cls.len() as u64) as usize;
                    let n = rng.pick(&[0usize, 1, 100, 1300, 1301]);
                    let (_, e) = sc.opd(&format!("cli-pay {} {}", cls[c].h, hex(&rng.payload(n))));
                    if let Some(e) = e {
                        net.q.push((e, tick));
                    }
                }
            }
            7 => {
                let id = if rng.chance(1, 2) { 1000 } else { 1001 };
                sc.op(&format!("srv-q 0 {}", id));
            }
            9 | 10 => {
                // an eavesdropper replays a captured connection request from an address of its own
                let reqs: Vec<Vec<u8>> = sc.hist.iter().filter(|d| matches!(d.from, Src::Cli(_)) && d.bytes.len() >= 1078 && d.bytes[0] & 0xf == 0).map(|d| d.bytes.clone()).collect();
                if !reqs.is_empty() {
                    let d = rng.pick(&reqs);
                    for c in cls.iter() {
                        if d.len() >= 1078 && c.tok.private[..] == d[54..1078] && !st.own_seen.contains(&c.h) {
                            st.hijacked.insert(c.h);
                        }
                    }
                    // (an address of its own, or the host of one of the clients with another port)
                    let from = if rng.chance(1, 3) { a4(10, 0, 0, rng.range(1, 3) as u8, 4999) } else { a4(172, 16, 0, rng.range(1, 3) as u8, 4700) };
                    let (out, e) = sc.opd(&format!("srv-rx 0 {} {}", from, hex(&d)));
                    track_result(&mut st, &out);
                    let _ = e; // nobody listens at that address
                }
            }
            8 => {
                if !cls.is_empty() {
                    let c = rng.below(cls.len() as u64) as usize;
                    sc.op(&format!("cli-q {}", cls[c].h));
                }
            }
            11 if rng.chance(1, 2) => {
                // the application kicks an id whatever its state (half-open, connected, unknown)
                if !cls.is_empty() {
                    let c = rng.below(cls.len() as u64) as usize;
                    let id = if rng.chance(1, 8) { 31337 } else { cls[c].tok.spec.id };
                    let (out, e) = sc.opd(&format!("srv-disc 0 {}", id));
                    track_result(&mut st, &out);
                    if let Some(e) = e {
                        net.q.push((e, tick));
                    }
                }
            }
            _ => {}
        }
        if tick % 3 == 0 {
            sc.op("srv-dump 0");
            if !cls.is_empty() {
                let c = rng.below(cls.len() as u64) as usize;
                sc.op(&format!("srv-q 0 {}", cls[c].tok.spec.id));
            }
        }
    }
    // ---- heal: whatever was lost, duplicated or reordered so far, from here on every datagram of the client under
    // consideration is delivered at once, in 250 ms rounds. An honest client with a valid, unexpired token of its own
    // id and address that has not given up, with a seat free below the limit, is connected on both sides after six rounds.
    for ci in 0..cls.len() {
        let (h, id, addr) = (cls[ci].h, cls[ci].tok.spec.id, cls[ci].addr.clone());
        let unique = cls.iter().filter(|x| x.tok.spec.id == id).count() == 1 && cls.iter().filter(|x| x.addr == addr).count() == 1;
        let valid = kinds.get(ci) == Some(&TokKind::Valid) && !st.hijacked.contains(&h) && !st.ended.contains(&id) && srv_now_us / 1_000_000 + 3 < cls[ci].tok.spec.expire;
        if !unique || !valid {
            continue;
        }
        if st.denied.contains(&addr) {
            continue;
        }
        let q = sc.op(&format!("cli-q {}", h));
        let server_has = st.connected.contains(&id);
        if field(&q, "disconnected") == Some("1") || (field(&q, "connected") == Some("1") && !server_has) {
            continue;
        }
        // (a client that has gone back to REQUESTING — next address after a lost connect keep-alive — while the server
        // still holds its session is ignored by the server until that session times out: not a handshake to be healed)
        if server_has && field(&sc.op(&format!("cli-dump {}", h)), "state") == Some("SendingConnectionRequest") {
            continue;
        }
        // the client must have at least 600 ms of its timeout on the current address left
        let idle_ns = field(&q, "idle").and_then(|x| x.parse::<u128>().ok()).unwrap_or(u128::MAX);
        let t = cls[ci].tok.spec.timeout;
        if t > 0 && idle_ns.saturating_add(600_000_000) >= t as u128 * 1_000_000_000 {
            continue;
        }
        if !server_has && st.connected.len() >= limit {
            continue;
        }
        for _ in 0..6 {
            sc.op("srv-upd 0 250000");
            srv_now_us += 250_000;
            for cid in st.connected.clone() {
                let (out, e) = sc.opd(&format!("srv-updc 0 {}", cid));
                track_result(&mut st, &out);
                if let Some(k) = e {
                    let dg = sc.hist[k].clone();
                    for x in cls.iter().filter(|x| x.addr == dg.to) {
                        sc.op(&format!("cli-rx {} {}", x.h, hex(&dg.bytes)));
                    }
                }
            }
            let mut out_k = sc.opd(&format!("cli-upd {} 250000", h)).1;
            let mut hops = 0;
            while let Some(k) = out_k {
                hops += 1;
                let d = sc.hist[k].bytes.clone();
                let (out, e) = sc.opd(&format!("srv-rx 0 {} {}", addr, hex(&d)));
                track_result(&mut st, &out);
                out_k = None;
                if let Some(k2) = e {
                    let r = sc.hist[k2].bytes.clone();
                    sc.op(&format!("cli-rx {} {}", h, hex(&r)));
                    if hops < 3 {
                        out_k = sc.opd(&format!("cli-upd {} 0", h)).1;
                    }
                }
            }
        }
        let q = sc.op(&format!("cli-q {}", h));
        if field(&q, "disconnected") == Some("1") && field(&q, "reason") != Some("ConnectionTimedOut") && field(&q, "reason") != Some("ConnectionRequestTimedOut") && field(&q, "reason") != Some("ConnectionResponseTimedOut") {
            // (kicked or refused in the meantime by something the script did earlier: not a stalled handshake)
            continue;
        }
        sc.op("note expect-up:handshake-stalled");
        sc.op(&format!("cli-q {}", h));
        sc.op("note expect-up:handshake-stalled");
        sc.op(&format!("srv-q 0 {}", id));
    }
    sc.op("srv-dump 0");
    for c in cls.iter() {
        sc.op(&format!("cli-dump {}", c.h));
        sc.op(&format!("srv-q 0 {}", c.tok.spec.id));
    }
}

// =============================================================================================
// shared building blocks of the session / hostile / attacker scripts
// =============================================================================================

struct Srv0 {
    key: [u8; 32],
    proto: u64,
    now_us: u64,
    addrs: Vec<String>,
}

fn setup_server(sc: &mut Sc, rng: &mut Rng, max: usize) -> Srv0 {
    setup_server_at(sc, rng, max, vec![SRV_A.to_string()])
}

/// wildcard addresses as PUBLIC addresses of a server (a host list is compared literally: only a token that lists
/// exactly such an address is for this server)
const WILD_4: &str = "4:00000000:5000";
const WILD_6: &str = "6:00000000000000000000000000000000:5001";

fn setup_server_at(sc: &mut Sc, rng: &mut Rng, max: usize, addrs: Vec<String>) -> Srv0 {
    let key = k32(rng);
    let ckey = k32(rng);
    let proto = rng.pick(&[0u64, 7, 0x1122334455667788, u64::MAX]);
    let now_us = rng.pick(&[0u64, 999_999, 5_000_000, 1_758_700_000_123_456]);
    sc.op(&format!("srv-new 0 {} {} {} 1 {} {} {}", now_us, max, proto, hex(&key), hex(&ckey), addrs.join(",")));
    Srv0 { key, proto, now_us, addrs }
}

fn new_client(sc: &mut Sc, h: u64, addr: &str, spec: &TokSpec, now_us: u64) -> Option<Cl> {
    let tok = mk_token(sc, spec)?;
    let out = sc.op(&format!("cli-new {} {} {}", h, now_us, tok.hex));
    if out != "ok" {
        return None;
    }
    Some(Cl { h, addr: addr.to_string(), tok })
}

/// lossless handshake; true when the server reported `connected`
fn fast_connect(sc: &mut Sc, cl: &Cl) -> bool {
    let (_, e) = sc.opd(&format!("cli-upd {} 0", cl.h));
    let req = match e {
        Some(k) => sc.hist[k].bytes.clone(),
        None => return false,
    };
    let (_, e) = sc.opd(&format!("srv-rx 0 {} {}", cl.addr, hex(&req)));
    let chal = match e {
        Some(k) => sc.hist[k].bytes.clone(),
        None => return false,
    };
    sc.op(&format!("cli-rx {} {}", cl.h, hex(&chal)));
    let (_, e) = sc.opd(&format!("cli-upd {} 0", cl.h));
    let resp = match e {
        Some(k) => sc.hist[k].bytes.clone(),
        None => return false,
    };
    let (out, e) = sc.opd(&format!("srv-rx 0 {} {}", cl.addr, hex(&resp)));
    if !out.starts_with("connected ") {
        return false;
    }
    if let Some(k) = e {
        let ka = sc.hist[k].bytes.clone();
        sc.op(&format!("cli-rx {} {}", cl.h, hex(&ka)));
    }
    true
}

/// handshake whose connect keep-alive is delayed: the client repeats its response a send period later; the repeat
/// reaches the server (connected, nothing else received from that client yet), whatever the server answers is
/// delivered, then the delayed keep-alive
fn late_keepalive_connect(sc: &mut Sc, cl: &Cl) -> bool {
    let (_, e) = sc.opd(&format!("cli-upd {} 0", cl.h));
    let req = match e {
        Some(k) => sc.hist[k].bytes.clone(),
        None => return false,
    };
    let (_, e) = sc.opd(&format!("srv-rx 0 {} {}", cl.addr, hex(&req)));
    let chal = match e {
        Some(k) => sc.hist[k].bytes.clone(),
        None => return false,
    };
    sc.op(&format!("cli-rx {} {}", cl.h, hex(&chal)));
    let (_, e) = sc.opd(&format!("cli-upd {} 0", cl.h));
    let resp = match e {
        Some(k) => sc.hist[k].bytes.clone(),
        None => return false,
    };
    let (out, e) = sc.opd(&format!("srv-rx 0 {} {}", cl.addr, hex(&resp)));
    if !out.starts_with("connected ") {
        return false;
    }
    let late = e.map(|k| sc.hist[k].bytes.clone());
    if let (_, Some(k)) = sc.opd(&format!("cli-upd {} 250000", cl.h)) {
        let again = sc.hist[k].bytes.clone();
        if let (_, Some(k)) = sc.opd(&format!("srv-rx 0 {} {}", cl.addr, hex(&again))) {
            let r = sc.hist[k].bytes.clone();
            sc.op(&format!("cli-rx {} {}", cl.h, hex(&r)));
        }
    }
    if let Some(ka) = late {
        sc.op(&format!("cli-rx {} {}", cl.h, hex(&ka)));
    }
    true
}

/// like `fast_connect` for a client that has already sent its first request: the next one is due a send period later
fn fast_connect_at(sc: &mut Sc, cl: &Cl, _n: u32) -> bool {
    let (_, e) = sc.opd(&format!("cli-upd {} 250000", cl.h));
    let req = match e {
        Some(k) => sc.hist[k].bytes.clone(),
        None => return false,
    };
    let (_, e) = sc.opd(&format!("srv-rx 0 {} {}", cl.addr, hex(&req)));
    let chal = match e {
        Some(k) => sc.hist[k].bytes.clone(),
        None => return false,
    };
    sc.op(&format!("cli-rx {} {}", cl.h, hex(&chal)));
    let (_, e) = sc.opd(&format!("cli-upd {} 0", cl.h));
    let resp = match e {
        Some(k) => sc.hist[k].bytes.clone(),
        None => return false,
    };
    let (out, e) = sc.opd(&format!("srv-rx 0 {} {}", cl.addr, hex(&resp)));
    if !out.starts_with("connected ") {
        return false;
    }
    if let Some(k) = e {
        let ka = sc.hist[k].bytes.clone();
        sc.op(&format!("cli-rx {} {}", cl.h, hex(&ka)));
    }
    true
}

/// bracket one op that must not have any effect with state dumps: dump, note, op, dump
fn hostile_srv(sc: &mut Sc, tag: &str, addr: &str, d: &[u8]) -> String {
    sc.op("srv-dump 0");
    sc.op(&format!("note {}", tag));
    let out = sc.op(&format!("srv-rx 0 {} {}", addr, hex(d)));
    sc.op("srv-dump 0");
    out
}

fn hostile_cli(sc: &mut Sc, tag: &str, c: u64, d: &[u8]) -> String {
    sc.op(&format!("cli-dump {}", c));
    sc.op(&format!("note {}", tag));
    let out = sc.op(&format!("cli-rx {} {}", c, hex(d)));
    sc.op(&format!("cli-dump {}", c));
    out
}

const JUNK_LENS: &[usize] = &[0, 1, 2, 16, 17, 18, 19, 20, 25, 26, 27, 33, 34, 40, 100, 308, 309, 324, 325, 326, 1077, 1078, 1079, 1399, 1400];

fn junk(rng: &mut Rng) -> Vec<u8> {
    match rng.below(14) {
        // the regression inputs of the repaired defects
        0 => {
            let mut v = vec![0x95u8];
            v.extend(rng.bytes(39));
            v
        }
        1 => {
            let mut v = vec![0x85u8];
            v.extend(rng.bytes(17));
            v
        }
        2 => {
            let mut v = vec![0x85u8];
            v.extend([0xffu8; 8]);
            let n = rng.pick(&[9usize, 16, 17, 24, 40]);
            v.extend(rng.bytes(n));
            v
        }
        3 => vec![0u8; 1078],
        4 => {
            // type 0 with the right version string, protocol id and expiry fields random
            let mut v = vec![rng.pick(&[0x00u8, 0x10, 0x80, 0xf0])];
            v.extend_from_slice(b"NETCODE 1.02\0");
            v.extend(rng.bytes(1064));
            v
        }
        5 => {
            // sequence 2^64-1 / window boundary values with a plausible body length
            let ty = rng.pick(&[4u8, 5, 6, 1, 2, 3]);
            let seq = rng.pick(&[u64::MAX, u64::MAX - 1, u64::MAX - 255, u64::MAX - 256, 1 << 63, 255, 256, 257]);
            let n = seq_bytes_required(seq);
            let mut v = vec![ty | ((n as u8) << 4)];
            v.extend_from_slice(&seq.to_le_bytes()[..n]);
            let n = rng.pick(&[16usize, 17, 24, 324, 100]);
            v.extend(rng.bytes(n));
            v
        }
        _ => {
            let len = if rng.chance(3, 4) { rng.pick(JUNK_LENS) } else { rng.below(1401) as usize };
            let mut v = match rng.below(3) {
                0 => vec![0u8; len],
                1 => vec![0xffu8; len],
                _ => rng.bytes(len),
            };
            if !v.is_empty() {
                v[0] = rng.below(256) as u8;
            }
            v
        }
    }
}

/// the same packet with its sequence field re-encoded: k zero bytes appended to the (little-endian) sequence and the
/// length nibble of the prefix raised accordingly, or a zero most-significant byte dropped; ciphertext and tag untouched.
/// The prefix byte is bound as associated data, so this is a modified datagram like any other.
fn reencode_sequence(rng: &mut Rng, d: &[u8]) -> Option<Vec<u8>> {
    let ty = d[0] & 0xf;
    let n = (d[0] >> 4) as usize;
    if ty == 0 || ty > 6 || n > 8 || d.len() < 1 + n + 16 {
        return None;
    }
    if n >= 1 && d[n] == 0 && rng.chance(1, 2) {
        let mut v = vec![ty | (((n - 1) as u8) << 4)];
        v.extend_from_slice(&d[1..n]);
        v.extend_from_slice(&d[1 + n..]);
        return Some(v);
    }
    if n < 8 {
        let k = rng.range(1, (8 - n) as u64) as usize;
        let mut v = vec![ty | (((n + k) as u8) << 4)];
        v.extend_from_slice(&d[1..1 + n]);
        v.extend(vec![0u8; k]);
        v.extend_from_slice(&d[1 + n..]);
        return Some(v);
    }
    None
}

/// a mutation of a genuine datagram that cannot be authentic any more
fn mutate(rng: &mut Rng, d: &[u8]) -> Vec<u8> {
    if d.is_empty() {
        return vec![0x15];
    }
    let is_request = d[0] & 0xf == 0;
    if !is_request && rng.chance(1, 5) {
        if let Some(v) = reencode_sequence(rng, d) {
            return v;
        }
    }
    match rng.below(4) {
        0 if d.len() > 1 => d[..rng.below(d.len() as u64) as usize].to_vec(),
        1 => {
            // flip inside the last 16 bytes (the tag / the token MAC)
            let bit = (d.len() * 8 - 1) - rng.below(128.min(d.len() as u64 * 8)) as usize;
            flip_bit(d, bit)
        }
        _ => {
            // any bit; for a connection request the high nibble of the prefix is not covered by anything
            let mut bit = rng.below(d.len() as u64 * 8) as usize;
            if is_request && bit < 8 {
                bit = 8 + bit; // first byte of the version string instead
            }
            flip_bit(d, bit)
        }
    }
}

// =============================================================================================
// profile 3: nc-session
// =============================================================================================


/// Mixed keep-alive / payload traffic of client 0 in both directions with sequence numbers exactly 256·j apart
/// for different packet kinds, sparse first deliveries, then everything seen so far handed over again (twice, in
/// random order). Returns the number of client-side datagrams generated.
fn mixed_window(sc: &mut Sc, rng: &mut Rng, cls: &[Cl]) -> u64 {
    let c = &cls[0];
    let id = c.tok.spec.id;
    // (datagram, towards the server?)
    let mut all: Vec<(Vec<u8>, bool)> = vec![];
    let mut generated = 0u64;
    let rounds = rng.range(1, 2);
    for _ in 0..rounds {
        // ---- client -> server: keep-alive at k, payloads k+1 .. k+256
        if let (_, Some(k)) = sc.opd(&format!("cli-upd {} 250000", c.h)) {
            let d = sc.hist[k].bytes.clone();
            generated += 1;
            sc.op(&format!("srv-rx 0 {} {}", c.addr, hex(&d)));
            all.push((d, true));
        }
        for j in 1..=256u32 {
            let body = if j == 256 { rng.payload(5) } else { vec![(j % 251) as u8] };
            if let (_, Some(k)) = sc.opd(&format!("cli-pay {} {}", c.h, hex(&body))) {
                let d = sc.hist[k].bytes.clone();
                generated += 1;
                if j == 256 || rng.chance(1, 16) {
                    sc.op("note expect-payload");
                    sc.op(&format!("srv-rx 0 {} {}", c.addr, hex(&d)));
                }
                if j == 256 || j % 64 == 1 || rng.chance(1, 8) {
                    all.push((d, true));
                }
            }
        }
        // ---- server -> client
        sc.op("srv-upd 0 250000");
        if let (_, Some(k)) = sc.opd(&format!("srv-updc 0 {}", id)) {
            let d = sc.hist[k].bytes.clone();
            sc.op(&format!("cli-rx {} {}", c.h, hex(&d)));
            all.push((d, false));
        }
        for j in 1..=256u32 {
            let body = if j == 256 { rng.payload(6) } else { vec![(j % 241) as u8] };
            if let (_, Some(k)) = sc.opd(&format!("srv-pay 0 {} {}", id, hex(&body))) {
                let d = sc.hist[k].bytes.clone();
                if j == 256 || rng.chance(1, 16) {
                    sc.op("note expect-payload");
                    sc.op(&format!("cli-rx {} {}", c.h, hex(&d)));
                }
                if j == 256 || j % 64 == 1 || rng.chance(1, 8) {
                    all.push((d, false));
                }
            }
        }
        // ---- everything seen so far, again, in random order (twice)
        for _ in 0..2 {
            let mut order: Vec<usize> = (0..all.len()).collect();
            for i in (1..order.len()).rev() {
                let j = rng.below(i as u64 + 1) as usize;
                order.swap(i, j);
            }
            for i in order {
                let (d, to_server) = &all[i];
                if *to_server {
                    sc.op(&format!("srv-rx 0 {} {}", c.addr, hex(d)));
                } else {
                    sc.op(&format!("cli-rx {} {}", c.h, hex(d)));
                }
            }
        }
    }
    generated
}

/// Client 0 falls silent after a little genuine traffic; everything it ever put on the wire (connection request,
/// connection RESPONSE — handshake packets are outside the replay window —, keep-alives, payloads) is replayed from
/// its address in every step while the server's clock runs past its timeout; client 1 stays alive. The server must
/// report the timeout of client 0 at the first `update_client` later than last genuine fresh datagram + timeout.
fn silent_replay(sc: &mut Sc, rng: &mut Rng, cls: &[Cl]) {
    let c = &cls[0];
    let id = c.tok.spec.id;
    let timeout_us = c.tok.spec.timeout.max(1) as u64 * 1_000_000;
    let mut rec: Vec<Vec<u8>> = sc.hist.iter().filter(|d| d.from == Src::Cli(c.h)).map(|d| d.bytes.clone()).collect();
    let response: Option<Vec<u8>> = rec.iter().find(|d| !d.is_empty() && d[0] & 0xf == 3).cloned();
    for _ in 0..rng.range(0, 2) {
        if let (_, Some(k)) = sc.opd(&format!("cli-pay {} {}", c.h, hex(&rng.payload(7)))) {
            let d = sc.hist[k].bytes.clone();
            sc.op("note expect-payload");
            sc.op(&format!("srv-rx 0 {} {}", c.addr, hex(&d)));
            rec.push(d);
        }
    }
    if rng.chance(1, 2) {
        sc.op("srv-upd 0 250000");
        sc.op(&format!("cli-upd {} 250000", cls[1].h));
        if let (_, Some(k)) = sc.opd(&format!("cli-upd {} 250000", c.h)) {
            let d = sc.hist[k].bytes.clone();
            if rng.chance(1, 2) {
                // … overtaken on the way by the payload sent right after it: both are genuine, fresh, inside the window
                if let (_, Some(k2)) = sc.opd(&format!("cli-pay {} {}", c.h, hex(&rng.payload(4)))) {
                    let p = sc.hist[k2].bytes.clone();
                    sc.op("note expect-payload");
                    sc.op(&format!("srv-rx 0 {} {}", c.addr, hex(&p)));
                    rec.push(p);
                }
            }
            sc.op(&format!("srv-rx 0 {} {}", c.addr, hex(&d)));
            rec.push(d.clone());
            // (the late one is the attacker's favourite from now on)
            rec.push(d.clone());
            rec.push(d);
        }
    }
    // client 0 is dead from here on
    let step = rng.pick(&[timeout_us / 2, timeout_us - 100_000, 400_000, 900_000]).max(100_000);
    let mut total = 0u64;
    let mut rounds = 0;
    while total <= timeout_us + 2 * step && rounds < 14 {
        rounds += 1;
        total += step;
        sc.op(&format!("srv-upd 0 {}", step));
        if let (_, Some(k)) = sc.opd(&format!("cli-upd {} {}", cls[1].h, step)) {
            let d = sc.hist[k].bytes.clone();
            sc.op(&format!("srv-rx 0 {} {}", cls[1].addr, hex(&d)));
        }
        let n = rng.range(1, 3);
        for j in 0..n {
            let d = match (&response, j == 0 && rng.chance(3, 4)) {
                (Some(r), true) => r.clone(),
                _ => rng.pick(&rec),
            };
            hostile_srv(sc, "hostile", &c.addr, &d);
        }
        sc.op("srv-dump 0");
        let (out, _) = sc.opd(&format!("srv-updc 0 {}", id));
        if let (_, Some(k)) = sc.opd(&format!("srv-updc 0 {}", cls[1].tok.spec.id)) {
            let d = sc.hist[k].bytes.clone();
            sc.op(&format!("cli-rx {} {}", cls[1].h, hex(&d)));
        }
        if out.starts_with("disconnected") {
            break; // (from now on the recorded request would start a new handshake of that address)
        }
    }
    sc.op(&format!("srv-q 0 {}", id));
}

fn script_session(rng: &mut Rng, tier: Tier, f: &mut dyn FnMut(&str) -> String) {
    let mut sc = Sc::new(f);
    let variant = rng.below(10);
    let bulk = variant < 2;
    let mixed = variant == 2 || variant == 3;
    let silent = variant == 4;
    let mut budget = if bulk { 420 } else if tier == Tier::Thorough { 90 } else { 70 };
    let srv = setup_server(&mut sc, rng, 3);
    let now_s = srv.now_us / 1_000_000;
    let mut cls: Vec<Cl> = vec![];
    for i in 0..2u64 {
        let mut spec = base_spec(rng, 500 + i, srv.proto, srv.key, now_s, &srv.addrs.join(","));
        spec.timeout = rng.pick(&[1, 2, 5]);
        spec.expire = now_s + 30;
        spec.seal_expire = spec.expire;
        let addr = if i == 1 && rng.chance(1, 4) { mapped4(10, 1, 0, 1, 4100) } else { a4(10, 1, 0, 1 + i as u8, 4100 + i as u16) };
        if let Some(cl) = new_client(&mut sc, i, &addr, &spec, srv.now_us) {
            cls.push(cl);
        }
    }
    sc.op("note setup-done");
    let mut up: Vec<bool> = vec![];
    for cl in cls.iter() {
        up.push(if rng.chance(1, 3) { late_keepalive_connect(&mut sc, cl) } else { fast_connect(&mut sc, cl) });
    }
    if cls.len() < 2 || !up.iter().all(|x| *x) {
        return;
    }
    // genuine datagrams not yet delivered: (bytes, from client?, client index)
    let mut held: Vec<(Vec<u8>, bool, usize)> = vec![];
    // genuine datagrams already accepted by their receiver
    let mut seen: Vec<(Vec<u8>, bool, usize)> = vec![];
    let mut alive = [true, true];
    let mut sent = [0u64, 0u64]; // payload packets generated per client so far (client side)
    if bulk {
        // drive client 0's sequence numbers across the replay window: keep an early datagram back
        let c = 0usize;
        let n = rng.pick(&[254u64, 255, 256, 257, 300]);
        let (_, e) = sc.opd(&format!("cli-pay {} {}", cls[c].h, hex(&rng.payload(3))));
        let early = e.map(|k| sc.hist[k].bytes.clone());
        let mut last = None;
        for _ in 0..n {
            let (_, e) = sc.opd(&format!("cli-pay {} 2a", cls[c].h));
            last = e.map(|k| sc.hist[k].bytes.clone());
        }
        sent[c] += n + 1;
        // the payload limit does not depend on how many bytes the sequence number takes by now
        for len in [1300usize, 1301] {
            if sc.opd(&format!("cli-pay {} {}", cls[c].h, hex(&rng.payload(len)))).1.is_some() {
                sent[c] += 1;
            }
        }
        if let (Some(early), Some(last)) = (early, last) {
            sc.op(&format!("srv-rx 0 {} {}", cls[c].addr, hex(&last)));
            // sequence of `early` is 2 (request, response came first), of `last` 2 + n
            let stale = n >= 256;
            if stale {
                hostile_srv(&mut sc, "stale", &cls[c].addr.clone(), &early);
            } else {
                sc.op("note expect-payload");
                sc.op(&format!("srv-rx 0 {} {}", cls[c].addr, hex(&early)));
                seen.push((early.clone(), true, c));
            }
            hostile_srv(&mut sc, "hostile", &cls[c].addr.clone(), &last);
            seen.push((last, true, c));
        }
    }
    if mixed {
        let n = mixed_window(&mut sc, rng, &cls);
        sent[0] += n;
        budget = sc.n + 30;
    }
    if silent {
        silent_replay(&mut sc, rng, &cls);
        budget = sc.n;
    }
    while sc.n < budget {
        let c = rng.below(2) as usize;
        let other = 1 - c;
        match rng.below(21) {
            20 => {
                // reflection: a genuine datagram presented to the endpoint that emitted it
                let pool: Vec<&(Vec<u8>, bool, usize)> = held.iter().chain(seen.iter()).collect();
                if !pool.is_empty() {
                    let (d, from_client, ci) = rng.pick(&pool).clone();
                    if from_client {
                        hostile_cli(&mut sc, "hostile", cls[ci].h, &d);
                    } else {
                        hostile_srv(&mut sc, "hostile", &cls[ci].addr.clone(), &d);
                    }
                }
            }
            0 | 1 | 2 => {
                // client -> server payload, delivered at once or held back
                let n = rng.pick(&[0usize, 1, 2, 100, 1299, 1300]);
                let (_, e) = sc.opd(&format!("cli-pay {} {}", cls[c].h, hex(&rng.payload(n))));
                if let Some(k) = e {
                    sent[c] += 1;
                    let d = sc.hist[k].bytes.clone();
                    if rng.chance(1, 3) {
                        held.push((d, true, c));
                    } else {
                        if alive[c] {
                            sc.op("note expect-payload");
                        }
                        sc.op(&format!("srv-rx 0 {} {}", cls[c].addr, hex(&d)));
                        seen.push((d, true, c));
                    }
                }
            }
            3 | 4 | 5 => {
                let n = rng.pick(&[0usize, 1, 2, 100, 1299, 1300]);
                let (_, e) = sc.opd(&format!("srv-pay 0 {} {}", cls[c].tok.spec.id, hex(&rng.payload(n))));
                if let Some(k) = e {
                    let d = sc.hist[k].bytes.clone();
                    if rng.chance(1, 3) {
                        held.push((d, false, c));
                    } else {
                        if alive[c] {
                            sc.op("note expect-payload");
                        }
                        sc.op(&format!("cli-rx {} {}", cls[c].h, hex(&d)));
                        seen.push((d, false, c));
                    }
                }
            }
            6 | 7 => {
                // late (reordered) delivery of a held datagram: still inside the window
                if !held.is_empty() {
                    let i = rng.below(held.len() as u64) as usize;
                    let (d, from_client, ci) = held.remove(i);
                    if alive[ci] {
                        sc.op("note expect-payload");
                    }
                    if from_client {
                        sc.op(&format!("srv-rx 0 {} {}", cls[ci].addr, hex(&d)));
                    } else {
                        sc.op(&format!("cli-rx {} {}", cls[ci].h, hex(&d)));
                    }
                    seen.push((d, from_client, ci));
                }
            }
            8 | 9 => {
                // replay of an accepted datagram
                if !seen.is_empty() {
                    let (d, from_client, ci) = rng.pick(&seen);
                    if from_client {
                        hostile_srv(&mut sc, "hostile", &cls[ci].addr.clone(), &d);
                    } else {
                        hostile_cli(&mut sc, "hostile", cls[ci].h, &d);
                    }
                }
            }
            10 | 11 => {
                // mutated copy of a genuine datagram (held ones are delivered intact later)
                let pool: Vec<&(Vec<u8>, bool, usize)> = held.iter().chain(seen.iter()).collect();
                if !pool.is_empty() {
                    let (d, from_client, ci) = rng.pick(&pool).clone();
                    let m = mutate(rng, &d);
                    if from_client {
                        hostile_srv(&mut sc, "hostile", &cls[ci].addr.clone(), &m);
                    } else {
                        hostile_cli(&mut sc, "hostile", cls[ci].h, &m);
                    }
                }
            }
            12 => {
                // a genuine datagram of one session handed to the other session's endpoint / address
                let pool: Vec<&(Vec<u8>, bool, usize)> = held.iter().chain(seen.iter()).collect();
                if !pool.is_empty() {
                    let (d, from_client, ci) = rng.pick(&pool).clone();
                    if from_client {
                        hostile_srv(&mut sc, "hostile", &cls[1 - ci].addr.clone(), &d);
                    } else {
                        hostile_cli(&mut sc, "hostile", cls[1 - ci].h, &d);
                    }
                }
            }
            13 => {
                // payload re-sealed under the other session's key, or under another protocol id,
                // with a fresh sequence number, from this session's address
                let n = rng.pick(&[1usize, 50, 1300]);
                let body = rng.payload(n);
                let seq = sent[c] + 2 + rng.range(1, 300);
                let d = if rng.chance(1, 2) {
                    forge(5, seq, srv.proto, &cls[other].tok.spec.c2s, &body)
                } else {
                    forge(5, seq, srv.proto.wrapping_add(1), &cls[c].tok.spec.c2s, &body)
                };
                hostile_srv(&mut sc, "hostile", &cls[c].addr.clone(), &d);
                let d = if rng.chance(1, 2) {
                    forge(5, seq, srv.proto, &cls[other].tok.spec.s2c, &body)
                } else {
                    forge(rng.pick(&[4u8, 5, 6]), seq, srv.proto ^ 1, &cls[c].tok.spec.s2c, &body)
                };
                hostile_cli(&mut sc, "hostile", cls[c].h, &d);
            }
            14 => {
                // junk
                let d = junk(rng);
                if rng.chance(1, 2) {
                    hostile_srv(&mut sc, "hostile", &cls[c].addr.clone(), &d);
                } else {
                    hostile_cli(&mut sc, "hostile", cls[c].h, &d);
                }
            }
            15 | 16 | 17 => {
                // time passes; keep-alives flow (or are lost); timeouts fire
                let dt = rng.pick(&[100_000u64, 250_000, 250_001, 600_000, 999_999, 1_000_000, 1_000_001, 2_100_000]);
                sc.op(&format!("srv-upd 0 {}", dt));
                sc.op("srv-dump 0");
                for i in 0..2 {
                    let (out, e) = sc.opd(&format!("srv-updc 0 {}", cls[i].tok.spec.id));
                    if out.starts_with("disconnected") {
                        alive[i] = false;
                    }
                    if let Some(k) = e {
                        if rng.chance(3, 4) {
                            let d = sc.hist[k].bytes.clone();
                            sc.op(&format!("cli-rx {} {}", cls[i].h, hex(&d)));
                        }
                    }
                }
                for i in 0..2 {
                    sc.op(&format!("cli-dump {}", cls[i].h));
                    let (_, e) = sc.opd(&format!("cli-upd {} {}", cls[i].h, dt));
                    let o = sc.op(&format!("cli-dump {}", cls[i].h));
                    if o.starts_with("state=Disconnected") {
                        alive[i] = false;
                    }
                    if let Some(k) = e {
                        if rng.chance(3, 4) {
                            let d = sc.hist[k].bytes.clone();
                            sc.op(&format!("srv-rx 0 {} {}", cls[i].addr, hex(&d)));
                        }
                    }
                }
            }
            18 => {
                sc.op(&format!("srv-q 0 {}", cls[c].tok.spec.id));
                sc.op(&format!("cli-q {}", cls[c].h));
                if rng.chance(1, 2) {
                    // the limit is lowered and raised again while the sessions exist: nobody is affected
                    let a = rng.pick(&[0usize, 0, 1]);
                    sc.op(&format!("srv-setmax 0 {}", a));
                    sc.op(&format!("srv-setmax 0 {}", a + rng.range(1, 2) as usize));
                    for j in 0..2 {
                        sc.op(&format!("srv-q 0 {}", cls[j].tok.spec.id));
                    }
                    sc.op("srv-dump 0");
                }
            }
            _ => {
                // orderly disconnect of one side (rare), the notification is delivered or lost
                if rng.chance(1, 4) {
                    if rng.chance(1, 2) {
                        let (_, e) = sc.opd(&format!("cli-disc {}", cls[c].h));
                        alive[c] = false;
                        if let (Some(k), true) = (e, rng.chance(1, 2)) {
                            let d = sc.hist[k].bytes.clone();
                            sc.op(&format!("srv-rx 0 {} {}", cls[c].addr, hex(&d)));
                        }
                    } else {
                        let (_, e) = sc.opd(&format!("srv-disc 0 {}", cls[c].tok.spec.id));
                        alive[c] = false;
                        if let (Some(k), true) = (e, rng.chance(1, 2)) {
                            let d = sc.hist[k].bytes.clone();
                            sc.op(&format!("cli-rx {} {}", cls[c].h, hex(&d)));
                        }
                    }
                }
            }
        }
    }
    if rng.chance(1, 2) {
        // the clients leave one after the other with their own Disconnect datagram; the table must follow
        let order: [usize; 2] = if rng.chance(1, 2) { [0, 1] } else { [1, 0] };
        let newcomers = rng.chance(1, 2);
        for (n, i) in order.into_iter().enumerate() {
            if newcomers {
                // the last payload the server generated is one for the client that is about to leave
                sc.op(&format!("srv-pay 0 {} 6c617374", cls[i].tok.spec.id));
            }
            if let (_, Some(k)) = sc.opd(&format!("cli-disc {}", cls[i].h)) {
                let d = sc.hist[k].bytes.clone();
                sc.op(&format!("srv-rx 0 {} {}", cls[i].addr, hex(&d)));
            }
            sc.op("srv-dump 0");
            for j in 0..2 {
                sc.op(&format!("srv-q 0 {}", cls[j].tok.spec.id));
            }
            if newcomers {
                // a newcomer is seated (in the slot that has just become free); then a payload is requested for the
                // id that left: there is no such client any more
                let mut spec = base_spec(rng, 510 + n as u64, srv.proto, srv.key, now_s, &srv.addrs.join(","));
                spec.expire = now_s + 60;
                spec.seal_expire = spec.expire;
                let addr = a4(10, 1, 1, 1 + n as u8, 4150 + n as u16);
                // (the server's clock: now0 + what the script advanced; a client created "now" in its own time)
                if let Some(c) = new_client(&mut sc, 2 + n as u64, &addr, &spec, srv.now_us) {
                    fast_connect(&mut sc, &c);
                }
                sc.op("srv-dump 0");
                sc.op(&format!("srv-pay 0 {} 676f6e65", cls[i].tok.spec.id));
                sc.op(&format!("srv-pay 0 {} 6869", 510 + n as u64));
            }
            let other = 1 - i;
            sc.op(&format!("srv-pay 0 {} 77", cls[other].tok.spec.id));
        }
    }
    sc.op("srv-dump 0");
    for c in cls.iter() {
        sc.op(&format!("cli-dump {}", c.h));
    }
}

// =============================================================================================
// profile 4: nc-hostile
// =============================================================================================

fn script_hostile(rng: &mut Rng, tier: Tier, f: &mut dyn FnMut(&str) -> String) {
    let mut sc = Sc::new(f);
    let budget = if tier == Tier::Thorough { 100 } else { 76 };
    let srv = setup_server(&mut sc, rng, 4);
    let now_s = srv.now_us / 1_000_000;
    let hosts = srv.addrs.join(",");
    // c0: connected; c1: pending on the server, client answering the challenge;
    // c2: fresh (requesting); c3: disconnected
    let mut cls: Vec<Cl> = vec![];
    for i in 0..4u64 {
        let mut spec = base_spec(rng, 700 + i, srv.proto, srv.key, now_s, &hosts);
        spec.expire = now_s + 30;
        spec.seal_expire = spec.expire;
        let addr = if i == 2 { a6(0x20, 4202) } else { a4(10, 2, 0, 1 + i as u8, 4200 + i as u16) };
        if let Some(cl) = new_client(&mut sc, i, &addr, &spec, srv.now_us) {
            cls.push(cl);
        }
    }
    sc.op("note setup-done");
    if cls.len() < 4 {
        return;
    }
    fast_connect(&mut sc, &cls[0]);
    // c1: request -> challenge -> client holds the challenge, the response is never delivered
    let mut genuine: Vec<(Vec<u8>, bool, usize)> = vec![];
    if let (_, Some(k)) = sc.opd(&format!("cli-upd {} 0", cls[1].h)) {
        let req = sc.hist[k].bytes.clone();
        genuine.push((req.clone(), true, 1));
        if let (_, Some(k)) = sc.opd(&format!("srv-rx 0 {} {}", cls[1].addr, hex(&req))) {
            let chal = sc.hist[k].bytes.clone();
            sc.op(&format!("cli-rx {} {}", cls[1].h, hex(&chal)));
            genuine.push((chal, false, 1));
            // its genuine response is withheld; what reaches the server first are corrupted versions of it: mutated, one
            // bit of the echoed challenge flipped, the challenge sequence off by one, truncated
            if let (_, Some(k)) = sc.opd(&format!("cli-upd {} 0", cls[1].h)) {
                let resp = sc.hist[k].bytes.clone();
                genuine.push((resp.clone(), true, 1));
                let c2s = cls[1].tok.spec.c2s;
                if let Some((3, seq, body)) = try_open(&resp, srv.proto, &c2s) {
                    let mut bad: Vec<Vec<u8>> = vec![mutate(rng, &resp), resp[..resp.len() - 1].to_vec()];
                    bad.push(forge(3, seq + 1, srv.proto, &c2s, &flip_bit(&body, 64 + rng.below(300 * 8) as usize)));
                    if body.len() == 308 {
                        let mut b2 = body.clone();
                        let cs = u64::from_le_bytes(b2[..8].try_into().unwrap()).wrapping_add(1);
                        b2[..8].copy_from_slice(&cs.to_le_bytes());
                        bad.push(forge(3, seq + 2, srv.proto, &c2s, &b2));
                    }
                    for d in bad.iter() {
                        if rng.chance(2, 3) {
                            hostile_srv(&mut sc, "hostile", &cls[1].addr.clone(), d);
                        }
                    }
                }
            }
        }
    }
    sc.op(&format!("cli-disc {}", cls[3].h));
    // a few genuine protected packets of the connected session, to be mutated later
    if let (_, Some(k)) = sc.opd(&format!("cli-pay {} {}", cls[0].h, hex(&rng.payload(1100)))) {
        let d = sc.hist[k].bytes.clone();
        sc.op(&format!("srv-rx 0 {} {}", cls[0].addr, hex(&d)));
        genuine.push((d, true, 0));
    }
    if let (_, Some(k)) = sc.opd(&format!("srv-pay 0 {} {}", cls[0].tok.spec.id, hex(&rng.payload(40)))) {
        let d = sc.hist[k].bytes.clone();
        sc.op(&format!("cli-rx {} {}", cls[0].h, hex(&d)));
        genuine.push((d, false, 0));
    }
    let unknown = a4(192, 168, 7, 7, 7777);
    while sc.n < budget {
        let d = if rng.chance(1, 4) && !genuine.is_empty() {
            let g = rng.pick(&genuine);
            // protected packets: mutation or plain replay; handshake packets: mutation only
            if g.0[0] & 0xf >= 4 && rng.chance(1, 3) {
                g.0.clone()
            } else {
                mutate(rng, &g.0)
            }
        } else {
            junk(rng)
        };
        if rng.chance(3, 5) {
            let addr = match rng.below(3) {
                0 => cls[0].addr.clone(),
                1 => cls[1].addr.clone(),
                _ => unknown.clone(),
            };
            hostile_srv(&mut sc, "hostile", &addr, &d);
        } else {
            let c = rng.below(4);
            hostile_cli(&mut sc, "hostile", c, &d);
        }
        if rng.chance(1, 10) {
            // the owner of the half-open handshake sends session packets (authentic under its key, but there is no
            // session): no answer
            let body = if rng.chance(1, 2) { vec![0u8; 8] } else { rng.payload(9) };
            let d = forge(rng.pick(&[4u8, 5, 6]), rng.range(5, 400), srv.proto, &cls[1].tok.spec.c2s, &body);
            sc.op(&format!("srv-rx 0 {} {}", cls[1].addr, hex(&d)));
        }
        if rng.chance(1, 6) {
            // genuine traffic of the connected session in between: accepted as ever
            if let (_, Some(k)) = sc.opd(&format!("cli-pay {} {}", cls[0].h, hex(&rng.payload(7)))) {
                let d = sc.hist[k].bytes.clone();
                sc.op("note expect-payload");
                sc.op(&format!("srv-rx 0 {} {}", cls[0].addr, hex(&d)));
            }
            if let (_, Some(k)) = sc.opd(&format!("srv-pay 0 {} {}", cls[0].tok.spec.id, hex(&rng.payload(6)))) {
                let d = sc.hist[k].bytes.clone();
                sc.op("note expect-payload");
                sc.op(&format!("cli-rx {} {}", cls[0].h, hex(&d)));
            }
        }
        if rng.chance(1, 8) {
            // the clock moves; state must stay as robust
            let dt = rng.pick(&[100_000u64, 250_000, 400_000]);
            sc.op(&format!("srv-upd 0 {}", dt));
            sc.op(&format!("srv-updc 0 {}", cls[0].tok.spec.id));
            let c = rng.below(4);
            sc.op(&format!("cli-upd {} {}", c, dt));
        }
    }
    // genuine traffic is still accepted afterwards
    if let (_, Some(k)) = sc.opd(&format!("cli-pay {} {}", cls[0].h, hex(&rng.payload(10)))) {
        let d = sc.hist[k].bytes.clone();
        sc.op("note expect-payload");
        sc.op(&format!("srv-rx 0 {} {}", cls[0].addr, hex(&d)));
    }
    if let (_, Some(k)) = sc.opd(&format!("cli-upd {} 250000", cls[1].h)) {
        let d = sc.hist[k].bytes.clone();
        sc.op(&format!("srv-rx 0 {} {}", cls[1].addr, hex(&d)));
    }
    sc.op("srv-dump 0");
}

// =============================================================================================
// profile 5: nc-attacker
// =============================================================================================

/// open a server->client handshake datagram the attacker owns the key for; body of a challenge
/// packet = token sequence (8) ‖ sealed challenge token (300)
fn challenge_body(d: &[u8], proto: u64, s2c: &[u8; 32]) -> Option<Vec<u8>> {
    let (ty, _, body) = try_open(d, proto, s2c)?;
    if ty == 2 && body.len() == 308 {
        Some(body)
    } else {
        None
    }
}

/// the client `h` at `addr` receives the challenge `chal`, answers it at once, the answer is delivered and the
/// server's reply (keep-alive / denial) handed back; returns the server's output for the response
fn answer_challenge(sc: &mut Sc, h: u64, addr: &str, chal: &[u8], expect: Option<&str>) -> String {
    sc.op(&format!("cli-rx {} {}", h, hex(chal)));
    let resp = match sc.opd(&format!("cli-upd {} 0", h)) {
        (_, Some(k)) => sc.hist[k].bytes.clone(),
        _ => return String::new(),
    };
    if let Some(e) = expect {
        sc.op(&format!("note {}", e));
    }
    let (out, e) = sc.opd(&format!("srv-rx 0 {} {}", addr, hex(&resp)));
    if let Some(k) = e {
        let reply = sc.hist[k].bytes.clone();
        sc.op(&format!("cli-rx {} {}", h, hex(&reply)));
    }
    out
}

/// connection requests that pass every clear-text check of the server (version, protocol id, expiry) but whose
/// private connect token does not authenticate; `genuine` is a captured request for the same server
fn forged_request(rng: &mut Rng, genuine: &[u8], proto: u64, now_s: u64) -> Vec<u8> {
    match rng.below(5) {
        // one bit of the sealed private part flipped (the last 16 bytes are its MAC)
        0 if genuine.len() >= 1078 => flip_bit(genuine, 54 * 8 + rng.below(1024 * 8) as usize),
        1 if genuine.len() >= 1078 => flip_bit(genuine, 1078 * 8 - 1 - rng.below(128) as usize),
        // the public header of the captured request over a private part of the attacker's making
        2 if genuine.len() >= 1078 => {
            let mut d = genuine[..54].to_vec();
            d.extend(rng.bytes(1024));
            d
        }
        // the bound public fields changed: the nonce of the token, its expiry (still in the future)
        3 if genuine.len() >= 1078 => {
            if rng.chance(1, 2) {
                flip_bit(genuine, 30 * 8 + rng.below(24 * 8) as usize)
            } else {
                let mut d = genuine.to_vec();
                let old = u64::from_le_bytes(d[22..30].try_into().unwrap());
                let mut e = now_s + 1 + rng.below(1000);
                if e == old {
                    e += 1;
                }
                d[22..30].copy_from_slice(&e.to_le_bytes());
                d
            }
        }
        // made from scratch, with trailing bytes now and then
        _ => {
            let mut d = request_datagram(proto, now_s + 1 + rng.below(100_000), &k24(rng), &rng.bytes(1024));
            d[0] = rng.pick(&[0x00u8, 0x00, 0x10, 0xf0]);
            if rng.chance(1, 3) {
                let n = rng.range(1, 300) as usize;
                d.extend(rng.bytes(n));
            }
            d
        }
    }
}

fn script_attacker(rng: &mut Rng, _tier: Tier, f: &mut dyn FnMut(&str) -> String) {
    let mut sc = Sc::new(f);
    let scenario = rng.below(20);
    let max = match scenario {
        3 => 1,
        17 => 3,
        6 | 9 | 10 => rng.pick(&[1usize, 2]),
        7 => rng.pick(&[1usize, 2, 3]),
        _ => rng.pick(&[2usize, 3]),
    };
    let srv = if scenario == 14 {
        let pubs = match rng.below(3) {
            0 => vec![WILD_4.to_string()],
            1 => vec![WILD_4.to_string(), WILD_6.to_string()],
            _ => vec![SRV_A.to_string(), WILD_6.to_string()],
        };
        setup_server_at(&mut sc, rng, max, pubs)
    } else {
        setup_server(&mut sc, rng, max)
    };
    let now_s = srv.now_us / 1_000_000;
    let hosts = srv.addrs.join(",");
    // (now and then the second client sits at the IPv4-mapped IPv6 twin of the first one's address: same octets and port)
    let a = [a4(10, 3, 0, 1, 4301), if rng.chance(1, 3) { mapped4(10, 3, 0, 1, 4301) } else { a4(10, 3, 0, 2, 4302) }, a6(0x33, 4303)];
    let mut specs: Vec<TokSpec> = vec![];
    for i in 0..3u64 {
        let mut spec = base_spec(rng, 900 + i, srv.proto, srv.key, now_s, &hosts);
        spec.expire = now_s + 30;
        spec.seal_expire = spec.expire;
        spec.timeout = 5;
        specs.push(spec);
    }
    if scenario == 2 || scenario == 7 || scenario == 11 || scenario == 12 || scenario == 15 || (scenario == 13 && rng.chance(1, 2)) {
        specs[1].id = specs[0].id; // two tokens for one id
    }
    if scenario == 14 {
        // client 0: a token that lists one of the server's public addresses literally (wildcard or not) — legitimate;
        // client 1: a token for ANOTHER machine with the same port as a wildcard public address; client 2: another
        // machine, another port, or a v6 host against the v6 wildcard
        specs[0].addrs = rng.pick(&srv.addrs);
        let port = if srv.addrs.contains(&WILD_4.to_string()) { 5000 } else { 5001 };
        specs[1].addrs = if port == 5000 { a4(10, 0, 0, 7, 5000) } else { format!("6:20010db8000000000000000000000007:{}", port) };
        specs[2].addrs = match rng.below(3) {
            0 => a4(10, 0, 0, 7, 5999),
            1 => format!("6:20010db8000000000000000000000008:{}", 5001),
            _ => format!("{},{}", a4(10, 0, 0, 8, port), a4(10, 0, 0, 9, 6000)),
        };
    }
    let old_token_expires = scenario == 12 && rng.chance(1, 2);
    if scenario == 12 {
        // … sealing different user data; the older one may run out during the scenario
        if specs[1].ud == specs[0].ud {
            specs[1].ud = vec![0x67, 0x75, 0x65, 0x73, 0x74];
            specs[0].ud = vec![0x61, 0x64, 0x6d, 0x69, 0x6e];
        }
        if old_token_expires {
            specs[0].expire = now_s + 1;
            specs[0].seal_expire = specs[0].expire;
        }
    }
    let mut cls: Vec<Cl> = vec![];
    for i in 0..3usize {
        if let Some(cl) = new_client(&mut sc, i as u64, &a[i], &specs[i], srv.now_us) {
            cls.push(cl);
        }
    }
    sc.op("note setup-done");
    if cls.len() < 3 {
        return;
    }
    // every client sends its request; the attacker records everything
    let mut reqs: Vec<Vec<u8>> = vec![];
    for c in cls.iter() {
        match sc.opd(&format!("cli-upd {} 0", c.h)) {
            (_, Some(k)) => reqs.push(sc.hist[k].bytes.clone()),
            _ => return,
        }
    }
    let srv_rx = |sc: &mut Sc, addr: &str, d: &[u8]| -> (String, Option<Vec<u8>>) {
        let (out, e) = sc.opd(&format!("srv-rx 0 {} {}", addr, hex(d)));
        let dg = e.map(|k| sc.hist[k].bytes.clone());
        (out, dg)
    };
    match scenario {
        0 => {
            // response from A0 carrying the challenge issued to the session at A1 (both owned)
            let (_, ch0) = srv_rx(&mut sc, &a[0], &reqs[0]);
            let (_, ch1) = srv_rx(&mut sc, &a[1], &reqs[1]);
            sc.op("srv-dump 0");
            if let (Some(ch0), Some(ch1)) = (ch0, ch1) {
                if let Some(body1) = challenge_body(&ch1, srv.proto, &cls[1].tok.spec.s2c) {
                    let seq = rng.pick(&[1u64, 2, 77]);
                    let forged = forge(3, seq, srv.proto, &cls[0].tok.spec.c2s, &body1);
                    srv_rx(&mut sc, &a[0], &forged);
                    sc.op("srv-dump 0");
                    // and the other way round, from the address the challenge was not issued to
                    if let Some(body0) = challenge_body(&ch0, srv.proto, &cls[0].tok.spec.s2c) {
                        let forged = forge(3, seq + 1, srv.proto, &cls[1].tok.spec.c2s, &body0);
                        srv_rx(&mut sc, &a[1], &forged);
                        sc.op("srv-dump 0");
                    }
                }
                // the honest continuation still works
                sc.op(&format!("cli-rx 0 {}", hex(&ch0)));
                if let (_, Some(k)) = sc.opd("cli-upd 0 0") {
                    let resp = sc.hist[k].bytes.clone();
                    srv_rx(&mut sc, &a[0], &resp);
                    // the same response replayed, also from another address
                    srv_rx(&mut sc, &a[0], &resp);
                    srv_rx(&mut sc, &a[2], &resp);
                }
            }
        }
        1 => {
            // one token presented from two addresses; then its response from the wrong one
            let (_, ch0) = srv_rx(&mut sc, &a[0], &reqs[0]);
            // … one of them the SAME host on another port: the binding is to the socket address, not to the IP
            let same_ip = a4(10, 3, 0, 1, 4399);
            srv_rx(&mut sc, &a[2], &reqs[0]);
            srv_rx(&mut sc, &same_ip, &reqs[0]);
            srv_rx(&mut sc, &a[1], &reqs[0]);
            sc.op("srv-dump 0");
            if let Some(ch0) = ch0 {
                sc.op(&format!("cli-rx 0 {}", hex(&ch0)));
                if let (_, Some(k)) = sc.opd("cli-upd 0 0") {
                    let resp = sc.hist[k].bytes.clone();
                    srv_rx(&mut sc, &same_ip, &resp);
                    srv_rx(&mut sc, &a[2], &resp);
                    srv_rx(&mut sc, &a[0], &resp);
                    srv_rx(&mut sc, &a[2], &reqs[0]);
                }
            }
            // disconnect, then the token again from the first and from another address
            sc.op(&format!("srv-disc 0 {}", cls[0].tok.spec.id));
            srv_rx(&mut sc, &a[1], &reqs[0]);
            srv_rx(&mut sc, &a[0], &reqs[0]);
        }
        2 => {
            // two half-open sessions for one client id (two tokens, two addresses)
            let (_, ch0) = srv_rx(&mut sc, &a[0], &reqs[0]);
            let (_, ch1) = srv_rx(&mut sc, &a[1], &reqs[1]);
            sc.op("srv-dump 0");
            let order: [usize; 2] = if rng.chance(1, 2) { [0, 1] } else { [1, 0] };
            let chs = [ch0, ch1];
            // a third party sits in a slot in FRONT of the winner and leaves before the loser answers: a hole there
            let hole = rng.chance(1, 2);
            if hole {
                if let (_, Some(ch)) = srv_rx(&mut sc, &a[2], &reqs[2]) {
                    answer_challenge(&mut sc, 2, &a[2], &ch, None);
                }
            }
            for (n, i) in order.into_iter().enumerate() {
                if hole && n == 1 {
                    sc.op(&format!("srv-disc 0 {}", cls[2].tok.spec.id));
                    sc.op("srv-dump 0");
                }
                if let Some(ch) = &chs[i] {
                    sc.op(&format!("cli-rx {} {}", i, hex(ch)));
                    if let (_, Some(k)) = sc.opd(&format!("cli-upd {} 0", i)) {
                        let resp = sc.hist[k].bytes.clone();
                        let (_, ka) = srv_rx(&mut sc, &a[i], &resp);
                        if let Some(ka) = ka {
                            sc.op(&format!("cli-rx {} {}", i, hex(&ka)));
                        }
                        sc.op("srv-dump 0");
                    }
                }
            }
            // the loser asks again while the id is connected
            srv_rx(&mut sc, &a[order[1]], &reqs[order[1]]);
        }
        3 => {
            // race for the last slot (max = 1), optionally with the limit raised in between
            let (_, ch0) = srv_rx(&mut sc, &a[0], &reqs[0]);
            let (_, ch1) = srv_rx(&mut sc, &a[1], &reqs[1]);
            let raise = rng.chance(1, 3);
            if raise {
                sc.op(&format!("srv-setmax 0 {}", rng.pick(&[2usize, 3])));
            }
            let chs = [ch0, ch1];
            for i in 0..2usize {
                if let Some(ch) = &chs[i] {
                    sc.op(&format!("cli-rx {} {}", i, hex(ch)));
                    if let (_, Some(k)) = sc.opd(&format!("cli-upd {} 0", i)) {
                        let resp = sc.hist[k].bytes.clone();
                        let (_, reply) = srv_rx(&mut sc, &a[i], &resp);
                        if let Some(reply) = reply {
                            sc.op(&format!("cli-rx {} {}", i, hex(&reply)));
                        }
                        sc.op("srv-dump 0");
                    }
                }
            }
            // third one while full
            let (_, reply) = srv_rx(&mut sc, &a[2], &reqs[2]);
            if let Some(reply) = reply {
                sc.op(&format!("cli-rx 2 {}", hex(&reply)));
            }
            sc.op("cli-dump 2");
            // the captured request of the third client replayed from somewhere else while the server is full
            srv_rx(&mut sc, &a4(10, 3, 0, 9, 4309), &reqs[2]);
            if rng.chance(1, 2) {
                sc.op("srv-setmax 0 0");
                srv_rx(&mut sc, &a[2], &reqs[2]);
                srv_rx(&mut sc, &a4(10, 3, 0, 9, 4309), &reqs[2]);
            }
        }
        7 => {
            // B (address 1) is half-open for client id X; X then connects from A (address 0) with another token;
            // B's retried request and its response must not be answered (server full or not)
            let (_, ch_b) = srv_rx(&mut sc, &a[1], &reqs[1]);
            sc.op("srv-dump 0");
            fast_connect_at(&mut sc, &cls[0], 1);
            sc.op("srv-dump 0");
            srv_rx(&mut sc, &a[1], &reqs[1]);
            if rng.chance(1, 2) {
                srv_rx(&mut sc, &a[1], &reqs[1]);
            }
            sc.op("srv-dump 0");
            if let Some(ch) = ch_b {
                sc.op(&format!("cli-rx 1 {}", hex(&ch)));
                if let (_, Some(k)) = sc.opd("cli-upd 1 0") {
                    let resp = sc.hist[k].bytes.clone();
                    srv_rx(&mut sc, &a[1], &resp);
                    srv_rx(&mut sc, &a[1], &reqs[1]);
                }
            }
            // a third party is not disturbed (when there is room)
            let (_, ch2) = srv_rx(&mut sc, &a[2], &reqs[2]);
            if let Some(ch2) = ch2 {
                sc.op(&format!("cli-rx 2 {}", hex(&ch2)));
            }
            // X leaves: B may start over
            if rng.chance(1, 2) {
                sc.op(&format!("srv-disc 0 {}", cls[0].tok.spec.id));
                srv_rx(&mut sc, &a[1], &reqs[1]);
            }
        }
        6 => {
            // a FULL server (every slot taken) is asked by holders of invalid tokens: it must stay silent
            let nfill = max.min(2);
            for i in 0..nfill {
                fast_connect_at(&mut sc, &cls[i], 1);
            }
            sc.op("srv-dump 0");
            let victim = 2usize; // its token is valid and unused
            let x = a4(10, 3, 0, 9, 4309);
            // valid token, first presented from its owner's address: a (legitimate) denial …
            let (_, reply) = srv_rx(&mut sc, &a[victim], &reqs[victim]);
            if let Some(reply) = reply {
                sc.op(&format!("cli-rx {} {}", victim, hex(&reply)));
            }
            // … the captured request from anywhere else: nothing
            srv_rx(&mut sc, &x, &reqs[victim]);
            // a response for a handshake that does not exist
            let bogus_resp = forge(3, 5, srv.proto, &cls[victim].tok.spec.c2s, &rng.bytes(308));
            srv_rx(&mut sc, &a[victim], &bogus_resp);
            srv_rx(&mut sc, &x, &bogus_resp);
            // tokens that were never valid here
            let kinds = [TokKind::ForeignKey, TokKind::ForeignProto, TokKind::WrongHost, TokKind::ExpiredAt(1), TokKind::SealExpire];
            let mut expiring: Option<(String, Vec<u8>)> = None;
            for (j, kind) in kinds.iter().enumerate() {
                if !rng.chance(2, 3) {
                    continue;
                }
                let mut spec = base_spec(rng, 950 + j as u64, srv.proto, srv.key, now_s, &hosts);
                spec.expire = now_s + 30;
                spec.seal_expire = spec.expire;
                match kind {
                    TokKind::ForeignKey => spec.key = k32(rng),
                    TokKind::ForeignProto => {
                        spec.proto = srv.proto.wrapping_add(1);
                        spec.seal_proto = spec.proto;
                    }
                    TokKind::WrongHost => spec.addrs = BOGUS_A.to_string(),
                    TokKind::ExpiredAt(_) => {
                        spec.create = now_s.saturating_sub(10);
                        spec.expire = now_s + 1;
                        spec.seal_expire = spec.expire;
                    }
                    _ => spec.seal_expire = spec.expire + 1,
                }
                let from = a4(10, 3, 1, j as u8, 4400 + j as u16);
                if let Some(c) = new_client(&mut sc, 10 + j as u64, &from, &spec, srv.now_us) {
                    if let (_, Some(k)) = sc.opd(&format!("cli-upd {} 0", c.h)) {
                        let req = sc.hist[k].bytes.clone();
                        if let TokKind::ExpiredAt(_) = kind {
                            expiring = Some((from.clone(), req.clone()));
                        } else {
                            srv_rx(&mut sc, &from, &req);
                        }
                    }
                }
            }
            if let Some((from, req)) = expiring {
                sc.op("srv-upd 0 1000001");
                srv_rx(&mut sc, &from, &req);
            }
            sc.op("srv-dump 0");
            // a slot becomes free: the bindings made while full still hold
            if rng.chance(2, 3) {
                sc.op(&format!("srv-disc 0 {}", cls[0].tok.spec.id));
                srv_rx(&mut sc, &x, &reqs[victim]);
                let (_, ch) = srv_rx(&mut sc, &a[victim], &reqs[victim]);
                if let Some(ch) = ch {
                    sc.op(&format!("cli-rx {} {}", victim, hex(&ch)));
                    if let (_, Some(k)) = sc.opd(&format!("cli-upd {} 0", victim)) {
                        let resp = sc.hist[k].bytes.clone();
                        srv_rx(&mut sc, &x, &resp);
                        srv_rx(&mut sc, &a[victim], &resp);
                    }
                }
            }
        }
        8 => {
            // the limit is RAISED at run time by a small step (never lowered); more handshakes than there are
            // free seats are half-open at once — every one of them challenged while the server is not full —
            // and then all of them answer: exactly the free seats are taken, the rest is refused
            let l = max;
            let r = if l == 3 && rng.chance(1, 2) { 2 } else { 1 };
            let extra = rng.range(1, 2) as usize;
            let mut addrs: Vec<String> = a.to_vec();
            for i in 3..(l + r + extra) {
                let mut spec = base_spec(rng, 900 + i as u64, srv.proto, srv.key, now_s, &hosts);
                spec.expire = now_s + 30;
                spec.seal_expire = spec.expire;
                spec.timeout = 5;
                let ad = a4(10, 3, 2, i as u8, 4310 + i as u16);
                if let Some(c) = new_client(&mut sc, i as u64, &ad, &spec, srv.now_us) {
                    if let (_, Some(k)) = sc.opd(&format!("cli-upd {} 0", c.h)) {
                        reqs.push(sc.hist[k].bytes.clone());
                        cls.push(c);
                        addrs.push(ad);
                    }
                }
            }
            let total = cls.len();
            let base = rng.below(l as u64 + 1) as usize; // sessions that exist before the race
            // where the limit is raised: before the existing sessions, after them, or (when there is still room for
            // challenges) while the racers are already half-open
            let raise_at = rng.below(if base < l { 3 } else { 2 });
            let raise = format!("srv-setmax 0 {}", l + r);
            if raise_at == 0 {
                sc.op(&raise);
            }
            for i in 0..base.min(total) {
                if let (_, Some(ch)) = srv_rx(&mut sc, &addrs[i], &reqs[i]) {
                    answer_challenge(&mut sc, cls[i].h, &addrs[i], &ch, None);
                }
            }
            sc.op("srv-dump 0");
            if raise_at == 1 {
                sc.op(&raise);
                sc.op("srv-dump 0");
            }
            let mut chals: Vec<(usize, Vec<u8>)> = vec![];
            for i in base.min(total)..total {
                if let (_, Some(ch)) = srv_rx(&mut sc, &addrs[i], &reqs[i]) {
                    chals.push((i, ch));
                }
            }
            if raise_at == 2 {
                sc.op(&raise);
            }
            sc.op("srv-dump 0");
            if rng.chance(1, 2) {
                chals.reverse();
            }
            for (i, ch) in chals.iter() {
                answer_challenge(&mut sc, cls[*i].h, &addrs[*i], ch, None);
                sc.op("srv-dump 0");
                sc.op(&format!("srv-q 0 {}", cls[*i].tok.spec.id));
            }
            // the existing sessions are undisturbed
            for i in 0..base.min(total) {
                sc.op(&format!("srv-q 0 {}", cls[i].tok.spec.id));
                sc.op(&format!("srv-pay 0 {} 6f6b", cls[i].tok.spec.id));
            }
        }
        9 => {
            // every seat is taken while other handshakes are half-open (challenged before the server filled up);
            // forged connection requests — clear-text header in order, private token not authentic — arrive from
            // the addresses of the half-open clients (and from a connected and an unknown one): nothing may change.
            // Then one victim answers its challenge while the server is still full (it is told so), another one
            // after a seat has become free (it connects).
            let nfill = max.min(2);
            let victims: Vec<usize> = (nfill..3).collect();
            let mut chal: Vec<Option<Vec<u8>>> = vec![None; 3];
            for &v in victims.iter() {
                chal[v] = srv_rx(&mut sc, &a[v], &reqs[v]).1;
            }
            for i in 0..nfill {
                if let (_, Some(ch)) = srv_rx(&mut sc, &a[i], &reqs[i]) {
                    answer_challenge(&mut sc, cls[i].h, &a[i], &ch, None);
                }
            }
            sc.op("srv-dump 0");
            let unknown = a4(10, 3, 0, 9, 4309);
            let rounds = rng.range(2, 5);
            for _ in 0..rounds {
                let v = rng.pick(&victims);
                let from = match rng.below(6) {
                    0 => a[0].clone(),
                    1 => unknown.clone(),
                    _ => a[v].clone(),
                };
                let g = if rng.chance(3, 4) { reqs[v].clone() } else { reqs[0].clone() };
                let d = forged_request(rng, &g, srv.proto, now_s);
                hostile_srv(&mut sc, "hostile", &from, &d);
            }
            // the victims go on
            let mut order = victims.clone();
            if rng.chance(1, 2) {
                order.reverse();
            }
            let mut freed = false;
            for (n, &v) in order.iter().enumerate() {
                let free_first = if order.len() == 1 { rng.chance(1, 2) } else { n == 1 };
                if free_first && !freed {
                    freed = true;
                    if rng.chance(1, 2) {
                        sc.op(&format!("srv-disc 0 {}", cls[0].tok.spec.id));
                    } else if let (_, Some(k)) = sc.opd("cli-disc 0") {
                        let d = sc.hist[k].bytes.clone();
                        srv_rx(&mut sc, &a[0], &d);
                    }
                    sc.op("srv-dump 0");
                }
                if let Some(ch) = chal[v].clone() {
                    answer_challenge(&mut sc, cls[v].h, &a[v], &ch, None);
                    sc.op("srv-dump 0");
                    sc.op(&format!("cli-dump {}", cls[v].h));
                }
            }
        }
        10 => {
            // a full server answers the victim's requests with denials that the path withholds; a seat becomes free,
            // the retransmitted request succeeds, the victim is connected — and only now the old datagrams of the
            // handshake phase (denials, possibly a challenge) are delivered: the session stays up on both sides
            let nfill = max.min(2);
            let v = 2usize;
            let mut withheld: Vec<Vec<u8>> = vec![];
            if rng.chance(1, 2) {
                // a challenge from before the server filled up, withheld as well
                if let (_, Some(ch)) = srv_rx(&mut sc, &a[v], &reqs[v]) {
                    withheld.push(ch);
                }
            }
            for i in 0..nfill {
                if let (_, Some(ch)) = srv_rx(&mut sc, &a[i], &reqs[i]) {
                    answer_challenge(&mut sc, cls[i].h, &a[i], &ch, None);
                }
            }
            sc.op("srv-dump 0");
            if let (_, Some(d)) = srv_rx(&mut sc, &a[v], &reqs[v]) {
                withheld.push(d);
            }
            for _ in 0..rng.range(0, 2) {
                if let (_, Some(k)) = sc.opd(&format!("cli-upd {} 250000", v)) {
                    let req = sc.hist[k].bytes.clone();
                    if let (_, Some(d)) = srv_rx(&mut sc, &a[v], &req) {
                        withheld.push(d);
                    }
                }
            }
            // a seat becomes free
            if rng.chance(1, 2) {
                sc.op(&format!("srv-disc 0 {}", cls[0].tok.spec.id));
            } else if let (_, Some(k)) = sc.opd("cli-disc 0") {
                let d = sc.hist[k].bytes.clone();
                srv_rx(&mut sc, &a[0], &d);
            }
            if let (_, Some(k)) = sc.opd(&format!("cli-upd {} 250000", v)) {
                let req = sc.hist[k].bytes.clone();
                if let (_, Some(ch)) = srv_rx(&mut sc, &a[v], &req) {
                    answer_challenge(&mut sc, cls[v].h, &a[v], &ch, None);
                }
            }
            sc.op("srv-dump 0");
            // the withheld datagrams arrive late (some of them twice)
            let n = withheld.len() + rng.below(2) as usize;
            for j in 0..n {
                let d = if j < withheld.len() { withheld[j].clone() } else { rng.pick(&withheld) };
                sc.op(&format!("cli-q {}", v));
                sc.op(&format!("cli-rx {} {}", v, hex(&d)));
                sc.op(&format!("cli-q {}", v));
                sc.op(&format!("srv-q 0 {}", cls[v].tok.spec.id));
            }
            sc.op(&format!("cli-dump {}", v));
        }
        11 => {
            // client id X is connected from A; the server's clock runs past X's timeout but `update_client(X)` has not
            // been called yet (NetcodeServerTransport::update: update, drain the socket, then update_client per id);
            // in that window a second handshake for X (another token, address B) completes or starts
            let variant = rng.below(3);
            let id = cls[0].tok.spec.id;
            let ch_b = if variant == 0 { srv_rx(&mut sc, &a[1], &reqs[1]).1 } else { None };
            if let (_, Some(ch)) = srv_rx(&mut sc, &a[0], &reqs[0]) {
                answer_challenge(&mut sc, cls[0].h, &a[0], &ch, None);
            }
            sc.op("srv-dump 0");
            // token timeout: 5 s
            let dt = if rng.chance(1, 4) { rng.pick(&[4_999_999u64, 5_000_000]) } else { rng.pick(&[5_000_001u64, 5_400_000, 7_000_000]) };
            sc.op(&format!("srv-upd 0 {}", dt));
            match ch_b {
                Some(ch) => {
                    answer_challenge(&mut sc, cls[1].h, &a[1], &ch, None);
                }
                None => {
                    if let (_, Some(ch)) = srv_rx(&mut sc, &a[1], &reqs[1]) {
                        answer_challenge(&mut sc, cls[1].h, &a[1], &ch, None);
                    }
                }
            }
            sc.op("srv-dump 0");
            sc.op(&format!("srv-q 0 {}", id));
            sc.op(&format!("srv-pay 0 {} 6f6b", id));
            // now the sessions are updated
            let (_, e) = sc.opd(&format!("srv-updc 0 {}", id));
            if let Some(k) = e {
                let d = sc.hist[k].bytes.clone();
                sc.op(&format!("cli-rx 0 {}", hex(&d)));
            }
            sc.op("srv-dump 0");
            sc.op(&format!("srv-q 0 {}", id));
            // B knocks again (it may get in once the old session has been reaped)
            if let (_, Some(k)) = sc.opd("cli-upd 1 250000") {
                let req = sc.hist[k].bytes.clone();
                if let (_, Some(ch)) = srv_rx(&mut sc, &a[1], &req) {
                    answer_challenge(&mut sc, cls[1].h, &a[1], &ch, None);
                }
            }
            sc.op(&format!("srv-updc 0 {}", id));
        }
        12 => {
            // two tokens of ONE client id sealing different user data, both owned by the peer and both used from one
            // address; the challenge obtained with the first token is echoed in the handshake opened with the second
            // one (sealed under the second token's key): no connection — and never one reported with the first
            // token's user data
            let id = cls[0].tok.spec.id;
            let (_, ch1) = srv_rx(&mut sc, &a[0], &reqs[0]);
            if old_token_expires {
                sc.op("srv-upd 0 2000001");
            }
            let (_, ch2) = srv_rx(&mut sc, &a[0], &reqs[1]);
            sc.op("srv-dump 0");
            if let (Some(ch1), Some(ch2)) = (ch1, ch2) {
                if let Some(body1) = challenge_body(&ch1, srv.proto, &cls[0].tok.spec.s2c) {
                    let forged = forge(3, rng.pick(&[1u64, 2, 9]), srv.proto, &cls[1].tok.spec.c2s, &body1);
                    srv_rx(&mut sc, &a[0], &forged);
                    sc.op("srv-dump 0");
                    sc.op(&format!("srv-q 0 {}", id));
                }
                // the honest continuation of the second handshake
                answer_challenge(&mut sc, cls[1].h, &a[0], &ch2, None);
                sc.op("srv-dump 0");
                sc.op(&format!("srv-q 0 {}", id));
            }
        }
        13 => {
            // the application calls disconnect(id) for ids that are NOT connected: half-open (challenged, response not
            // yet processed), unknown, half-open while another token of the same id is connected: nothing is reported
            // (and then for connected ones: exactly one report each)
            let (_, ch0) = srv_rx(&mut sc, &a[0], &reqs[0]);
            let (_, ch1) = srv_rx(&mut sc, &a[1], &reqs[1]);
            sc.op("srv-dump 0");
            sc.op(&format!("srv-disc 0 {}", cls[1].tok.spec.id));
            sc.op("srv-disc 0 123456789");
            sc.op(&format!("srv-disc 0 {}", cls[2].tok.spec.id));
            sc.op("srv-dump 0");
            // client 0 goes on (when both tokens share the id its half-open entry was the one just named)
            if let Some(ch) = ch0 {
                answer_challenge(&mut sc, 0, &a[0], &ch, None);
            }
            sc.op("srv-dump 0");
            // half-open at a[1] (possibly for the id that is connected from a[0] now): still no report for it …
            if cls[1].tok.spec.id != cls[0].tok.spec.id {
                sc.op(&format!("srv-disc 0 {}", cls[1].tok.spec.id));
                sc.op("srv-dump 0");
                sc.op(&format!("srv-q 0 {}", cls[1].tok.spec.id));
            }
            if let Some(ch) = ch1 {
                answer_challenge(&mut sc, 1, &a[1], &ch, None);
            }
            sc.op("srv-dump 0");
            // … and one report per connected session
            for i in [0usize, 1, 0] {
                let (_, e) = sc.opd(&format!("srv-disc 0 {}", cls[i].tok.spec.id));
                if let Some(k) = e {
                    let d = sc.hist[k].bytes.clone();
                    sc.op(&format!("cli-rx {} {}", i, hex(&d)));
                }
                sc.op(&format!("srv-q 0 {}", cls[i].tok.spec.id));
            }
        }
        14 => {
            // a secure server one of whose public addresses is a wildcard: host lists are compared literally
            for i in [1usize, 2, 0, 1] {
                let (out, ch) = srv_rx(&mut sc, &a[i], &reqs[i]);
                if let Some(ch) = ch {
                    if out.starts_with("send ") {
                        answer_challenge(&mut sc, cls[i].h, &a[i], &ch, None);
                    }
                }
                sc.op("srv-dump 0");
            }
            sc.op(&format!("srv-q 0 {}", cls[2].tok.spec.id));
        }
        15 => {
            // P sits in slot 0; devices A and B of ONE client id are both challenged; A answers and is seated behind P;
            // P leaves (by its Disconnect datagram, a kick, or a time-out) — a hole in FRONT of A — and only then B's
            // response arrives: the id is connected, B gets nothing
            if let (_, Some(ch)) = srv_rx(&mut sc, &a[2], &reqs[2]) {
                answer_challenge(&mut sc, 2, &a[2], &ch, None);
            }
            let (_, ch_a) = srv_rx(&mut sc, &a[0], &reqs[0]);
            let (_, ch_b) = srv_rx(&mut sc, &a[1], &reqs[1]);
            let (w, l) = if rng.chance(1, 2) { (0usize, 1usize) } else { (1, 0) };
            let chs = [ch_a, ch_b];
            if let Some(ch) = &chs[w] {
                answer_challenge(&mut sc, w as u64, &a[w], ch, None);
            }
            sc.op("srv-dump 0");
            match rng.below(3) {
                0 => {
                    sc.op(&format!("srv-disc 0 {}", cls[2].tok.spec.id));
                }
                1 => {
                    if let (_, Some(k)) = sc.opd("cli-disc 2") {
                        let d = sc.hist[k].bytes.clone();
                        srv_rx(&mut sc, &a[2], &d);
                    }
                }
                _ => {
                    // the winner stays alive, P times out (token timeout 5 s)
                    sc.op("srv-upd 0 4000000");
                    if let (_, Some(k)) = sc.opd(&format!("cli-upd {} 4000000", w)) {
                        let d = sc.hist[k].bytes.clone();
                        srv_rx(&mut sc, &a[w], &d);
                    }
                    sc.op("srv-upd 0 1100000");
                    sc.op(&format!("srv-updc 0 {}", cls[2].tok.spec.id));
                }
            }
            sc.op("srv-dump 0");
            if let Some(ch) = &chs[l] {
                answer_challenge(&mut sc, l as u64, &a[l], ch, None);
            }
            sc.op("srv-dump 0");
            sc.op(&format!("srv-q 0 {}", cls[0].tok.spec.id));
            sc.op(&format!("srv-pay 0 {} 6f6b", cls[0].tok.spec.id));
            sc.op(&format!("srv-updc 0 {}", cls[0].tok.spec.id));
        }
        16 => {
            // payload routing after slot reuse: X is sent a payload, X leaves (own Disconnect datagram / kick /
            // time-out), a newcomer is seated in the slot X freed, then a payload is requested for X again
            let mut prev: Option<usize> = None;
            for i in 0..3usize {
                if let (_, Some(ch)) = srv_rx(&mut sc, &a[i], &reqs[i]) {
                    answer_challenge(&mut sc, i as u64, &a[i], &ch, None);
                }
                sc.op("srv-dump 0");
                if let Some(p) = prev {
                    // the departed one first, before any other id is served
                    sc.op(&format!("srv-pay 0 {} 676f6e65", cls[p].tok.spec.id));
                }
                let (_, e) = sc.opd(&format!("srv-pay 0 {} {}", cls[i].tok.spec.id, hex(&rng.payload(5))));
                if let Some(k) = e {
                    let d = sc.hist[k].bytes.clone();
                    sc.op(&format!("cli-rx {} {}", i, hex(&d)));
                }
                if i == 2 {
                    break;
                }
                match rng.below(4) {
                    0 => {
                        sc.op(&format!("srv-disc 0 {}", cls[i].tok.spec.id));
                    }
                    1 => {
                        sc.op("srv-upd 0 5000001");
                        sc.op(&format!("srv-updc 0 {}", cls[i].tok.spec.id));
                    }
                    _ => {
                        if let (_, Some(k)) = sc.opd(&format!("cli-disc {}", i)) {
                            let d = sc.hist[k].bytes.clone();
                            srv_rx(&mut sc, &a[i], &d);
                        }
                    }
                }
                sc.op(&format!("srv-pay 0 {} 00", cls[i].tok.spec.id));
                prev = Some(i);
            }
            for i in 0..3usize {
                sc.op(&format!("srv-pay 0 {} 656e64", cls[i].tok.spec.id));
                sc.op(&format!("srv-q 0 {}", cls[i].tok.spec.id));
            }
        }
        17 => {
            // three sessions in slots 0..2; the limit is lowered (nobody leaves) and then raised to a value above the
            // lowered limit but not above the table's length: every session is still there
            for i in 0..3usize {
                if let (_, Some(ch)) = srv_rx(&mut sc, &a[i], &reqs[i]) {
                    answer_challenge(&mut sc, i as u64, &a[i], &ch, None);
                }
            }
            if rng.chance(1, 3) {
                sc.op(&format!("srv-disc 0 {}", cls[rng.below(2) as usize].tok.spec.id));
            }
            sc.op("srv-dump 0");
            let low = rng.pick(&[0usize, 1, 1, 2]);
            let high = rng.range(low as u64 + 1, 3) as usize;
            for m in [low, high] {
                sc.op(&format!("srv-setmax 0 {}", m));
                sc.op("srv-dump 0");
                for i in 0..3usize {
                    sc.op(&format!("srv-q 0 {}", cls[i].tok.spec.id));
                }
            }
            for i in 0..3usize {
                sc.op(&format!("srv-pay 0 {} 6f6b", cls[i].tok.spec.id));
                sc.op(&format!("srv-updc 0 {}", cls[i].tok.spec.id));
            }
        }
        18 => {
            // A's request is answered, the challenge is lost; an eavesdropper replays the clear-text request byte for byte
            // from B: nothing, and nothing changes (the token stays bound to A); A retransmits and is challenged again;
            // the replay from B again: nothing; A completes
            let b = if rng.chance(1, 2) { a4(10, 3, 0, 9, 4309) } else { a4(10, 3, 0, 1, 4399) }; // (or A's host, another port)
            srv_rx(&mut sc, &a[0], &reqs[0]);
            let n = rng.range(1, 3);
            for _ in 0..n {
                hostile_srv(&mut sc, "hostile", &b, &reqs[0]);
            }
            if rng.chance(1, 2) {
                sc.op(&format!("srv-upd 0 {}", rng.pick(&[1_000u64, 250_000, 1_000_000])));
            }
            let ch = match sc.opd("cli-upd 0 250000") {
                (_, Some(k)) => {
                    let rq = sc.hist[k].bytes.clone();
                    srv_rx(&mut sc, &a[0], &rq).1
                }
                _ => None,
            };
            sc.op("srv-dump 0");
            hostile_srv(&mut sc, "hostile", &b, &reqs[0]);
            hostile_srv(&mut sc, "hostile", &a[2], &reqs[0]);
            if let Some(ch) = ch {
                answer_challenge(&mut sc, 0, &a[0], &ch, None);
            }
            sc.op("srv-dump 0");
            hostile_srv(&mut sc, "hostile", &b, &reqs[0]);
        }
        19 => {
            // token T is used from A first (bound to A); address B opens a handshake of its own with token U and, while
            // that is half-open, presents T: the binding is consulted for EVERY request, also from an address that is
            // already in a handshake — nothing, and the response to a challenge obtained that way connects nobody.
            // Both tokens belong to one party (cross-use between sessions it legitimately owns).
            let (ta, ub) = if rng.chance(1, 2) { (0usize, 1usize) } else { (1, 0) };
            let (_, ch_a) = srv_rx(&mut sc, &a[ta], &reqs[ta]);
            let (_, ch_u) = srv_rx(&mut sc, &a[ub], &reqs[ub]);
            sc.op("srv-dump 0");
            let n = rng.range(1, 2);
            for _ in 0..n {
                if let (_, Some(ch)) = srv_rx(&mut sc, &a[ub], &reqs[ta]) {
                    // (only if the server answered: T's owner answers that challenge from B)
                    answer_challenge(&mut sc, cls[ta].h, &a[ub], &ch, None);
                }
            }
            sc.op("srv-dump 0");
            sc.op(&format!("srv-q 0 {}", cls[ta].tok.spec.id));
            // the honest continuations: T from A, U from B (U's handshake was restarted by nothing)
            if rng.chance(1, 2) {
                sc.op("srv-upd 0 250000");
                if let (_, Some(k)) = sc.opd(&format!("cli-upd {} 250000", cls[ub].h)) {
                    let rq = sc.hist[k].bytes.clone();
                    if let (_, Some(ch)) = srv_rx(&mut sc, &a[ub], &rq) {
                        answer_challenge(&mut sc, cls[ub].h, &a[ub], &ch, None);
                    }
                }
            } else if let Some(ch) = ch_u {
                answer_challenge(&mut sc, cls[ub].h, &a[ub], &ch, None);
            }
            if let Some(ch) = ch_a {
                answer_challenge(&mut sc, cls[ta].h, &a[ta], &ch, None);
            }
            sc.op("srv-dump 0");
        }
        4 => {
            // connected session 0; the attacker (owner of session 1) injects packets sealed with its own
            // keys from the victim's address and replays the victim's handshake
            let ok0 = {
                let (_, ch0) = srv_rx(&mut sc, &a[0], &reqs[0]);
                let mut ok = false;
                if let Some(ch0) = ch0 {
                    sc.op(&format!("cli-rx 0 {}", hex(&ch0)));
                    if let (_, Some(k)) = sc.opd("cli-upd 0 0") {
                        let resp = sc.hist[k].bytes.clone();
                        let (out, ka) = srv_rx(&mut sc, &a[0], &resp);
                        ok = out.starts_with("connected");
                        if let Some(ka) = ka {
                            sc.op(&format!("cli-rx 0 {}", hex(&ka)));
                        }
                        // handshake replays towards the connected address
                        srv_rx(&mut sc, &a[0], &resp);
                        srv_rx(&mut sc, &a[0], &reqs[0]);
                    }
                }
                ok
            };
            if ok0 {
                for ty in [4u8, 5, 6] {
                    let body = if ty == 4 { vec![0u8; 8] } else if ty == 5 { rng.payload(20) } else { vec![] };
                    let d = forge(ty, rng.range(0, 400), srv.proto, &cls[1].tok.spec.c2s, &body);
                    hostile_srv(&mut sc, "hostile", &a[0], &d);
                }
                // towards the victim client: packets sealed with the attacker's server->client key
                for ty in [1u8, 4, 5, 6] {
                    let body = if ty == 4 { vec![0u8; 8] } else if ty == 5 { rng.payload(20) } else { vec![] };
                    let d = forge(ty, rng.range(0, 400), srv.proto, &cls[1].tok.spec.s2c, &body);
                    hostile_cli(&mut sc, "hostile", 0, &d);
                }
                // own session: an authentic keep-alive with a short body (owner of the key)
                let (_, ch1) = srv_rx(&mut sc, &a[1], &reqs[1]);
                if let Some(ch1) = ch1 {
                    sc.op(&format!("cli-rx 1 {}", hex(&ch1)));
                    if let (_, Some(k)) = sc.opd("cli-upd 1 0") {
                        let resp = sc.hist[k].bytes.clone();
                        srv_rx(&mut sc, &a[1], &resp);
                        sc.op("srv-dump 0");
                        let d = forge(4, 1000, srv.proto, &cls[1].tok.spec.c2s, &[1, 2, 3]);
                        srv_rx(&mut sc, &a[1], &d);
                        sc.op("srv-dump 0");
                        let d = forge(5, 1001, srv.proto, &cls[1].tok.spec.c2s, &rng.payload(5));
                        srv_rx(&mut sc, &a[1], &d);
                        let d = forge(6, u64::MAX, srv.proto, &cls[1].tok.spec.c2s, &[]);
                        srv_rx(&mut sc, &a[1], &d);
                        sc.op("srv-dump 0");
                    }
                }
            }
        }
        _ => {
            // reconnect with the same token: allowed from the same address only; old traffic replayed
            let mut old: Vec<Vec<u8>> = vec![];
            let (_, ch0) = srv_rx(&mut sc, &a[0], &reqs[0]);
            if let Some(ch0) = ch0 {
                sc.op(&format!("cli-rx 0 {}", hex(&ch0)));
                if let (_, Some(k)) = sc.opd("cli-upd 0 0") {
                    let resp = sc.hist[k].bytes.clone();
                    let (_, ka) = srv_rx(&mut sc, &a[0], &resp);
                    if let Some(ka) = ka {
                        sc.op(&format!("cli-rx 0 {}", hex(&ka)));
                    }
                    for _ in 0..2 {
                        if let (_, Some(k)) = sc.opd(&format!("cli-pay 0 {}", hex(&rng.payload(9)))) {
                            let d = sc.hist[k].bytes.clone();
                            srv_rx(&mut sc, &a[0], &d);
                            old.push(d);
                        }
                    }
                    if let (_, Some(k)) = sc.opd("cli-disc 0") {
                        let d = sc.hist[k].bytes.clone();
                        srv_rx(&mut sc, &a[0], &d);
                    }
                    sc.op("srv-dump 0");
                    // the old response alone does not reconnect
                    srv_rx(&mut sc, &a[0], &resp);
                    // token from another address: refused; from the same address: a new handshake
                    srv_rx(&mut sc, &a[1], &reqs[0]);
                    let (_, ch) = srv_rx(&mut sc, &a[0], &reqs[0]);
                    if ch.is_some() {
                        // old response carries the old challenge: same id and user data
                        srv_rx(&mut sc, &a[0], &resp);
                        sc.op("srv-dump 0");
                        if rng.chance(1, 2) {
                            sc.op("note cross-session-replay");
                            for d in old.iter() {
                                srv_rx(&mut sc, &a[0], d);
                            }
                        }
                    }
                }
            }
        }
    }
    sc.op("srv-dump 0");
    sc.op(&format!("srv-q 0 {}", cls[0].tok.spec.id));
    sc.op(&format!("srv-q 0 {}", cls[1].tok.spec.id));
}

// =============================================================================================
// profile 1: nc-wire
// =============================================================================================

const SEQ_CLASSES: &[u64] = &[
    0,
    1,
    0xff,
    0x100,
    0xffff,
    0x1_0000,
    0xff_ffff,
    0x100_0000,
    0xffff_ffff,
    0x1_0000_0000,
    0xff_ffff_ffff,
    0x100_0000_0000,
    0xffff_ffff_ffff,
    0x1_0000_0000_0000,
    0xff_ffff_ffff_ffff,
    0x100_0000_0000_0000,
    1 << 63,
    u64::MAX - 256,
    u64::MAX - 1,
    u64::MAX,
];

fn gen_packet_term(rng: &mut Rng, kind: u64) -> String {
    match kind {
        0 => format!(
            "req {} {} {} {} {}",
            if rng.chance(1, 6) { hex(&rng.bytes(13)) } else { VERSION_HEX.to_string() },
            rng.pick(&[0u64, 7, u64::MAX]),
            rng.pick(&[0u64, 1, 1_758_700_000, u64::MAX]),
            hex(&rng.bytes(24)),
            hex(&rng.bytes(1024))
        ),
        1 => "denied".into(),
        2 => format!("chal {} {}", rng.pick(SEQ_CLASSES), hex(&rng.bytes(300))),
        3 => format!("resp {} {}", rng.pick(SEQ_CLASSES), hex(&rng.bytes(300))),
        4 => format!("ka {} {}", rng.pick(&[0u64, 1, 1023, u32::MAX as u64]), rng.pick(&[0u64, 1, 1024, u32::MAX as u64])),
        5 => {
            let n = rng.pick(&[0usize, 1, 2, 16, 17, 300, 1299, 1300, 1301, 1375, 1383, 1384]);
            format!("pay {}", hex(&rng.payload(n)))
        }
        _ => "disc".into(),
    }
}

fn wire_body_len(term: &str) -> usize {
    let t: Vec<&str> = term.split(' ').collect();
    match t[0] {
        "req" => 1077,
        "chal" | "resp" => 308,
        "ka" => 8,
        "pay" => unhex(t[1]).map(|v| v.len()).unwrap_or(0),
        _ => 0,
    }
}

/// IPv6 addresses with a special form: IPv4-mapped (::ffff:a.b.c.d), IPv4-compatible (::a.b.c.d), loopback, unspecified,
/// an ffff group elsewhere, the NAT64 prefix — each of them is a 16-byte value of its own on the wire
const SPECIAL_V6: &[&str] = &[
    "00000000000000000000ffff7f000001",
    "00000000000000000000ffff0a000007",
    "00000000000000000000ffff00000000",
    "00000000000000000000ffffffffffff",
    "0000000000000000000000007f000001",
    "00000000000000000000000000000001",
    "00000000000000000000000000000000",
    "0000000000000000ffff00000a000007",
    "0064ff9b0000000000000000c0000201",
    "fe80000000000000000000000000ffff",
];

const MAPPED_A: &str = "6:00000000000000000000ffff7f000001:5000";

fn gen_addr_list(rng: &mut Rng, n: usize, holes: bool) -> String {
    if n == 0 {
        return "-".into();
    }
    let v: Vec<String> = (0..n)
        .map(|i| {
            if holes && i > 0 && rng.chance(1, 5) {
                "_".to_string()
            } else if rng.chance(1, 5) {
                format!("6:{}:{}", rng.pick(SPECIAL_V6), rng.pick(&[0u16, 1, 5000, 65535]))
            } else if rng.chance(1, 2) {
                a4(rng.below(256) as u8, rng.below(256) as u8, 0, i as u8, rng.pick(&[0u16, 1, 5000, 65535]))
            } else {
                a6(rng.below(4096) as u16, rng.pick(&[0u16, 1, 5000, 65535]))
            }
        })
        .collect();
    v.join(",")
}

/// serialise an address list by hand; `types` overrides the type byte of entry i when present
fn raw_addrs(count: u32, entries: &[(u8, Vec<u8>)]) -> Vec<u8> {
    let mut v = count.to_le_bytes().to_vec();
    for (ty, body) in entries {
        v.push(*ty);
        v.extend_from_slice(body);
    }
    v
}

fn gen_raw_entries(rng: &mut Rng, n: usize, bad_at: Option<(usize, u8)>) -> Vec<(u8, Vec<u8>)> {
    (0..n)
        .map(|i| {
            if let Some((at, ty)) = bad_at {
                if at == i {
                    // NONE (0): no body; unknown types: whatever follows
                    return (ty, if ty == 0 { vec![] } else { rng.bytes(6) });
                }
            }
            if rng.chance(1, 2) {
                (1u8, rng.bytes(6))
            } else {
                (2u8, rng.bytes(18))
            }
        })
        .collect()
}

/// C17 tamper sweep against a server that HOLDS the pending handshake of the very token and address: the client `h`
/// (token `spec`) at `addr` sends its request and is challenged; then single-bit variants of that request are
/// retransmitted from the same address — bits of the sealed private part, every byte of the xnonce, the AAD-bound
/// expiry (towards earlier and later), protocol id, version, the MAC tail, a truncation — interleaved with genuine
/// retransmissions; none of the variants may be answered. `all` = every position, otherwise a random dozen.
fn tamper_sweep_pending(sc: &mut Sc, rng: &mut Rng, h: u64, addr: &str, spec: &TokSpec, now_us: u64, all: bool) {
    let cl = match new_client(sc, h, addr, spec, now_us) {
        Some(c) => c,
        None => return,
    };
    let req = match sc.opd(&format!("cli-upd {} 0", h)) {
        (_, Some(k)) => sc.hist[k].bytes.clone(),
        _ => return,
    };
    if req.len() < 1078 {
        return;
    }
    let mut chal = match sc.opd(&format!("srv-rx 0 {} {}", addr, hex(&req))) {
        (_, Some(k)) => sc.hist[k].bytes.clone(),
        _ => return,
    };
    let mut bits: Vec<usize> = vec![];
    for b in [0usize, 1, 8 * 500 + 3, 8 * 1007 + 7] {
        bits.push(54 * 8 + b); // the sealed body (without its MAC)
    }
    for j in 0..24usize {
        bits.push((30 + j) * 8 + j % 8); // xnonce
    }
    for b in [0usize, 1, 6, 33, 63] {
        bits.push(22 * 8 + b); // expiry (little endian): earlier and later
    }
    bits.push(14 * 8); // protocol id
    bits.push(8); // version string
    bits.push(1077 * 8 + 7); // the MAC of the token
    let mut variants: Vec<Vec<u8>> = bits.iter().map(|b| flip_bit(&req, *b)).collect();
    variants.push(req[..1077].to_vec());
    if !all {
        for _ in 0..3 {
            variants.push(flip_bit(&req, 54 * 8 + rng.below(1008 * 8) as usize));
        }
        let mut pick: Vec<Vec<u8>> = vec![];
        for _ in 0..12 {
            pick.push(rng.pick(&variants));
        }
        variants = pick;
    }
    for (n, v) in variants.iter().enumerate() {
        sc.op("note mutated");
        sc.op(&format!("srv-rx 0 {} {}", addr, hex(v)));
        if n % 7 == 3 {
            // a genuine retransmission in between: answered with a fresh challenge
            if let (_, Some(k)) = sc.opd(&format!("srv-rx 0 {} {}", addr, hex(&req))) {
                chal = sc.hist[k].bytes.clone();
            }
        }
    }
    // the same variants of a token whose handshake is NOT pending at that address
    let other = a4(10, 44, 0, 9, 4409);
    for v in variants.iter().take(3) {
        sc.op("note mutated");
        sc.op(&format!("srv-rx 0 {} {}", other, hex(v)));
    }
    sc.op("srv-dump 0");
    // the genuine handshake is unharmed
    answer_challenge(sc, cl.h, addr, &chal, None);
    sc.op("srv-dump 0");
}

fn script_wire(rng: &mut Rng, tier: Tier, f: &mut dyn FnMut(&str) -> String) {
    let mut sc = Sc::new(f);
    let budget = if tier == Tier::Thorough { 60 } else { 44 };
    let proto = rng.pick(&[0u64, 7, 0x1122334455667788, u64::MAX]);
    let key = k32(rng);
    let key_hex = hex(&key);
    if rng.chance(1, 6) {
        // tampered retransmissions of a connection request whose handshake is pending
        let ckey = k32(rng);
        let now_us = rng.pick(&[0u64, 999_999, 5_000_000]);
        sc.op(&format!("srv-new 0 {} 2 {} 1 {} {} {}", now_us, proto, key_hex, hex(&ckey), SRV_A));
        let mut spec = base_spec(rng, 77, proto, key, now_us / 1_000_000, SRV_A);
        spec.expire = now_us / 1_000_000 + 40;
        spec.seal_expire = spec.expire;
        tamper_sweep_pending(&mut sc, rng, 0, &a4(10, 44, 0, 1, 4401), &spec, now_us, false);
    }
    while sc.n < budget {
        match rng.below(12) {
            0 | 1 | 2 => {
                // round trip of one packet kind x sequence class
                let kind = rng.below(7);
                let term = gen_packet_term(rng, kind);
                let seq = rng.pick(SEQ_CLASSES);
                let with_key = kind != 0 || rng.chance(1, 2);
                sc.op("note rt");
                let out = sc.op(&format!(
                    "nc-enc 1400 {} {} {} {}",
                    proto,
                    if with_key { seq.to_string() } else { "-".into() },
                    if with_key { key_hex.clone() } else { "-".into() },
                    term
                ));
                if let Some(h) = out.strip_prefix("ok ") {
                    let rp = rng.pick(&["-", "n", "n,5", "n,300"]);
                    sc.op(&format!("nc-dec {} {} {} {}", proto, if kind == 0 && rng.chance(1, 2) { "-" } else { &key_hex }, rp, h));
                    let d = unhex(h).unwrap_or_default();
                    // and the ways it must fail
                    match rng.below(6) {
                        0 => {
                            if kind != 0 {
                                sc.op("note mutated");
                                sc.op(&format!("nc-dec {} {} - {}", proto ^ (1u64 << rng.below(64)), key_hex, h));
                            }
                        }
                        1 => {
                            if kind != 0 {
                                sc.op("note mutated");
                                sc.op(&format!("nc-dec {} {} - {}", proto, hex(&k32(rng)), h));
                            }
                        }
                        2 => {
                            if kind != 0 {
                                sc.op(&format!("nc-dec {} - - {}", proto, h));
                            }
                        }
                        3 => {
                            // replay window: same sequence already advanced / far ahead
                            if kind >= 4 {
                                sc.op(&format!("nc-dec {} {} n,{} {}", proto, key_hex, seq, h));
                                if seq < u64::MAX - 256 {
                                    sc.op(&format!("nc-dec {} {} n,{} {}", proto, key_hex, seq + 256, h));
                                    sc.op(&format!("nc-dec {} {} n,{} {}", proto, key_hex, seq + 255, h));
                                }
                            }
                        }
                        _ => {
                            // (a connection request is not sealed as a packet: its token is checked by the server)
                            let m = mutate(rng, &d);
                            if kind != 0 {
                                sc.op("note mutated");
                            }
                            sc.op(&format!("nc-dec {} {} {} {}", proto, key_hex, rng.pick(&["-", "n"]), hex(&m)));
                        }
                    }
                }
            }
            3 => {
                // encode into buffers that are too small / exactly large enough
                let kind = rng.range(1, 6);
                let term = gen_packet_term(rng, kind);
                let seq = rng.pick(SEQ_CLASSES);
                let need = 1 + seq_bytes_required(seq) + wire_body_len(&term) + 16;
                let cap = match rng.below(6) {
                    0 => 0,
                    1 => need.saturating_sub(1),
                    2 => need,
                    3 => need.saturating_sub(16),
                    4 => need.saturating_sub(17),
                    _ => rng.below(need as u64 + 2) as usize,
                };
                sc.op(&format!("nc-enc {} {} {} {} {}", cap, proto, seq, key_hex, term));
                if kind == 5 && rng.chance(1, 2) {
                    let term = gen_packet_term(rng, 0);
                    sc.op(&format!("nc-enc {} {} - - {}", rng.pick(&[0usize, 1, 13, 1077, 1078]), proto, term));
                }
                if rng.chance(1, 3) {
                    sc.op(&format!("nc-enc 1400 {} - - {}", proto, term));
                }
            }
            4 | 5 => {
                // malformed input: every prefix byte x assorted lengths
                let d = junk(rng);
                let k = if rng.chance(3, 4) { key_hex.clone() } else { "-".to_string() };
                let out = sc.op(&format!("nc-dec {} {} {} {}", proto, k, rng.pick(&["-", "n", "n,0", "n,1000"]), hex(&d)));
                if let Some(rest) = out.strip_prefix("ok ") {
                    // ok <seq> <packet term> rp=…   (junk that decodes is a connection request: not sealed)
                    if let (Some((seq, term)), true) = (rest.split_once(" rp=").and_then(|x| x.0.split_once(' ')), rest.contains(" req ")) {
                        let _ = seq;
                        sc.op("note rt2");
                        let w = sc.op(&format!("nc-enc 1400 {} - - {}", proto, term));
                        if let Some(h) = w.strip_prefix("ok ") {
                            sc.op(&format!("nc-dec {} {} - {}", proto, k, h));
                        }
                    }
                }
            }
            6 => {
                // replay window on its own
                let alphabet: Vec<u64> =
                    vec![0, 1, 2, 255, 256, 257, 511, 512, 513, 1000, u64::MAX - 257, u64::MAX - 256, u64::MAX - 255, u64::MAX - 1, u64::MAX];
                let n = rng.range(1, 14);
                let cmds: Vec<String> = (0..n)
                    .map(|_| {
                        let s = if rng.chance(1, 5) { rng.next_u64() } else { rng.pick(&alphabet) };
                        format!("{}{}", if rng.chance(1, 2) { "a" } else { "q" }, s)
                    })
                    .collect();
                sc.op(&format!("rp-run {}", cmds.join(",")));
            }
            7 | 8 => {
                // the token authority's own entry point: host count limits, timestamps
                if rng.chance(1, 3) {
                    let n = rng.pick(&[0usize, 1, 2, 32, 33]);
                    let list = if n == 33 { format!("{},{}", gen_addr_list(rng, 32, false), a4(1, 2, 3, 4, 5)) } else { gen_addr_list(rng, n, false) };
                    let ud = if rng.chance(1, 2) { "-".to_string() } else { hex(&rng.bytes(256)) };
                    sc.op(&format!(
                        "tok-gen {} {} {} {} {} {} {} {}",
                        rng.pick(&[0u64, 999_999, 1_000_000, 1_758_700_000_999_999]),
                        proto,
                        rng.pick(&[0u64, 1, 30, 1 << 40]),
                        rng.pick(&[0u64, 5, u64::MAX]),
                        rng.pick(&[-1i32, 0, 15]),
                        list,
                        ud,
                        key_hex
                    ));
                }
                // tokens: 1..32 (and 0) addresses, holes; seal/open and write/read round trips
                let n = rng.pick(&[0usize, 1, 1, 2, 3, 16, 31, 32]);
                let holes = rng.chance(1, 3);
                let addrs = gen_addr_list(rng, n, holes);
                let id = rng.pick(&[0u64, 1, u64::MAX, 0x0102030405060708]);
                let create = rng.pick(&[0u64, 0, 1, 100, 1_758_700_000, u64::MAX]);
                let expire = match rng.below(7) {
                    0 => create.saturating_sub(1), // expire < create
                    1 => create,
                    2 => u64::MAX,
                    3 => u64::MAX - 1,
                    4 => 0,
                    _ => create.saturating_add(30),
                };
                let timeout = rng.pick(&[-1i32, 0, 1, 15, i32::MAX, i32::MIN]);
                let xnonce = k24(rng);
                let (c2s, s2c) = (k32(rng), k32(rng));
                let udn = rng.pick(&[0usize, 1, 256]);
                let ud = rng.bytes(udn);
                sc.op("note rt");
                let out = sc.op(&format!(
                    "ptok-seal {} {} {} {} {} {} {} {} {} {}",
                    proto,
                    expire,
                    hex(&xnonce),
                    key_hex,
                    id,
                    timeout,
                    addrs,
                    hex(&c2s),
                    hex(&s2c),
                    hex(&ud)
                ));
                if let Some(p) = out.strip_prefix("ok ") {
                    let p = p.to_string();
                    sc.op(&format!("ptok-open {} {} {} {} {}", proto, expire, hex(&xnonce), key_hex, p));
                    match rng.below(6) {
                        0 => {
                            sc.op("note mutated");
                            sc.op(&format!("ptok-open {} {} {} {} {}", proto, expire, hex(&xnonce), hex(&k32(rng)), p));
                        }
                        1 => {
                            sc.op("note mutated");
                            sc.op(&format!("ptok-open {} {} {} {} {}", proto ^ (1u64 << rng.below(64)), expire, hex(&xnonce), key_hex, p));
                        }
                        2 => {
                            sc.op("note mutated");
                            sc.op(&format!("ptok-open {} {} {} {} {}", proto, expire ^ (1u64 << rng.below(64)), hex(&xnonce), key_hex, p));
                        }
                        3 => {
                            sc.op("note mutated");
                            sc.op(&format!("ptok-open {} {} {} {} {}", proto, expire, hex(&k24(rng)), key_hex, p));
                        }
                        4 => {
                            let b = unhex(&p).unwrap_or_default();
                            let m = flip_bit(&b, rng.below(1024 * 8) as usize);
                            sc.op("note mutated");
                            sc.op(&format!("ptok-open {} {} {} {} {}", proto, expire, hex(&xnonce), key_hex, hex(&m)));
                        }
                        _ => {}
                    }
                    sc.op("note rt");
                    let out = sc.op(&format!(
                        "tok-write {} {} {} {} {} {} {} {} {} {} {}",
                        id,
                        VERSION_HEX,
                        proto,
                        create,
                        expire,
                        hex(&xnonce),
                        p,
                        timeout,
                        addrs,
                        hex(&c2s),
                        hex(&s2c)
                    ));
                    if let Some(t) = out.strip_prefix("ok ") {
                        let t = t.to_string();
                        sc.op(&format!("tok-read {}", t));
                        // a client built from it must survive any update
                        let now = rng.pick(&[0u64, 999_999, 1_000_000, 7_000_000, 1_758_700_000_000_000]);
                        sc.op(&format!("cli-new 9 {} {}", now, t));
                        sc.op(&format!("cli-upd 9 {}", rng.pick(&[0u64, 250_000, 1_000_000, 40_000_000])));
                        sc.op(&format!("cli-upd 9 {}", rng.pick(&[0u64, 250_000, 1_000_000, 40_000_000, 1 << 50])));
                        if rng.chance(1, 2) {
                            sc.op(&format!("cli-rx 9 {}", hex(&junk(rng))));
                            sc.op(&format!("cli-pay 9 {}", hex(&rng.bytes(3))));
                            if rng.chance(1, 2) {
                                sc.op("cli-disc 9");
                            }
                            sc.op(&format!("cli-upd 9 {}", rng.pick(&[0u64, 250_000, 3_000_000])));
                        }
                        sc.op("cli-dump 9");
                        // truncations of the serialised token
                        let b = unhex(&t).unwrap_or_default();
                        let cut = rng.pick(&[0usize, 7, 8, 20, 21, 1096, 1097, 1100, 1101, b.len().saturating_sub(1), b.len().saturating_sub(64)]);
                        sc.op(&format!("tok-read {}", hex(&b[..cut.min(b.len())])));
                    }
                }
            }
            9 | 10 => {
                // hand-made address arrays in the public token: counts 0..40 and beyond, NONE / unknown type bytes
                let n = rng.pick(&[0usize, 1, 2, 3, 31, 32, 33, 40]);
                let bad = if rng.chance(2, 3) && n > 0 {
                    Some((rng.pick(&[0usize, 0, 1, n - 1]), rng.pick(&[0u8, 0, 3, 255])))
                } else {
                    None
                };
                let entries = gen_raw_entries(rng, n, bad);
                let count = match rng.below(5) {
                    0 => n as u32 + 1,
                    1 => u32::MAX,
                    2 => n.saturating_sub(1) as u32,
                    _ => n as u32,
                };
                let mut t: Vec<u8> = vec![];
                t.extend_from_slice(&rng.next_u64().to_le_bytes());
                if rng.chance(1, 10) {
                    t.extend(rng.bytes(13));
                } else {
                    t.extend_from_slice(b"NETCODE 1.02\0");
                }
                t.extend_from_slice(&proto.to_le_bytes());
                let create = rng.pick(&[0u64, 100]);
                t.extend_from_slice(&create.to_le_bytes());
                t.extend_from_slice(&rng.pick(&[0u64, 99, 100, 130]).to_le_bytes());
                t.extend(rng.bytes(24));
                t.extend(rng.bytes(1024));
                t.extend_from_slice(&rng.pick(&[-1i32, 0, 5]).to_le_bytes());
                t.extend(raw_addrs(count, &entries));
                t.extend(rng.bytes(64));
                if rng.chance(1, 6) {
                    t.extend(rng.bytes(10)); // trailing bytes are ignored
                }
                let out = sc.op(&format!("tok-read {}", hex(&t)));
                if let Some(fields) = out.strip_prefix("ok ") {
                    // whatever decodes re-encodes to bytes that decode to the same value
                    sc.op("note rt2");
                    let w = sc.op(&format!("tok-write {}", fields));
                    if let Some(h) = w.strip_prefix("ok ") {
                        sc.op(&format!("tok-read {}", h));
                    }
                }
                sc.op(&format!("cli-new 9 0 {}", hex(&t)));
                sc.op(&format!("cli-upd 9 {}", rng.pick(&[0u64, 1_000_000, 6_000_000])));
                sc.op(&format!("cli-upd 9 {}", rng.pick(&[0u64, 1_000_000, 6_000_000])));
                sc.op("cli-dump 9");
            }
            _ => {
                // hand-made private token bodies (sealed with the right key): NONE / unknown types, zero addresses
                let n = rng.pick(&[0usize, 1, 2, 32, 33]);
                let bad = if rng.chance(2, 3) && n > 0 {
                    Some((rng.pick(&[0usize, 1.min(n - 1), n - 1]), rng.pick(&[0u8, 3, 200])))
                } else {
                    None
                };
                let entries = gen_raw_entries(rng, n, bad);
                let count = if rng.chance(1, 4) { rng.pick(&[0u32, 33, u32::MAX]) } else { n as u32 };
                let mut plain: Vec<u8> = vec![];
                plain.extend_from_slice(&rng.next_u64().to_le_bytes());
                plain.extend_from_slice(&rng.pick(&[-1i32, 5]).to_le_bytes());
                plain.extend(raw_addrs(count, &entries));
                plain.extend(rng.bytes(32 + 32 + 256));
                let xnonce = k24(rng);
                let expire = rng.pick(&[0u64, 1_758_700_030]);
                let sealed = forge_private(&plain, proto, expire, &xnonce, &key);
                let out = sc.op(&format!("ptok-open {} {} {} {} {}", proto, expire, hex(&xnonce), key_hex, hex(&sealed)));
                if let Some(fields) = out.strip_prefix("ok ") {
                    // ok <id> <timeout> <addrs> <c2s> <s2c> <ud>  ->  ptok-seal … <id> <timeout> <addrs> <c2s> <s2c> <ud>
                    sc.op("note rt2");
                    let w = sc.op(&format!("ptok-seal {} {} {} {} {}", proto, expire, hex(&xnonce), key_hex, fields));
                    if let Some(h) = w.strip_prefix("ok ") {
                        sc.op(&format!("ptok-open {} {} {} {} {}", proto, expire, hex(&xnonce), key_hex, h));
                    }
                }
            }
        }
    }
}


// =============================================================================================
// profile 0: nc-regress — one fixed op list per repaired defect (deterministic, run on every check)
// =============================================================================================

const REGRESS_CASES: usize = 70;

fn regress_script(case: usize, f: &mut dyn FnMut(&str) -> String) {
    let mut rng = Rng::new(0xD1CE + case as u64);
    let rng = &mut rng;
    let mut sc = Sc::new(f);
    let key = k32(rng);
    let ckey = k32(rng);
    let proto = 7u64;
    let hosts = if case == 30 {
        format!("{},{}", WILD_4, WILD_6)
    } else if case == 31 {
        MAPPED_A.to_string()
    } else {
        SRV_A.to_string()
    };
    let max = match case {
        7 | 19 | 22 | 37 => 1,
        35 | 50 | 65 | 66 | 67 | 69 => 4,
        13 => 3,
        _ => 2,
    };
    sc.op(&format!("srv-new 0 5000000 {} {} 1 {} {} {}", max, proto, hex(&key), hex(&ckey), hosts));
    let addr = [a4(10, 9, 0, 1, 4901), a4(10, 9, 0, 2, 4902)];
    let mut cls: Vec<Cl> = vec![];
    for i in 0..2u64 {
        let mut spec = base_spec(rng, 40 + i, proto, key, 5, &hosts);
        spec.expire = 35;
        spec.seal_expire = 35;
        spec.timeout = 5;
        spec.ud = vec![0xa0 + i as u8; 256];
        if let Some(c) = new_client(&mut sc, i, &addr[i as usize], &spec, 5_000_000) {
            cls.push(c);
        }
    }
    sc.op("note setup-done");
    if cls.len() < 2 {
        return;
    }
    match case {
        // D4 / D5 / D6: malformed datagrams from a connected address
        0 | 1 | 2 => {
            fast_connect(&mut sc, &cls[0]);
            let d: Vec<u8> = match case {
                0 => {
                    let mut v = vec![0x95u8];
                    v.extend(vec![0x11u8; 39]);
                    v
                }
                1 => {
                    let mut v = vec![0x85u8];
                    v.extend(vec![0x22u8; 17]);
                    v
                }
                _ => {
                    let mut v = vec![0x85u8];
                    v.extend([0xffu8; 8]);
                    v.extend(vec![0x33u8; 24]);
                    v
                }
            };
            hostile_srv(&mut sc, "hostile", &cls[0].addr.clone(), &d);
            hostile_cli(&mut sc, "hostile", 0, &d);
            // the same towards a pending and an unknown address, and a client still requesting
            hostile_srv(&mut sc, "hostile", &a4(10, 9, 0, 9, 4909), &d);
            hostile_cli(&mut sc, "hostile", 1, &d);
        }
        // D7: a connect token without server address
        3 => {
            let spec = &cls[0].tok.spec;
            let out = sc.op(&format!(
                "tok-write {} {} {} {} {} {} {} {} - {} {}",
                spec.id,
                VERSION_HEX,
                proto,
                spec.create,
                spec.expire,
                hex(&spec.xnonce),
                hex(&cls[0].tok.private),
                spec.timeout,
                hex(&spec.c2s),
                hex(&spec.s2c)
            ));
            if let Some(t) = out.strip_prefix("ok ") {
                let t = t.to_string();
                sc.op(&format!("tok-read {}", t));
                sc.op(&format!("cli-new 5 0 {}", t));
                sc.op("cli-upd 5 1000000");
            }
        }
        // D8: expire < create
        4 => {
            let mut spec = cls[0].tok.spec.clone();
            spec.create = 100;
            spec.expire = 99;
            spec.seal_expire = 99;
            if let Some(c) = new_client(&mut sc, 5, &addr[0], &spec, 0) {
                sc.op(&format!("cli-dump {}", c.h));
                sc.op(&format!("cli-upd {} 0", c.h));
                sc.op(&format!("cli-dump {}", c.h));
                sc.op(&format!("cli-upd {} 1000000", c.h));
                sc.op(&format!("cli-dump {}", c.h));
            }
        }
        // D9: the first challenge and the first keep-alive travel under one key with different nonces
        5 => {
            fast_connect(&mut sc, &cls[0]);
            sc.op(&format!("srv-pay 0 {} 00", cls[0].tok.spec.id));
            sc.op("srv-upd 0 250000");
            sc.op(&format!("srv-updc 0 {}", cls[0].tok.spec.id));
        }
        // D10: a response carrying the challenge of another (owned) session
        6 => {
            let mut chal: Vec<Vec<u8>> = vec![];
            for c in cls.iter() {
                if let (_, Some(k)) = sc.opd(&format!("cli-upd {} 0", c.h)) {
                    let req = sc.hist[k].bytes.clone();
                    if let (_, Some(k)) = sc.opd(&format!("srv-rx 0 {} {}", c.addr, hex(&req))) {
                        chal.push(sc.hist[k].bytes.clone());
                    }
                }
            }
            if chal.len() == 2 {
                if let Some(body1) = challenge_body(&chal[1], proto, &cls[1].tok.spec.s2c) {
                    let forged = forge(3, 1, proto, &cls[0].tok.spec.c2s, &body1);
                    sc.op("srv-dump 0");
                    sc.op(&format!("srv-rx 0 {} {}", cls[0].addr, hex(&forged)));
                    sc.op("srv-dump 0");
                }
                // the genuine responses still connect both
                for (i, c) in cls.iter().enumerate() {
                    sc.op(&format!("cli-rx {} {}", c.h, hex(&chal[i])));
                    if let (_, Some(k)) = sc.opd(&format!("cli-upd {} 0", c.h)) {
                        let resp = sc.hist[k].bytes.clone();
                        sc.op("note expect-connected");
                        sc.op(&format!("srv-rx 0 {} {}", c.addr, hex(&resp)));
                    }
                }
                sc.op("srv-dump 0");
            }
        }
        // D11: set_max_clients above the construction value makes room
        7 => {
            fast_connect(&mut sc, &cls[0]);
            sc.op("srv-setmax 0 2");
            sc.op("srv-dump 0");
            if let (_, Some(k)) = sc.opd("cli-upd 1 0") {
                let req = sc.hist[k].bytes.clone();
                if let (_, Some(k)) = sc.opd(&format!("srv-rx 0 {} {}", cls[1].addr, hex(&req))) {
                    let chal = sc.hist[k].bytes.clone();
                    sc.op(&format!("cli-rx 1 {}", hex(&chal)));
                    if let (_, Some(k)) = sc.opd("cli-upd 1 0") {
                        let resp = sc.hist[k].bytes.clone();
                        sc.op("note expect-connected");
                        sc.op(&format!("srv-rx 0 {} {}", cls[1].addr, hex(&resp)));
                    }
                }
            }
            sc.op("srv-dump 0");
        }
        // D12: unauthenticated / replayable packets from a connected address do not refresh its timeout
        8 => {
            fast_connect(&mut sc, &cls[0]);
            sc.op("srv-upd 0 3000000");
            hostile_srv(&mut sc, "hostile", &cls[0].addr.clone(), &vec![0u8; 1078]);
            // replay of the connection request and of the response
            let req = sc.hist[0].bytes.clone();
            let resp = sc.hist[2].bytes.clone();
            hostile_srv(&mut sc, "hostile", &cls[0].addr.clone(), &req);
            hostile_srv(&mut sc, "hostile", &cls[0].addr.clone(), &resp);
            sc.op("srv-upd 0 2000001");
            sc.op("srv-dump 0");
            sc.op(&format!("srv-updc 0 {}", cls[0].tok.spec.id));
        }
        // a pending entry left by another token on the same address must not block a later handshake
        10 => {
            let a = cls[0].addr.clone();
            if let (_, Some(k)) = sc.opd("cli-upd 0 0") {
                let req = sc.hist[k].bytes.clone();
                sc.op(&format!("srv-rx 0 {} {}", a, hex(&req))); // challenge for token 1, never answered
            }
            sc.op("srv-dump 0");
            if let (_, Some(k)) = sc.opd("cli-upd 1 0") {
                let req = sc.hist[k].bytes.clone();
                if let (_, Some(k)) = sc.opd(&format!("srv-rx 0 {} {}", a, hex(&req))) {
                    let chal = sc.hist[k].bytes.clone();
                    sc.op("srv-dump 0");
                    sc.op(&format!("cli-rx 1 {}", hex(&chal)));
                    if let (_, Some(k)) = sc.opd("cli-upd 1 0") {
                        let resp = sc.hist[k].bytes.clone();
                        sc.op("note expect-connected:handshake-blocked-by-stale-pending");
                        if let (_, Some(k)) = sc.opd(&format!("srv-rx 0 {} {}", a, hex(&resp))) {
                            let ka = sc.hist[k].bytes.clone();
                            sc.op(&format!("cli-rx 1 {}", hex(&ka)));
                        }
                    }
                }
            }
            sc.op("cli-dump 1");
            sc.op("srv-dump 0");
        }
        // fail-over: the first address is silent, the first request to the second one is lost; the client must
        // stay on the second address for its whole timeout and connect once the network delivers
        11 => {
            let mut spec = base_spec(rng, 45, proto, key, 5, &format!("{},{}", BOGUS_A, SRV_A));
            spec.expire = 65;
            spec.seal_expire = 65;
            spec.timeout = 1;
            let a = a4(10, 9, 0, 5, 4905);
            if let Some(c) = new_client(&mut sc, 5, &a, &spec, 5_000_000) {
                sc.op("cli-upd 5 0"); // request towards the silent address
                sc.op("cli-q 5");
                for _ in 0..3 {
                    sc.op("cli-upd 5 400000"); // the third one fails over; its request to the real server is lost
                    sc.op("cli-q 5");
                }
                for _ in 0..2 {
                    sc.op("cli-upd 5 100000");
                    sc.op("cli-q 5");
                }
                sc.op("srv-upd 0 1500000");
                // a send period after the lost request the next one goes out and arrives
                if let (_, Some(k)) = sc.opd("cli-upd 5 100000") {
                    let req = sc.hist[k].bytes.clone();
                    if let (_, Some(k)) = sc.opd(&format!("srv-rx 0 {} {}", c.addr, hex(&req))) {
                        let chal = sc.hist[k].bytes.clone();
                        sc.op(&format!("cli-rx 5 {}", hex(&chal)));
                        if let (_, Some(k)) = sc.opd("cli-upd 5 0") {
                            let resp = sc.hist[k].bytes.clone();
                            if let (_, Some(k)) = sc.opd(&format!("srv-rx 0 {} {}", c.addr, hex(&resp))) {
                                let ka = sc.hist[k].bytes.clone();
                                sc.op(&format!("cli-rx 5 {}", hex(&ka)));
                            }
                        }
                    }
                }
                sc.op("cli-upd 5 100000");
                sc.op("note expect-up:failover-not-connected");
                sc.op("cli-q 5");
                sc.op("note expect-up:failover-not-connected");
                sc.op("srv-q 0 45");
            }
        }
        // a full server stays silent towards a captured request replayed from another address
        12 => {
            fast_connect(&mut sc, &cls[0]);
            fast_connect(&mut sc, &cls[1]);
            sc.op("srv-dump 0");
            let mut spec = base_spec(rng, 46, proto, key, 5, &hosts);
            spec.expire = 35;
            spec.seal_expire = 35;
            let a = a4(10, 9, 0, 6, 4906);
            let x = a4(10, 9, 0, 66, 4966);
            if let Some(c) = new_client(&mut sc, 5, &a, &spec, 5_000_000) {
                if let (_, Some(k)) = sc.opd("cli-upd 5 0") {
                    let req = sc.hist[k].bytes.clone();
                    sc.op(&format!("srv-rx 0 {} {}", c.addr, hex(&req))); // owner: denied (server full)
                    sc.op(&format!("srv-rx 0 {} {}", x, hex(&req))); // thief: nothing
                    let bogus = forge(3, 9, proto, &spec.c2s, &[0x5a; 308]);
                    sc.op(&format!("srv-rx 0 {} {}", c.addr, hex(&bogus)));
                    sc.op("srv-dump 0");
                    sc.op(&format!("srv-disc 0 {}", cls[0].tok.spec.id));
                    sc.op(&format!("srv-rx 0 {} {}", x, hex(&req))); // still bound to its owner's address
                    sc.op(&format!("srv-rx 0 {} {}", c.addr, hex(&req)));
                    sc.op("srv-dump 0");
                }
            }
        }
        // three clients; the lowest slot is vacated, then a client in a higher slot sends its Disconnect datagram:
        // exactly that client's slot is freed
        13 => {
            let mut spec = base_spec(rng, 47, proto, key, 5, &hosts);
            spec.expire = 35;
            spec.seal_expire = 35;
            spec.timeout = 5;
            let a2 = a4(10, 9, 0, 7, 4907);
            let third = new_client(&mut sc, 2, &a2, &spec, 5_000_000);
            fast_connect(&mut sc, &cls[0]);
            fast_connect(&mut sc, &cls[1]);
            if let Some(c2) = third {
                fast_connect(&mut sc, &c2);
                sc.op("srv-dump 0");
                // the first leaves
                if let (_, Some(k)) = sc.opd("cli-disc 0") {
                    let d = sc.hist[k].bytes.clone();
                    sc.op(&format!("srv-rx 0 {} {}", cls[0].addr, hex(&d)));
                }
                sc.op("srv-dump 0");
                // the third leaves: the second must stay
                if let (_, Some(k)) = sc.opd("cli-disc 2") {
                    let d = sc.hist[k].bytes.clone();
                    sc.op(&format!("srv-rx 0 {} {}", c2.addr, hex(&d)));
                }
                sc.op("srv-dump 0");
                for id in [40u64, 41, 47] {
                    sc.op(&format!("srv-q 0 {}", id));
                }
                if let (_, Some(k)) = sc.opd("srv-pay 0 41 6869") {
                    let d = sc.hist[k].bytes.clone();
                    sc.op("note expect-payload");
                    sc.op(&format!("cli-rx 1 {}", hex(&d)));
                }
                if let (_, Some(k)) = sc.opd("cli-pay 1 686f") {
                    let d = sc.hist[k].bytes.clone();
                    sc.op("note expect-payload");
                    sc.op(&format!("srv-rx 0 {} {}", cls[1].addr, hex(&d)));
                }
                sc.op("srv-upd 0 250000");
                sc.op("srv-updc 0 41");
                sc.op("srv-updc 0 47");
                sc.op("srv-dump 0");
            }
        }
        // a keep-alive at sequence k, a payload at k + 256, the keep-alive again, the payload again: the payload is
        // surfaced once (both directions)
        14 => {
            fast_connect(&mut sc, &cls[0]);
            let c = &cls[0];
            let id = c.tok.spec.id;
            let mut ka_c: Vec<u8> = vec![];
            if let (_, Some(k)) = sc.opd("cli-upd 0 250000") {
                ka_c = sc.hist[k].bytes.clone();
                sc.op(&format!("srv-rx 0 {} {}", c.addr, hex(&ka_c)));
            }
            let mut p_c: Vec<u8> = vec![];
            for j in 1..=256u32 {
                if let (_, Some(k)) = sc.opd(&format!("cli-pay 0 {:02x}", j % 256)) {
                    p_c = sc.hist[k].bytes.clone();
                }
            }
            sc.op("note expect-payload");
            sc.op(&format!("srv-rx 0 {} {}", c.addr, hex(&p_c)));
            hostile_srv(&mut sc, "hostile", &c.addr.clone(), &ka_c);
            hostile_srv(&mut sc, "hostile", &c.addr.clone(), &p_c);
            // server -> client
            sc.op("srv-upd 0 250000");
            let mut ka_s: Vec<u8> = vec![];
            if let (_, Some(k)) = sc.opd(&format!("srv-updc 0 {}", id)) {
                ka_s = sc.hist[k].bytes.clone();
                sc.op(&format!("cli-rx 0 {}", hex(&ka_s)));
            }
            let mut p_s: Vec<u8> = vec![];
            for j in 1..=256u32 {
                if let (_, Some(k)) = sc.opd(&format!("srv-pay 0 {} {:02x}", id, j % 256)) {
                    p_s = sc.hist[k].bytes.clone();
                }
            }
            sc.op("note expect-payload");
            sc.op(&format!("cli-rx 0 {}", hex(&p_s)));
            hostile_cli(&mut sc, "hostile", 0, &ka_s);
            hostile_cli(&mut sc, "hostile", 0, &p_s);
        }
        // a token with extreme time stamps in a client created at a non-zero time: updates never unwind
        15 => {
            for (h, (create, expire, now_us)) in [(0u64, u64::MAX, 1_000_000u64), (1, u64::MAX, 1_758_700_000_000_000), (5, u64::MAX - 1, 7_000_000), (u64::MAX, 0, 1_000_000)].iter().enumerate() {
                let mut spec = base_spec(rng, 60 + h as u64, proto, key, 5, &hosts);
                spec.create = *create;
                spec.expire = *expire;
                spec.seal_expire = *expire;
                spec.timeout = [i32::MAX, -1, 0, i32::MIN][h];
                if let Some(c) = new_client(&mut sc, 10 + h as u64, &a4(10, 9, 1, h as u8, 4950), &spec, *now_us) {
                    for dt in [0u64, 250_000, 1_000_000, 40_000_000, 1 << 50] {
                        sc.op(&format!("cli-upd {} {}", c.h, dt));
                    }
                    sc.op(&format!("cli-rx {} {}", c.h, hex(&vec![0x25u8; 40])));
                    sc.op(&format!("cli-pay {} 00", c.h));
                    sc.op(&format!("cli-disc {}", c.h));
                    sc.op(&format!("cli-upd {} 250000", c.h));
                    sc.op(&format!("cli-dump {}", c.h));
                }
            }
        }
        // a full token of 32 addresses, only the last one alive: every address gets its turn, the last one connects
        16 => {
            let list: Vec<String> = (0..32).map(|j| if j == 31 { SRV_A.to_string() } else { a4(10, 55, 0, j as u8, 5600 + j as u16) }).collect();
            let mut spec = base_spec(rng, 48, proto, key, 5, &list.join(","));
            spec.expire = 305;
            spec.seal_expire = 305;
            spec.timeout = 1;
            let a = a4(10, 9, 0, 8, 4908);
            if let Some(c) = new_client(&mut sc, 5, &a, &spec, 5_000_000) {
                sc.op("cli-upd 5 0");
                let mut req: Option<Vec<u8>> = None;
                for _ in 0..31 {
                    let (_, e) = sc.opd("cli-upd 5 1050000");
                    sc.op("cli-q 5");
                    if let Some(k) = e {
                        if sc.hist[k].to == SRV_A {
                            req = Some(sc.hist[k].bytes.clone());
                        }
                    }
                }
                sc.op("srv-upd 0 32550000");
                if let Some(req) = req {
                    if let (_, Some(k)) = sc.opd(&format!("srv-rx 0 {} {}", c.addr, hex(&req))) {
                        let chal = sc.hist[k].bytes.clone();
                        sc.op(&format!("cli-rx 5 {}", hex(&chal)));
                        if let (_, Some(k)) = sc.opd("cli-upd 5 0") {
                            let resp = sc.hist[k].bytes.clone();
                            if let (_, Some(k)) = sc.opd(&format!("srv-rx 0 {} {}", c.addr, hex(&resp))) {
                                let ka = sc.hist[k].bytes.clone();
                                sc.op(&format!("cli-rx 5 {}", hex(&ka)));
                            }
                        }
                    }
                }
                sc.op("cli-upd 5 100000");
                sc.op("note expect-up:failover-not-connected");
                sc.op("cli-q 5");
                sc.op("note expect-up:failover-not-connected");
                sc.op("srv-q 0 48");
            }
        }
        // a half-open handshake for client id X at address B; X connects from A with another token; B's retried
        // request (and its response) get no answer
        17 => {
            let mut spec = base_spec(rng, 40, proto, key, 5, &hosts); // same client id as cls[0]
            spec.expire = 35;
            spec.seal_expire = 35;
            let b = a4(10, 9, 0, 9, 4909);
            if let Some(cb) = new_client(&mut sc, 5, &b, &spec, 5_000_000) {
                let mut chal_b: Option<Vec<u8>> = None;
                let mut req_b: Vec<u8> = vec![];
                if let (_, Some(k)) = sc.opd("cli-upd 5 0") {
                    req_b = sc.hist[k].bytes.clone();
                    if let (_, Some(k)) = sc.opd(&format!("srv-rx 0 {} {}", cb.addr, hex(&req_b))) {
                        chal_b = Some(sc.hist[k].bytes.clone());
                    }
                }
                sc.op("srv-dump 0");
                fast_connect(&mut sc, &cls[0]);
                sc.op("srv-dump 0");
                // B retries
                sc.op(&format!("srv-rx 0 {} {}", cb.addr, hex(&req_b)));
                sc.op("srv-dump 0");
                if let Some(ch) = chal_b {
                    sc.op(&format!("cli-rx 5 {}", hex(&ch)));
                    if let (_, Some(k)) = sc.opd("cli-upd 5 0") {
                        let resp = sc.hist[k].bytes.clone();
                        sc.op(&format!("srv-rx 0 {} {}", cb.addr, hex(&resp)));
                    }
                }
                sc.op(&format!("srv-rx 0 {} {}", cb.addr, hex(&req_b)));
                // the same with a full server
                fast_connect(&mut sc, &cls[1]);
                sc.op(&format!("srv-rx 0 {} {}", cb.addr, hex(&req_b)));
                sc.op("srv-dump 0");
            }
        }
        // the limit raised by one at run time (2 -> 3, never lowered) with every seat taken; two newcomers are
        // challenged while one seat is free, then both answer: one is seated, the other one refused
        18 => {
            fast_connect(&mut sc, &cls[0]);
            fast_connect(&mut sc, &cls[1]);
            sc.op("srv-dump 0");
            sc.op("srv-setmax 0 3");
            sc.op("srv-dump 0");
            let mut racers: Vec<(Cl, Vec<u8>)> = vec![];
            for j in 0..2u64 {
                let mut spec = base_spec(rng, 50 + j, proto, key, 5, &hosts);
                spec.expire = 35;
                spec.seal_expire = 35;
                spec.timeout = 5;
                let a = a4(10, 9, 0, 20 + j as u8, 4920 + j as u16);
                if let Some(c) = new_client(&mut sc, 5 + j, &a, &spec, 5_000_000) {
                    if let (_, Some(k)) = sc.opd(&format!("cli-upd {} 0", c.h)) {
                        let req = sc.hist[k].bytes.clone();
                        if let (_, Some(k)) = sc.opd(&format!("srv-rx 0 {} {}", c.addr, hex(&req))) {
                            let chal = sc.hist[k].bytes.clone();
                            racers.push((c, chal));
                        }
                    }
                }
            }
            sc.op("srv-dump 0");
            for (c, chal) in racers.iter() {
                answer_challenge(&mut sc, c.h, &c.addr, chal, None);
                sc.op("srv-dump 0");
                sc.op(&format!("srv-q 0 {}", c.tok.spec.id));
                sc.op(&format!("cli-dump {}", c.h));
            }
            for id in [40u64, 41] {
                sc.op(&format!("srv-q 0 {}", id));
            }
        }
        // a full server (one seat, taken) and two half-open handshakes that were challenged before it filled up;
        // forged connection requests (clear-text header in order, private token not authentic) from their
        // addresses change nothing: the first victim answers while the server is full and is told so, the second
        // one after the seat has become free and connects
        19 => {
            let mut spec = base_spec(rng, 52, proto, key, 5, &hosts);
            spec.expire = 35;
            spec.seal_expire = 35;
            spec.timeout = 5;
            let a2 = a4(10, 9, 0, 30, 4930);
            if let Some(c2) = new_client(&mut sc, 5, &a2, &spec, 5_000_000) {
                let mut half: Vec<(u64, String, Vec<u8>, Vec<u8>)> = vec![];
                for (h, a) in [(1u64, cls[1].addr.clone()), (c2.h, c2.addr.clone())] {
                    if let (_, Some(k)) = sc.opd(&format!("cli-upd {} 0", h)) {
                        let req = sc.hist[k].bytes.clone();
                        if let (_, Some(k)) = sc.opd(&format!("srv-rx 0 {} {}", a, hex(&req))) {
                            let chal = sc.hist[k].bytes.clone();
                            half.push((h, a, req, chal));
                        }
                    }
                }
                fast_connect(&mut sc, &cls[0]);
                sc.op("srv-dump 0");
                if half.len() == 2 {
                    // one bit of the sealed private part flipped; the public header over a foreign private part;
                    // the last bit of the token's MAC flipped
                    let f1 = flip_bit(&half[0].2, (54 + 100) * 8);
                    hostile_srv(&mut sc, "hostile", &half[0].1.clone(), &f1);
                    let mut f2 = half[1].2[..54].to_vec();
                    f2.extend(vec![0x5au8; 1024]);
                    hostile_srv(&mut sc, "hostile", &half[1].1.clone(), &f2);
                    let f3 = flip_bit(&half[1].2, 1078 * 8 - 1);
                    hostile_srv(&mut sc, "hostile", &half[1].1.clone(), &f3);
                    // the same from a connected and from an unknown address
                    hostile_srv(&mut sc, "hostile", &cls[0].addr.clone(), &f1);
                    hostile_srv(&mut sc, "hostile", &a4(10, 9, 0, 66, 4966), &f1);
                    // still full: the first victim is refused
                    answer_challenge(&mut sc, half[0].0, &half[0].1.clone(), &half[0].3.clone(), None);
                    sc.op("srv-dump 0");
                    sc.op(&format!("cli-dump {}", half[0].0));
                    // the seat becomes free: the second victim connects
                    sc.op(&format!("srv-disc 0 {}", cls[0].tok.spec.id));
                    sc.op("srv-dump 0");
                    answer_challenge(&mut sc, half[1].0, &half[1].1.clone(), &half[1].3.clone(), None);
                    sc.op("srv-dump 0");
                    sc.op(&format!("cli-dump {}", half[1].0));
                    sc.op("srv-q 0 52");
                    if let (_, Some(k)) = sc.opd(&format!("cli-pay {} 6869", half[1].0)) {
                        let d = sc.hist[k].bytes.clone();
                        sc.op(&format!("srv-rx 0 {} {}", half[1].1, hex(&d)));
                    }
                }
            }
        }
        // fail-over in the RESPONSE phase: the first address of the token answers the request with a challenge and
        // then stays silent, the client answers it (sealed, sequences 1..) until its timeout, moves on to the second
        // address, completes the handshake there and runs a short session — all under one client-to-server key
        20 => {
            let first = a4(10, 9, 9, 1, 5901);
            let mut spec = base_spec(rng, 49, proto, key, 5, &format!("{},{}", first, SRV_A));
            spec.expire = 65;
            spec.seal_expire = 65;
            spec.timeout = 1;
            let a = a4(10, 9, 0, 40, 4940);
            if let Some(c) = new_client(&mut sc, 5, &a, &spec, 5_000_000) {
                // (the silent first "server" is played by server 0: it only has to produce one challenge)
                if let (_, Some(k)) = sc.opd("cli-upd 5 0") {
                    let req = sc.hist[k].bytes.clone();
                    if let (_, Some(k)) = sc.opd(&format!("srv-rx 0 {} {}", c.addr, hex(&req))) {
                        let chal = sc.hist[k].bytes.clone();
                        sc.op(&format!("cli-rx 5 {}", hex(&chal)));
                    }
                }
                sc.op("cli-upd 5 0"); // responses towards the first address: lost
                sc.op("cli-dump 5");
                for _ in 0..3 {
                    sc.op("cli-upd 5 300000");
                }
                sc.op("cli-q 5");
                sc.op("srv-upd 0 1200000");
                // 1.2 s after the challenge: time-out, next address, request at once
                if let (_, Some(k)) = sc.opd("cli-upd 5 300000") {
                    let req = sc.hist[k].bytes.clone();
                    sc.op("cli-q 5");
                    if sc.hist[k].to == SRV_A {
                        if let (_, Some(k)) = sc.opd(&format!("srv-rx 0 {} {}", c.addr, hex(&req))) {
                            let chal = sc.hist[k].bytes.clone();
                            answer_challenge(&mut sc, 5, &c.addr, &chal, None);
                        }
                    }
                }
                sc.op("cli-dump 5");
                // a short session
                for j in 0..6u8 {
                    if let (_, Some(k)) = sc.opd(&format!("cli-pay 5 {:02x}{:02x}", 0x70 + j, j)) {
                        let d = sc.hist[k].bytes.clone();
                        sc.op("note expect-payload");
                        sc.op(&format!("srv-rx 0 {} {}", c.addr, hex(&d)));
                    }
                    if j % 2 == 1 {
                        sc.op("srv-upd 0 250000");
                        if let (_, Some(k)) = sc.opd("cli-upd 5 250000") {
                            let d = sc.hist[k].bytes.clone();
                            sc.op(&format!("srv-rx 0 {} {}", c.addr, hex(&d)));
                        }
                        if let (_, Some(k)) = sc.opd("srv-updc 0 49") {
                            let d = sc.hist[k].bytes.clone();
                            sc.op(&format!("cli-rx 5 {}", hex(&d)));
                        }
                    }
                }
                sc.op("note expect-up:failover-not-connected");
                sc.op("cli-q 5");
                sc.op("note expect-up:failover-not-connected");
                sc.op("srv-q 0 49");
                if let (_, Some(k)) = sc.opd("cli-disc 5") {
                    let d = sc.hist[k].bytes.clone();
                    sc.op(&format!("srv-rx 0 {} {}", c.addr, hex(&d)));
                }
                sc.op("srv-dump 0");
            }
        }
        // a session whose client falls silent; its recorded handshake RESPONSE (outside the replay window), request,
        // keep-alive and payload are replayed from its address every 2 s: the 5 s timeout is reported all the same
        21 => {
            fast_connect(&mut sc, &cls[0]);
            let req = sc.hist[0].bytes.clone();
            let resp = sc.hist[2].bytes.clone();
            let mut rec: Vec<Vec<u8>> = vec![resp.clone(), req];
            sc.op("srv-upd 0 250000");
            if let (_, Some(k)) = sc.opd("cli-upd 0 250000") {
                let d = sc.hist[k].bytes.clone();
                sc.op(&format!("srv-rx 0 {} {}", cls[0].addr, hex(&d)));
                rec.push(d);
            }
            if let (_, Some(k)) = sc.opd("cli-pay 0 6c617374") {
                let d = sc.hist[k].bytes.clone();
                sc.op("note expect-payload");
                sc.op(&format!("srv-rx 0 {} {}", cls[0].addr, hex(&d)));
                rec.push(d);
            }
            // the last genuine datagram arrived at 5.25 s; silence from here on
            for round in 0..4 {
                sc.op("srv-upd 0 2000000");
                hostile_srv(&mut sc, "hostile", &cls[0].addr.clone(), &resp);
                let other = rec[(round + 1) % rec.len()].clone();
                hostile_srv(&mut sc, "hostile", &cls[0].addr.clone(), &other);
                sc.op("srv-dump 0");
                let out = sc.op(&format!("srv-updc 0 {}", cls[0].tok.spec.id));
                sc.op(&format!("srv-q 0 {}", cls[0].tok.spec.id));
                if out.starts_with("disconnected") {
                    break;
                }
            }
        }
        // a full server (one seat) denies the newcomer twice, the denials are withheld; the seat becomes free, the third
        // request succeeds; the withheld denials reach the CONNECTED client: the session stays up on both sides
        22 => {
            fast_connect(&mut sc, &cls[0]);
            let mut withheld: Vec<Vec<u8>> = vec![];
            for j in 0..2 {
                if let (_, Some(k)) = sc.opd(&format!("cli-upd 1 {}", if j == 0 { 0 } else { 250000 })) {
                    let req = sc.hist[k].bytes.clone();
                    if let (_, Some(k)) = sc.opd(&format!("srv-rx 0 {} {}", cls[1].addr, hex(&req))) {
                        withheld.push(sc.hist[k].bytes.clone());
                    }
                }
            }
            if let (_, Some(k)) = sc.opd("cli-disc 0") {
                let d = sc.hist[k].bytes.clone();
                sc.op(&format!("srv-rx 0 {} {}", cls[0].addr, hex(&d)));
            }
            sc.op("srv-dump 0");
            if let (_, Some(k)) = sc.opd("cli-upd 1 250000") {
                let req = sc.hist[k].bytes.clone();
                if let (_, Some(k)) = sc.opd(&format!("srv-rx 0 {} {}", cls[1].addr, hex(&req))) {
                    let chal = sc.hist[k].bytes.clone();
                    answer_challenge(&mut sc, 1, &cls[1].addr.clone(), &chal, None);
                }
            }
            sc.op("srv-dump 0");
            for d in withheld.iter() {
                sc.op("cli-q 1");
                sc.op(&format!("cli-rx 1 {}", hex(d)));
                sc.op("cli-q 1");
                sc.op("srv-q 0 41");
            }
            // the session still works
            if let (_, Some(k)) = sc.opd("cli-pay 1 7374696c6c") {
                let d = sc.hist[k].bytes.clone();
                sc.op("note expect-payload");
                sc.op(&format!("srv-rx 0 {} {}", cls[1].addr, hex(&d)));
            }
            if let (_, Some(k)) = sc.opd("srv-pay 0 41 7570") {
                let d = sc.hist[k].bytes.clone();
                sc.op("note expect-payload");
                sc.op(&format!("cli-rx 1 {}", hex(&d)));
            }
            sc.op("cli-dump 1");
        }
        // client id 40 is connected; the clock passes its 5 s timeout; before update_client(40) runs, a second
        // handshake for id 40 (another token, another address) completes: the id never occupies two seats
        23 | 24 => {
            let mut spec = base_spec(rng, 40, proto, key, 5, &hosts); // same client id as cls[0]
            spec.expire = 35;
            spec.seal_expire = 35;
            spec.timeout = 5;
            spec.ud = vec![0xb0; 256];
            let b = a4(10, 9, 0, 50, 4950);
            if let Some(cb) = new_client(&mut sc, 5, &b, &spec, 5_000_000) {
                if case == 23 {
                    let mut chal_b: Option<Vec<u8>> = None;
                    if let (_, Some(k)) = sc.opd("cli-upd 5 0") {
                        let req = sc.hist[k].bytes.clone();
                        if let (_, Some(k)) = sc.opd(&format!("srv-rx 0 {} {}", cb.addr, hex(&req))) {
                            chal_b = Some(sc.hist[k].bytes.clone());
                        }
                    }
                    fast_connect(&mut sc, &cls[0]);
                    sc.op("srv-dump 0");
                    sc.op("srv-upd 0 5000001");
                    // B's delayed response, then (again in the window) a complete second exchange
                    if let Some(ch) = chal_b {
                        answer_challenge(&mut sc, 5, &cb.addr, &ch, None);
                    }
                    sc.op("srv-dump 0");
                    sc.op("srv-q 0 40");
                    if let (_, Some(k)) = sc.opd("cli-upd 5 250000") {
                        let req = sc.hist[k].bytes.clone();
                        if let (_, Some(k)) = sc.opd(&format!("srv-rx 0 {} {}", cb.addr, hex(&req))) {
                            let ch = sc.hist[k].bytes.clone();
                            answer_challenge(&mut sc, 5, &cb.addr, &ch, None);
                        }
                    }
                    sc.op("srv-dump 0");
                    sc.op("srv-q 0 40");
                    sc.op("srv-pay 0 40 6f6b");
                    sc.op("srv-updc 0 40");
                    sc.op("srv-dump 0");
                    sc.op("srv-q 0 40");
                } else {
                    // case 24 — two tokens of client id 40 with different user data, both used from one address: the
                    // challenge obtained with the first is echoed (under the second token's key) in the handshake
                    // opened with the second; no connection, in particular none reported with the first one's user data
                    let a = cls[0].addr.clone();
                    let mut chals: Vec<Vec<u8>> = vec![];
                    for h in [0u64, 5] {
                        if let (_, Some(k)) = sc.opd(&format!("cli-upd {} 0", h)) {
                            let req = sc.hist[k].bytes.clone();
                            if let (_, Some(k)) = sc.opd(&format!("srv-rx 0 {} {}", a, hex(&req))) {
                                chals.push(sc.hist[k].bytes.clone());
                            }
                        }
                    }
                    sc.op("srv-dump 0");
                    if chals.len() == 2 {
                        if let Some(body1) = challenge_body(&chals[0], proto, &cls[0].tok.spec.s2c) {
                            let forged = forge(3, 1, proto, &cb.tok.spec.c2s, &body1);
                            sc.op(&format!("srv-rx 0 {} {}", a, hex(&forged)));
                            sc.op("srv-dump 0");
                            sc.op("srv-q 0 40");
                        }
                        // the genuine response of the second handshake connects — with the second token's user data
                        answer_challenge(&mut sc, 5, &a, &chals[1], Some("expect-connected"));
                        sc.op("srv-dump 0");
                        sc.op("srv-q 0 40");
                    }
                }
            }
        }
        // a full token of 32 addresses, all dead: every address gets its turn, then the client is timed out for good
        25 => {
            let list: Vec<String> = (0..32).map(|j| a4(10, 56, 0, j as u8, 5700 + j as u16)).collect();
            let mut spec = base_spec(rng, 53, proto, key, 5, &list.join(","));
            spec.expire = 305;
            spec.seal_expire = 305;
            spec.timeout = 1;
            if new_client(&mut sc, 5, &a4(10, 9, 0, 60, 4960), &spec, 5_000_000).is_some() {
                sc.op("cli-upd 5 0");
                for _ in 0..33 {
                    sc.op("cli-dump 5");
                    sc.op("cli-upd 5 1050000");
                    sc.op("cli-dump 5");
                    sc.op("cli-q 5");
                }
                sc.op("cli-upd 5 1050000");
                sc.op("cli-pay 5 00");
                sc.op("cli-q 5");
                sc.op("cli-dump 5");
            }
        }
        // every single-bit variant class of a connection request, retransmitted while its handshake is pending
        26 => {
            let mut spec = base_spec(rng, 56, proto, key, 5, &hosts);
            spec.expire = 45;
            spec.seal_expire = 45;
            spec.timeout = 5;
            tamper_sweep_pending(&mut sc, rng, 5, &a4(10, 9, 0, 70, 4970), &spec, 5_000_000, true);
        }
        // fewer clients connected than the limit, the difference taken up by ABANDONED half-open handshakes of other
        // addresses (tokens not expired): an honest newcomer with a lossless handshake gets in.
        // 27: limit 2, one connected, two abandoned.  28: limit raised 2 -> 4 at run time, two connected, two abandoned.
        27 | 28 => {
            fast_connect(&mut sc, &cls[0]);
            if case == 28 {
                fast_connect(&mut sc, &cls[1]);
                sc.op("srv-setmax 0 4");
            }
            let mut squat: Vec<Tok> = vec![];
            if case == 27 {
                // cls[1] asks and never answers its challenge
                if let (_, Some(k)) = sc.opd("cli-upd 1 0") {
                    let req = sc.hist[k].bytes.clone();
                    sc.op(&format!("srv-rx 0 {} {}", cls[1].addr, hex(&req)));
                }
            }
            for j in 0..(if case == 27 { 1u64 } else { 2 }) {
                let mut spec = base_spec(rng, 57 + j, proto, key, 5, &hosts);
                spec.expire = 35;
                spec.seal_expire = 35;
                if let Some(t) = mk_token(&mut sc, &spec) {
                    let d = request_datagram(proto, spec.expire, &spec.xnonce, &t.private);
                    sc.op(&format!("srv-rx 0 {} {}", a4(10, 9, 3, j as u8, 4990 + j as u16), hex(&d)));
                    squat.push(t);
                }
            }
            sc.op("srv-dump 0");
            let mut spec = base_spec(rng, 59, proto, key, 5, &hosts);
            spec.expire = 35;
            spec.seal_expire = 35;
            spec.timeout = 5;
            let a = a4(10, 9, 0, 80, 4980);
            if let Some(c) = new_client(&mut sc, 5, &a, &spec, 5_000_000) {
                // lossless: every datagram delivered at once, in order
                for _ in 0..3 {
                    sc.op("srv-upd 0 250000");
                    if let (_, Some(k)) = sc.opd("cli-upd 5 250000") {
                        let d = sc.hist[k].bytes.clone();
                        if let (_, Some(k)) = sc.opd(&format!("srv-rx 0 {} {}", c.addr, hex(&d))) {
                            let r = sc.hist[k].bytes.clone();
                            sc.op(&format!("cli-rx 5 {}", hex(&r)));
                            if let (_, Some(k)) = sc.opd("cli-upd 5 0") {
                                let d = sc.hist[k].bytes.clone();
                                if let (_, Some(k)) = sc.opd(&format!("srv-rx 0 {} {}", c.addr, hex(&d))) {
                                    let r = sc.hist[k].bytes.clone();
                                    sc.op(&format!("cli-rx 5 {}", hex(&r)));
                                }
                            }
                        }
                    }
                }
                sc.op("note expect-up:refused-below-the-limit");
                sc.op("cli-q 5");
                sc.op("note expect-up:refused-below-the-limit");
                sc.op("srv-q 0 59");
                sc.op("srv-dump 0");
            }
            let _ = squat;
        }
        // disconnect(id) for ids that are not connected — half-open, unknown — reports nothing; the half-open handshake
        // can still complete; a connected one is reported exactly once
        29 => {
            let mut chal: Option<Vec<u8>> = None;
            if let (_, Some(k)) = sc.opd("cli-upd 1 0") {
                let req = sc.hist[k].bytes.clone();
                if let (_, Some(k)) = sc.opd(&format!("srv-rx 0 {} {}", cls[1].addr, hex(&req))) {
                    chal = Some(sc.hist[k].bytes.clone());
                }
            }
            sc.op("srv-dump 0");
            sc.op("srv-disc 0 41"); // half-open
            sc.op("srv-disc 0 40"); // its client has not even asked yet
            sc.op("srv-disc 0 999"); // unknown
            sc.op("srv-dump 0");
            sc.op("srv-q 0 41");
            if let Some(ch) = chal {
                answer_challenge(&mut sc, 1, &cls[1].addr.clone(), &ch, Some("expect-connected"));
            }
            sc.op("srv-dump 0");
            sc.op("srv-disc 0 41");
            sc.op("srv-disc 0 41");
            sc.op("srv-dump 0");
            sc.op("srv-q 0 41");
        }
        // a secure server whose public addresses are wildcards (0.0.0.0:5000, [::]:5001): tokens for other machines
        // with those ports, or other ports, get nothing; tokens listing the wildcard address literally connect
        30 => {
            let hostlists = [a4(10, 0, 0, 7, 5000), "6:20010db8000000000000000000000007:5001".to_string(), a4(10, 0, 0, 7, 5999), format!("{},{}", a4(10, 0, 0, 8, 5000), a4(10, 0, 0, 9, 6000))];
            for (j, list) in hostlists.iter().enumerate() {
                let mut spec = base_spec(rng, 60 + j as u64, proto, key, 5, list);
                spec.expire = 35;
                spec.seal_expire = 35;
                let a = a4(10, 9, 4, j as u8, 4940 + j as u16);
                if let Some(c) = new_client(&mut sc, 5 + j as u64, &a, &spec, 5_000_000) {
                    if let (_, Some(k)) = sc.opd(&format!("cli-upd {} 0", c.h)) {
                        let req = sc.hist[k].bytes.clone();
                        if let (out, Some(k)) = sc.opd(&format!("srv-rx 0 {} {}", c.addr, hex(&req))) {
                            if out.starts_with("send ") {
                                let ch = sc.hist[k].bytes.clone();
                                answer_challenge(&mut sc, c.h, &c.addr, &ch, None);
                            }
                        }
                    }
                }
            }
            sc.op("srv-dump 0");
            // the tokens made for this server (they list the wildcard addresses literally)
            for i in 0..2usize {
                if let (_, Some(k)) = sc.opd(&format!("cli-upd {} 0", i)) {
                    let req = sc.hist[k].bytes.clone();
                    if let (_, Some(k)) = sc.opd(&format!("srv-rx 0 {} {}", cls[i].addr, hex(&req))) {
                        let ch = sc.hist[k].bytes.clone();
                        answer_challenge(&mut sc, i as u64, &cls[i].addr.clone(), &ch, Some("expect-connected"));
                    }
                }
            }
            sc.op("srv-dump 0");
        }
        // a server announced under an IPv4-mapped IPv6 address: tokens listing special IPv6 forms round-trip (write/read,
        // seal/open), and the token issued for exactly that address connects
        31 => {
            for (j, ip) in SPECIAL_V6.iter().enumerate().take(6) {
                let list = format!("6:{}:{},{}", ip, 5000 + j, a4(10, 1, 2, 3, 4));
                let spec = base_spec(rng, 70 + j as u64, proto, key, 5, &list);
                sc.op("note rt");
                let out = sc.op(&format!(
                    "ptok-seal {} {} {} {} {} {} {} {} {} {}",
                    proto, spec.expire, hex(&spec.xnonce), hex(&key), spec.id, spec.timeout, list, hex(&spec.c2s), hex(&spec.s2c), hex(&spec.ud)
                ));
                if let Some(p) = out.strip_prefix("ok ") {
                    let p = p.to_string();
                    sc.op(&format!("ptok-open {} {} {} {} {}", proto, spec.expire, hex(&spec.xnonce), hex(&key), p));
                    sc.op("note rt");
                    let out = sc.op(&format!(
                        "tok-write {} {} {} {} {} {} {} {} {} {} {}",
                        spec.id, VERSION_HEX, proto, spec.create, spec.expire, hex(&spec.xnonce), p, spec.timeout, list, hex(&spec.c2s), hex(&spec.s2c)
                    ));
                    if let Some(t) = out.strip_prefix("ok ") {
                        let t = t.to_string();
                        sc.op(&format!("tok-read {}", t));
                    }
                }
            }
            for i in 0..2usize {
                if let (_, Some(k)) = sc.opd(&format!("cli-upd {} 0", i)) {
                    let req = sc.hist[k].bytes.clone();
                    sc.op(&format!("cli-q {}", i));
                    if let (_, Some(k)) = sc.opd(&format!("srv-rx 0 {} {}", cls[i].addr, hex(&req))) {
                        let ch = sc.hist[k].bytes.clone();
                        answer_challenge(&mut sc, i as u64, &cls[i].addr.clone(), &ch, Some("expect-connected"));
                    }
                }
                sc.op(&format!("srv-q 0 {}", cls[i].tok.spec.id));
            }
            sc.op("srv-dump 0");
        }
        // P in slot 0; devices A and B of client id 40 both challenged; A is seated in slot 1; P leaves (a hole in front
        // of A); B's response arrives: id 40 stays connected once
        32 => {
            let mut spec = base_spec(rng, 40, proto, key, 5, &hosts); // same client id as cls[0]
            spec.expire = 35;
            spec.seal_expire = 35;
            spec.ud = vec![0xb1; 256];
            let b = a4(10, 9, 0, 90, 4990);
            if let Some(cb) = new_client(&mut sc, 5, &b, &spec, 5_000_000) {
                fast_connect(&mut sc, &cls[1]); // P, slot 0
                let mut chal: Vec<(u64, String, Vec<u8>)> = vec![];
                for (h, a) in [(0u64, cls[0].addr.clone()), (5, cb.addr.clone())] {
                    if let (_, Some(k)) = sc.opd(&format!("cli-upd {} 0", h)) {
                        let req = sc.hist[k].bytes.clone();
                        if let (_, Some(k)) = sc.opd(&format!("srv-rx 0 {} {}", a, hex(&req))) {
                            chal.push((h, a, sc.hist[k].bytes.clone()));
                        }
                    }
                }
                if chal.len() == 2 {
                    answer_challenge(&mut sc, chal[0].0, &chal[0].1.clone(), &chal[0].2.clone(), Some("expect-connected"));
                    sc.op("srv-dump 0");
                    if let (_, Some(k)) = sc.opd("cli-disc 1") {
                        let d = sc.hist[k].bytes.clone();
                        sc.op(&format!("srv-rx 0 {} {}", cls[1].addr, hex(&d)));
                    }
                    sc.op("srv-dump 0");
                    answer_challenge(&mut sc, chal[1].0, &chal[1].1.clone(), &chal[1].2.clone(), None);
                    sc.op("srv-dump 0");
                    sc.op("srv-q 0 40");
                    sc.op("srv-pay 0 40 6f6b");
                }
            }
        }
        // payload routing after slot reuse: the last payload was for client 40, which leaves by its own Disconnect
        // datagram; client 41 is seated in the slot it freed; a payload for 40 finds no client
        33 => {
            fast_connect(&mut sc, &cls[0]);
            if let (_, Some(k)) = sc.opd("srv-pay 0 40 6c617374") {
                let d = sc.hist[k].bytes.clone();
                sc.op("note expect-payload");
                sc.op(&format!("cli-rx 0 {}", hex(&d)));
            }
            if let (_, Some(k)) = sc.opd("cli-disc 0") {
                let d = sc.hist[k].bytes.clone();
                sc.op(&format!("srv-rx 0 {} {}", cls[0].addr, hex(&d)));
            }
            sc.op("srv-dump 0");
            fast_connect(&mut sc, &cls[1]);
            sc.op("srv-dump 0");
            if let (_, Some(k)) = sc.opd("srv-pay 0 40 676f6e65") {
                // (whoever it is addressed to receives it)
                let d = sc.hist[k].bytes.clone();
                sc.op(&format!("cli-rx 1 {}", hex(&d)));
            }
            sc.op("srv-pay 0 41 6869");
            sc.op("srv-q 0 40");
            sc.op("srv-q 0 41");
        }
        // two server objects (and a restarted one) sharing private key and protocol id, each with the challenge key it
        // drew ITSELF (no setter; quiet trace, datagrams by history index): a response that echoes the challenge of
        // server 1 is worthless at server 2 / at the restarted server 1, from a spoofed and from the genuine address
        34 => {
            // the connection requests do not depend on anything random: they are taken before the trace goes quiet and
            // handed over as literal bytes
            let mut req_hex: Vec<String> = vec![];
            for c in 0..2 {
                if let (_, Some(k)) = sc.opd(&format!("cli-upd {} 0", c)) {
                    req_hex.push(hex(&sc.hist[k].bytes));
                }
            }
            if req_hex.len() < 2 {
                return;
            }
            sc.op("nc-quiet 1");
            let mk = |h: u64| format!("srv-new {} 5000000 4 {} 1 {} - {}", h, proto, hex(&key), hosts);
            sc.op(&mk(1));
            sc.op(&mk(2));
            // history index of the next datagram the world records (the two requests so far)
            let mut n = 2usize;
            let mut emits = |sc: &mut Sc, op: &str| -> Option<usize> {
                let out = sc.op(op);
                let t = toks(&out);
                let yes = match t.first().cloned() {
                    Some("send") | Some("connected") => true,
                    Some("disconnected") => t.last() != Some(&"none"),
                    _ => false,
                };
                if yes {
                    n += 1;
                    Some(n - 1)
                } else {
                    None
                }
            };
            let x = [cls[0].addr.clone(), cls[1].addr.clone()];
            let spoof = a4(10, 9, 7, 7, 4977);
            let mut resp: Vec<Option<usize>> = vec![None, None];
            for c in 0..2usize {
                if let Some(ch) = emits(&mut sc, &format!("srv-rx 1 {} {}", x[c], req_hex[c])) {
                    sc.op(&format!("cli-rx {} @{}", c, ch));
                    resp[c] = emits(&mut sc, &format!("cli-upd {} 0", c));
                }
            }
            if let (Some(rs0), Some(rs1)) = (resp[0], resp[1]) {
                let (rq0, rq1) = (req_hex[0].clone(), req_hex[1].clone());
                // server 2: the request of client 0 from a SPOOFED address (challenged by server 2: never delivered), then
                // the response that echoes server 1's challenge
                emits(&mut sc, &format!("srv-rx 2 {} {}", spoof, rq0));
                emits(&mut sc, &format!("srv-rx 2 {} @{}", spoof, rs0));
                sc.op("srv-q 2 40");
                // server 2: the same with client 1 from its GENUINE address
                emits(&mut sc, &format!("srv-rx 2 {} {}", x[1], rq1));
                emits(&mut sc, &format!("srv-rx 2 {} @{}", x[1], rs1));
                sc.op("srv-q 2 41");
                sc.op("srv-dump 2");
                // server 1 itself accepts client 0
                sc.op("note expect-connected");
                emits(&mut sc, &format!("srv-rx 1 {} @{}", x[0], rs0));
                sc.op("srv-q 1 40");
                // server 1 is restarted (a new object with the same configuration): the old challenge of client 1 is void
                sc.op(&mk(1));
                emits(&mut sc, &format!("srv-rx 1 {} {}", x[1], rq1));
                emits(&mut sc, &format!("srv-rx 1 {} @{}", x[1], rs1));
                emits(&mut sc, &format!("srv-rx 1 {} {}", spoof, rq0));
                emits(&mut sc, &format!("srv-rx 1 {} @{}", spoof, rs0));
                sc.op("srv-q 1 41");
                sc.op("srv-q 1 40");
                sc.op("srv-dump 1");
            }
            sc.op("nc-quiet 0");
        }
        // four sessions in slots 0..3; the limit is lowered to 2 (nobody leaves), then raised to 3: every session is
        // still there, and the one in the highest slot stays alive over more than its timeout of lossless keep-alives
        35 => {
            let mut all: Vec<Cl> = vec![];
            for j in 0..2u64 {
                let mut spec = base_spec(rng, 62 + j, proto, key, 5, &hosts);
                spec.expire = 65;
                spec.seal_expire = 65;
                spec.timeout = 2;
                if let Some(c) = new_client(&mut sc, 5 + j, &a4(10, 9, 5, j as u8, 4950 + j as u16), &spec, 5_000_000) {
                    all.push(c);
                }
            }
            fast_connect(&mut sc, &cls[0]);
            fast_connect(&mut sc, &cls[1]);
            for c in all.iter() {
                fast_connect(&mut sc, c);
            }
            sc.op("srv-dump 0");
            let ids = [40u64, 41, 62, 63];
            for m in [2usize, 3] {
                sc.op(&format!("srv-setmax 0 {}", m));
                sc.op("srv-dump 0");
                for id in ids {
                    sc.op(&format!("srv-q 0 {}", id));
                }
            }
            // the session in the highest slot: lossless keep-alives both ways for 3 s (timeout 2 s)
            if let Some(c) = all.last() {
                for _ in 0..12 {
                    sc.op("srv-upd 0 250000");
                    if let (_, Some(k)) = sc.opd(&format!("cli-upd {} 250000", c.h)) {
                        let d = sc.hist[k].bytes.clone();
                        sc.op(&format!("srv-rx 0 {} {}", c.addr, hex(&d)));
                    }
                    if let (_, Some(k)) = sc.opd(&format!("srv-updc 0 {}", c.tok.spec.id)) {
                        let d = sc.hist[k].bytes.clone();
                        sc.op(&format!("cli-rx {} {}", c.h, hex(&d)));
                    }
                }
                sc.op("note expect-up:live-session-lost");
                sc.op(&format!("cli-q {}", c.h));
                sc.op("note expect-up:live-session-lost");
                sc.op(&format!("srv-q 0 {}", c.tok.spec.id));
            }
            sc.op("srv-dump 0");
        }
        // the connect keep-alive is delayed: the client repeats its response, which reaches the server after the
        // promotion and before anything else from that client; whatever the server answers is delivered, then the late
        // keep-alive, then the server's FIRST payload: it is surfaced
        36 => {
            let c = &cls[0];
            if let (_, Some(k)) = sc.opd("cli-upd 0 0") {
                let req = sc.hist[k].bytes.clone();
                if let (_, Some(k)) = sc.opd(&format!("srv-rx 0 {} {}", c.addr, hex(&req))) {
                    let chal = sc.hist[k].bytes.clone();
                    sc.op(&format!("cli-rx 0 {}", hex(&chal)));
                    if let (_, Some(k)) = sc.opd("cli-upd 0 0") {
                        let resp = sc.hist[k].bytes.clone();
                        if let (_, Some(k)) = sc.opd(&format!("srv-rx 0 {} {}", c.addr, hex(&resp))) {
                            let late_ka = sc.hist[k].bytes.clone();
                            sc.op("srv-upd 0 250000");
                            if let (_, Some(k)) = sc.opd("cli-upd 0 250000") {
                                let resp2 = sc.hist[k].bytes.clone();
                                if let (_, Some(k)) = sc.opd(&format!("srv-rx 0 {} {}", c.addr, hex(&resp2))) {
                                    let r = sc.hist[k].bytes.clone();
                                    sc.op(&format!("cli-rx 0 {}", hex(&r)));
                                }
                            }
                            sc.op(&format!("cli-rx 0 {}", hex(&late_ka)));
                            sc.op("cli-q 0");
                            for p in ["6669727374", "7365636f6e64"] {
                                if let (_, Some(k)) = sc.opd(&format!("srv-pay 0 40 {}", p)) {
                                    let d = sc.hist[k].bytes.clone();
                                    sc.op("note expect-payload");
                                    sc.op(&format!("cli-rx 0 {}", hex(&d)));
                                }
                            }
                            sc.op("srv-dump 0");
                            sc.op("cli-dump 0");
                        }
                    }
                }
            }
        }
        // challenged while the seat is free; the seat is taken before the response arrives: a denial (lost on the way);
        // the seat becomes free, the recorded request knocks again, the client's repeated response connects: the denial
        // and the session's packets travel under one key
        37 => {
            let mut req1: Vec<u8> = vec![];
            let mut chal1: Option<Vec<u8>> = None;
            if let (_, Some(k)) = sc.opd("cli-upd 1 0") {
                req1 = sc.hist[k].bytes.clone();
                if let (_, Some(k)) = sc.opd(&format!("srv-rx 0 {} {}", cls[1].addr, hex(&req1))) {
                    chal1 = Some(sc.hist[k].bytes.clone());
                }
            }
            fast_connect(&mut sc, &cls[0]);
            if let Some(ch) = chal1 {
                sc.op(&format!("cli-rx 1 {}", hex(&ch)));
                if let (_, Some(k)) = sc.opd("cli-upd 1 0") {
                    let resp = sc.hist[k].bytes.clone();
                    sc.op(&format!("srv-rx 0 {} {}", cls[1].addr, hex(&resp))); // denied; the datagram is lost
                }
                sc.op("srv-dump 0");
                sc.op("srv-disc 0 40");
                sc.op(&format!("srv-rx 0 {} {}", cls[1].addr, hex(&req1))); // a late duplicate of the request
                sc.op("srv-upd 0 250000");
                if let (_, Some(k)) = sc.opd("cli-upd 1 250000") {
                    let resp = sc.hist[k].bytes.clone();
                    if let (_, Some(k)) = sc.opd(&format!("srv-rx 0 {} {}", cls[1].addr, hex(&resp))) {
                        let ka = sc.hist[k].bytes.clone();
                        sc.op(&format!("cli-rx 1 {}", hex(&ka)));
                    }
                }
                for p in ["6f6e65", "74776f"] {
                    if let (_, Some(k)) = sc.opd(&format!("srv-pay 0 41 {}", p)) {
                        let d = sc.hist[k].bytes.clone();
                        sc.op("note expect-payload");
                        sc.op(&format!("cli-rx 1 {}", hex(&d)));
                    }
                }
                sc.op("srv-q 0 41");
                sc.op("srv-dump 0");
            }
        }
        // a token made by the LIBRARY (ConnectToken::generate: keys unknown to the trace, hence a quiet trace with
        // datagrams by history index); a session on it; then every datagram of the session is presented to the endpoint
        // that emitted it: nothing is surfaced
        38 => {
            // (explicit user data: without it the library draws that at random, too)
            let out = sc.op(&format!("tok-make 0 5000000 {} 30 71 5 {} {} {}", proto, hosts, hex(&[0x71u8; 256]), hex(&key)));
            if !out.starts_with("ok ") || sc.op("cli-newt 5 5000000 0") != "ok" {
                return;
            }
            sc.op("nc-quiet 1");
            let x = a4(10, 9, 8, 1, 4981);
            let mut n = 0usize;
            let mut emits = |sc: &mut Sc, op: &str| -> Option<usize> {
                let out = sc.op(op);
                let t = toks(&out);
                let yes = match t.first().cloned() {
                    Some("send") | Some("connected") => true,
                    Some("disconnected") => t.last() != Some(&"none"),
                    _ => false,
                };
                if yes {
                    n += 1;
                    Some(n - 1)
                } else {
                    None
                }
            };
            let mut from_srv: Vec<usize> = vec![];
            let mut from_cli: Vec<usize> = vec![];
            if let Some(rq) = emits(&mut sc, "cli-upd 5 0") {
                if let Some(ch) = emits(&mut sc, &format!("srv-rx 0 {} @{}", x, rq)) {
                    from_srv.push(ch);
                    sc.op(&format!("cli-rx 5 @{}", ch));
                    if let Some(rs) = emits(&mut sc, "cli-upd 5 0") {
                        from_cli.push(rs);
                        if let Some(ka) = emits(&mut sc, &format!("srv-rx 0 {} @{}", x, rs)) {
                            from_srv.push(ka);
                            sc.op(&format!("cli-rx 5 @{}", ka));
                        }
                    }
                }
            }
            sc.op("cli-q 5");
            for j in 0..2u8 {
                if let Some(p) = emits(&mut sc, &format!("srv-pay 0 71 a{}b{}", j, j)) {
                    from_srv.push(p);
                    sc.op(&format!("cli-rx 5 @{}", p));
                }
                if let Some(q) = emits(&mut sc, &format!("cli-pay 5 c{}d{}", j, j)) {
                    from_cli.push(q);
                    emits(&mut sc, &format!("srv-rx 0 {} @{}", x, q));
                }
            }
            sc.op("srv-upd 0 250000");
            if let Some(k) = emits(&mut sc, "srv-updc 0 71") {
                from_srv.push(k);
                sc.op(&format!("cli-rx 5 @{}", k));
            }
            if let Some(k) = emits(&mut sc, "cli-upd 5 250000") {
                from_cli.push(k);
                emits(&mut sc, &format!("srv-rx 0 {} @{}", x, k));
            }
            // reflection
            // (no server dumps here: they show key bytes, and this token's keys are the library's secret)
            for k in from_srv.iter() {
                sc.op("srv-q 0 71");
                sc.op("note hostile");
                emits(&mut sc, &format!("srv-rx 0 {} @{}", x, k));
                sc.op("srv-q 0 71");
            }
            for k in from_cli.iter() {
                sc.op("cli-dump 5");
                sc.op("note hostile");
                sc.op(&format!("cli-rx 5 @{}", k));
                sc.op("cli-dump 5");
            }
            sc.op("srv-q 0 71");
            sc.op("cli-q 5");
            sc.op("nc-quiet 0");
        }
        // tokens that expire (second 8) long before their 60 s timeout; two clients complete the handshake at second 5; the
        // control gets one payload through at once, everything the other one sends is lost until the server's clock says 9;
        // then its genuine payloads arrive for the first time: they are surfaced (as are the control's)
        39 => {
            let mut two: Vec<Cl> = vec![];
            for j in 0..2u64 {
                let mut spec = base_spec(rng, 64 + j, proto, key, 5, &hosts);
                spec.expire = 8;
                spec.seal_expire = 8;
                spec.timeout = 60;
                if let Some(c) = new_client(&mut sc, 5 + j, &a4(10, 9, 6, j as u8, 4960 + j as u16), &spec, 5_000_000) {
                    two.push(c);
                }
            }
            if two.len() == 2 && fast_connect(&mut sc, &two[0]) && fast_connect(&mut sc, &two[1]) {
                let (late, control) = (&two[0], &two[1]);
                if let (_, Some(k)) = sc.opd(&format!("cli-pay {} 6561726c79", control.h)) {
                    let d = sc.hist[k].bytes.clone();
                    sc.op("note expect-payload");
                    sc.op(&format!("srv-rx 0 {} {}", control.addr, hex(&d)));
                }
                // lost on the way
                let mut lost: Vec<Vec<u8>> = vec![];
                for dt in [250_000u64, 250_000] {
                    if let (_, Some(k)) = sc.opd(&format!("cli-upd {} {}", late.h, dt)) {
                        lost.push(sc.hist[k].bytes.clone());
                    }
                }
                sc.op("srv-upd 0 4000000");
                sc.op("srv-dump 0");
                for c in [late, control] {
                    sc.op(&format!("cli-upd {} 3500000", c.h));
                    for p in ["6c617465", "6c6174657232"] {
                        if let (_, Some(k)) = sc.opd(&format!("cli-pay {} {}", c.h, p)) {
                            let d = sc.hist[k].bytes.clone();
                            sc.op("note expect-payload");
                            sc.op(&format!("srv-rx 0 {} {}", c.addr, hex(&d)));
                        }
                    }
                    sc.op(&format!("srv-q 0 {}", c.tok.spec.id));
                }
                // the delayed keep-alives arrive after all (in the window, first time)
                for d in lost.iter() {
                    sc.op(&format!("srv-rx 0 {} {}", late.addr, hex(d)));
                }
                sc.op("srv-dump 0");
            }
        }
        // payload limit when the session's sequence numbers need two bytes: 1299 / 1300 bytes go out, 1301 do not —
        // on both sides
        40 => {
            fast_connect(&mut sc, &cls[0]);
            for _ in 0..256 {
                sc.op("cli-pay 0 2a");
                sc.op("srv-pay 0 40 2b");
            }
            for n in [1299usize, 1300, 1301] {
                let body = hex(&rng.payload(n));
                if let (_, Some(k)) = sc.opd(&format!("cli-pay 0 {}", body)) {
                    let d = sc.hist[k].bytes.clone();
                    sc.op("note expect-payload");
                    sc.op(&format!("srv-rx 0 {} {}", cls[0].addr, hex(&d)));
                }
                if let (_, Some(k)) = sc.opd(&format!("srv-pay 0 40 {}", body)) {
                    let d = sc.hist[k].bytes.clone();
                    sc.op("note expect-payload");
                    sc.op(&format!("cli-rx 0 {}", hex(&d)));
                }
            }
            sc.op("cli-dump 0");
        }
        // request from A, challenge lost; the clear-text request replayed from B: nothing, no change; A retransmits: a
        // challenge; replay from B: nothing; A completes; replay from B once more: nothing
        41 => {
            let b = a4(10, 9, 0, 77, 4977);
            if let (_, Some(k)) = sc.opd("cli-upd 0 0") {
                let req = sc.hist[k].bytes.clone();
                sc.op(&format!("srv-rx 0 {} {}", cls[0].addr, hex(&req)));
                hostile_srv(&mut sc, "hostile", &b, &req);
                sc.op("srv-upd 0 250000");
                let mut chal: Option<Vec<u8>> = None;
                if let (_, Some(k)) = sc.opd("cli-upd 0 250000") {
                    let again = sc.hist[k].bytes.clone();
                    if let (_, Some(k)) = sc.opd(&format!("srv-rx 0 {} {}", cls[0].addr, hex(&again))) {
                        chal = Some(sc.hist[k].bytes.clone());
                    }
                }
                hostile_srv(&mut sc, "hostile", &b, &req);
                if let Some(ch) = chal {
                    answer_challenge(&mut sc, 0, &cls[0].addr.clone(), &ch, Some("expect-connected"));
                }
                hostile_srv(&mut sc, "hostile", &b, &req);
                sc.op("srv-q 0 40");
            }
        }
        // a client at 10.9.0.1:4901 and one at its IPv4-mapped IPv6 twin [::ffff:10.9.0.1]:4901, both connected: every
        // lookup reports the address the session was authenticated from
        42 => {
            let mut spec = base_spec(rng, 66, proto, key, 5, &hosts);
            spec.expire = 35;
            spec.seal_expire = 35;
            spec.timeout = 5;
            let twin = mapped4(10, 9, 0, 1, 4901);
            let third = new_client(&mut sc, 5, &twin, &spec, 5_000_000);
            fast_connect(&mut sc, &cls[0]);
            if let Some(c) = third {
                fast_connect(&mut sc, &c);
                sc.op("srv-dump 0");
                for id in [40u64, 66, 40] {
                    sc.op(&format!("srv-q 0 {}", id));
                }
                for (h, id, addr) in [(0u64, 40u64, cls[0].addr.clone()), (5, 66, c.addr.clone())] {
                    if let (_, Some(k)) = sc.opd(&format!("srv-pay 0 {} 6869", id)) {
                        let d = sc.hist[k].bytes.clone();
                        sc.op("note expect-payload");
                        sc.op(&format!("cli-rx {} {}", h, hex(&d)));
                    }
                    if let (_, Some(k)) = sc.opd(&format!("cli-pay {} 686f", h)) {
                        let d = sc.hist[k].bytes.clone();
                        sc.op("note expect-payload");
                        sc.op(&format!("srv-rx 0 {} {}", addr, hex(&d)));
                    }
                }
                sc.op("srv-disc 0 40");
                sc.op("srv-q 0 66");
                sc.op("srv-q 0 40");
            }
        }
        // the application kicks an id whose handshake is half-open (nothing happens), the client retransmits, completes,
        // exchanges a few packets and is kicked again: all of it under one server-to-client key
        43 => {
            if let (_, Some(k)) = sc.opd("cli-upd 0 0") {
                let req = sc.hist[k].bytes.clone();
                sc.op(&format!("srv-rx 0 {} {}", cls[0].addr, hex(&req)));
                let (_, e) = sc.opd("srv-disc 0 40");
                if let Some(k) = e {
                    // (whatever the server hands the application is sent)
                    let d = sc.hist[k].bytes.clone();
                    sc.op(&format!("cli-rx 0 {}", hex(&d)));
                }
                sc.op("srv-dump 0");
                sc.op("srv-upd 0 250000");
                if let (_, Some(k)) = sc.opd("cli-upd 0 250000") {
                    let again = sc.hist[k].bytes.clone();
                    if let (_, Some(k)) = sc.opd(&format!("srv-rx 0 {} {}", cls[0].addr, hex(&again))) {
                        let ch = sc.hist[k].bytes.clone();
                        answer_challenge(&mut sc, 0, &cls[0].addr.clone(), &ch, Some("expect-connected"));
                    }
                }
                for p in ["61", "6262"] {
                    if let (_, Some(k)) = sc.opd(&format!("srv-pay 0 40 {}", p)) {
                        let d = sc.hist[k].bytes.clone();
                        sc.op("note expect-payload");
                        sc.op(&format!("cli-rx 0 {}", hex(&d)));
                    }
                }
                sc.op("srv-upd 0 250000");
                if let (_, Some(k)) = sc.opd("srv-updc 0 40") {
                    let d = sc.hist[k].bytes.clone();
                    sc.op(&format!("cli-rx 0 {}", hex(&d)));
                }
                if let (_, Some(k)) = sc.opd("srv-disc 0 40") {
                    let d = sc.hist[k].bytes.clone();
                    sc.op(&format!("cli-rx 0 {}", hex(&d)));
                }
                sc.op("cli-q 0");
                sc.op("srv-dump 0");
            }
        }
        // a half-open handshake whose token expires (second 7) before the response arrives: the response completes nothing;
        // the control (token valid until second 35) answers just as late and connects
        44 => {
            let mut spec = base_spec(rng, 67, proto, key, 5, &hosts);
            spec.expire = 7;
            spec.seal_expire = 7;
            spec.timeout = 15;
            let a = a4(10, 9, 0, 91, 4991);
            let mut chal: Vec<(u64, String, Vec<u8>)> = vec![];
            if let Some(c) = new_client(&mut sc, 5, &a, &spec, 5_000_000) {
                for (h, ad) in [(c.h, c.addr.clone()), (0u64, cls[0].addr.clone())] {
                    if let (_, Some(k)) = sc.opd(&format!("cli-upd {} 0", h)) {
                        let req = sc.hist[k].bytes.clone();
                        if let (_, Some(k)) = sc.opd(&format!("srv-rx 0 {} {}", ad, hex(&req))) {
                            chal.push((h, ad, sc.hist[k].bytes.clone()));
                        }
                    }
                }
            }
            sc.op("srv-dump 0");
            sc.op("srv-upd 0 3000001");
            sc.op("srv-dump 0");
            for (h, ad, ch) in chal.iter() {
                answer_challenge(&mut sc, *h, ad, ch, None);
                sc.op("srv-dump 0");
            }
            sc.op("note expect-up:valid-half-open-lost");
            sc.op("srv-q 0 40");
            sc.op("srv-q 0 67");
        }
        // retries: 45 = the challenge is lost twice, 46 = the response is lost twice, 47 = the connect keep-alive never
        // arrives (the server's next regular keep-alive does the job); 250 ms rounds; connected on both sides in the end
        45 | 46 | 47 => {
            let c = &cls[0];
            let mut lost = 0;
            for _round in 0..8 {
                sc.op("srv-upd 0 250000");
                if let (_, Some(k)) = sc.opd("srv-updc 0 40") {
                    let d = sc.hist[k].bytes.clone();
                    sc.op(&format!("cli-rx 0 {}", hex(&d)));
                }
                let Some(k) = sc.opd("cli-upd 0 250000").1 else { continue };
                let d = sc.hist[k].bytes.clone();
                let is_resp = d[0] & 0xf == 3;
                if case == 46 && is_resp && lost < 2 {
                    lost += 1;
                    continue; // the response is lost
                }
                let (out, e) = sc.opd(&format!("srv-rx 0 {} {}", c.addr, hex(&d)));
                let Some(k) = e else { continue };
                let r = sc.hist[k].bytes.clone();
                if case == 45 && r[0] & 0xf == 2 && lost < 2 {
                    lost += 1;
                    continue; // the challenge is lost
                }
                if case == 47 && out.starts_with("connected ") {
                    continue; // the connect keep-alive is lost
                }
                sc.op(&format!("cli-rx 0 {}", hex(&r)));
                if let (_, Some(k)) = sc.opd("cli-upd 0 0") {
                    let d = sc.hist[k].bytes.clone();
                    if case == 46 && lost < 2 {
                        lost += 1;
                        continue;
                    }
                    if let (out, Some(k)) = sc.opd(&format!("srv-rx 0 {} {}", c.addr, hex(&d))) {
                        if !(case == 47 && out.starts_with("connected ")) {
                            let r = sc.hist[k].bytes.clone();
                            sc.op(&format!("cli-rx 0 {}", hex(&r)));
                        }
                    }
                }
            }
            sc.op("note expect-up:handshake-stalled");
            sc.op("cli-q 0");
            sc.op("note expect-up:handshake-stalled");
            sc.op("srv-q 0 40");
        }
        // a connected client whose server sends PAYLOADS only (no keep-alive ever delivered) for 3 s, timeout 2 s:
        // the client stays connected
        48 => {
            let mut spec = base_spec(rng, 68, proto, key, 5, &hosts);
            spec.expire = 65;
            spec.seal_expire = 65;
            spec.timeout = 2;
            if let Some(c) = new_client(&mut sc, 5, &a4(10, 9, 0, 92, 4992), &spec, 5_000_000) {
                fast_connect(&mut sc, &c);
                for j in 0..12u8 {
                    sc.op("srv-upd 0 250000");
                    if let (_, Some(k)) = sc.opd(&format!("cli-upd {} 250000", c.h)) {
                        let d = sc.hist[k].bytes.clone();
                        sc.op(&format!("srv-rx 0 {} {}", c.addr, hex(&d)));
                    }
                    if let (_, Some(k)) = sc.opd(&format!("srv-pay 0 68 {:02x}", j)) {
                        let d = sc.hist[k].bytes.clone();
                        sc.op("note expect-payload");
                        sc.op(&format!("cli-rx {} {}", c.h, hex(&d)));
                    }
                    sc.op(&format!("cli-q {}", c.h));
                }
                sc.op("note expect-up:live-session-lost");
                sc.op(&format!("cli-q {}", c.h));
            }
        }
        // a connected client whose server has fallen silent; replays of everything the server ever sent it and junk
        // arrive every 400 ms; the 2 s timeout fires all the same
        49 => {
            let mut spec = base_spec(rng, 69, proto, key, 5, &hosts);
            spec.expire = 65;
            spec.seal_expire = 65;
            spec.timeout = 2;
            if let Some(c) = new_client(&mut sc, 5, &a4(10, 9, 0, 93, 4993), &spec, 5_000_000) {
                fast_connect(&mut sc, &c);
                if let (_, Some(k)) = sc.opd("srv-pay 0 69 6869") {
                    let d = sc.hist[k].bytes.clone();
                    sc.op("note expect-payload");
                    sc.op(&format!("cli-rx {} {}", c.h, hex(&d)));
                }
                let rec: Vec<Vec<u8>> = sc.hist.iter().filter(|d| d.from == Src::Srv(0)).map(|d| d.bytes.clone()).collect();
                sc.op(&format!("cli-q {}", c.h));
                for j in 0..7usize {
                    sc.op(&format!("cli-upd {} 400000", c.h));
                    hostile_cli(&mut sc, "hostile", c.h, &rec[j % rec.len()]);
                    hostile_cli(&mut sc, "hostile", c.h, &vec![0x14u8 + (j as u8 % 3); 26]);
                    sc.op(&format!("cli-q {}", c.h));
                }
                sc.op(&format!("cli-dump {}", c.h));
            }
        }
        // limits lowered at run time with judged newcomers: 4 seats, 2 taken; limit 3: a newcomer gets in; limit 2 (three
        // connected: nobody leaves, nobody gets in); two leave: the next newcomer gets in
        50 => {
            let mut extra: Vec<Cl> = vec![];
            for j in 0..3u64 {
                let mut spec = base_spec(rng, 72 + j, proto, key, 5, &hosts);
                spec.expire = 65;
                spec.seal_expire = 65;
                spec.timeout = 5;
                if let Some(c) = new_client(&mut sc, 5 + j, &a4(10, 9, 6, 10 + j as u8, 4910 + j as u16), &spec, 5_000_000) {
                    extra.push(c);
                }
            }
            fast_connect(&mut sc, &cls[0]);
            fast_connect(&mut sc, &cls[1]);
            if extra.len() == 3 {
                sc.op("srv-setmax 0 3");
                fast_connect(&mut sc, &extra[0]);
                sc.op("note expect-up:refused-below-the-limit");
                sc.op("srv-q 0 72");
                sc.op("srv-setmax 0 2");
                fast_connect(&mut sc, &extra[1]); // refused: three connected, limit two
                sc.op("srv-q 0 73");
                sc.op("cli-q 6");
                sc.op("srv-disc 0 40");
                sc.op("srv-disc 0 41");
                sc.op("srv-dump 0");
                fast_connect(&mut sc, &extra[2]); // one connected, limit two
                sc.op("note expect-up:refused-below-the-limit");
                sc.op("srv-q 0 74");
                sc.op("note expect-up:refused-below-the-limit");
                sc.op("cli-q 7");
                for id in [40u64, 41, 72, 73, 74] {
                    sc.op(&format!("srv-q 0 {}", id));
                }
            }
        }
        // keep-alive pacing at ticks around the 250 ms send rate, timeout 1 s: a session with lossless keep-alives in both
        // directions stays up for 4 s of ticks of 100 / 249.999 / 250.001 / 400 ms
        51 => {
            let mut spec = base_spec(rng, 75, proto, key, 5, &hosts);
            spec.expire = 65;
            spec.seal_expire = 65;
            spec.timeout = 1;
            if let Some(c) = new_client(&mut sc, 5, &a4(10, 9, 0, 94, 4994), &spec, 5_000_000) {
                fast_connect(&mut sc, &c);
                for dt in [100_000u64, 249_999, 250_001, 400_000] {
                    let mut t = 0u64;
                    while t < 1_000_000 {
                        t += dt;
                        sc.op(&format!("srv-upd 0 {}", dt));
                        if let (_, Some(k)) = sc.opd(&format!("cli-upd {} {}", c.h, dt)) {
                            let d = sc.hist[k].bytes.clone();
                            sc.op(&format!("srv-rx 0 {} {}", c.addr, hex(&d)));
                        }
                        if let (_, Some(k)) = sc.opd("srv-updc 0 75") {
                            let d = sc.hist[k].bytes.clone();
                            sc.op(&format!("cli-rx {} {}", c.h, hex(&d)));
                        }
                    }
                    sc.op("note expect-up:live-session-lost");
                    sc.op(&format!("cli-q {}", c.h));
                    sc.op("note expect-up:live-session-lost");
                    sc.op("srv-q 0 75");
                }
            }
        }
        // token 40 is used from A (bound to A); B has a half-open handshake with its own token 41 and then presents token
        // 40: nothing (the binding table is consulted although B is in a handshake); both honest handshakes complete
        52 => {
            let (a, b) = (cls[0].addr.clone(), cls[1].addr.clone());
            let mut req: Vec<Vec<u8>> = vec![];
            let mut chal: Vec<Option<Vec<u8>>> = vec![None, None];
            for (i, ad) in [(0usize, a.clone()), (1, b.clone())] {
                if let (_, Some(k)) = sc.opd(&format!("cli-upd {} 0", i)) {
                    let rq = sc.hist[k].bytes.clone();
                    if let (_, Some(k)) = sc.opd(&format!("srv-rx 0 {} {}", ad, hex(&rq))) {
                        chal[i] = Some(sc.hist[k].bytes.clone());
                    }
                    req.push(rq);
                }
            }
            sc.op("srv-dump 0");
            if req.len() == 2 {
                let (out, e) = sc.opd(&format!("srv-rx 0 {} {}", b, hex(&req[0])));
                if let (true, Some(k)) = (out.starts_with("send "), e) {
                    let ch = sc.hist[k].bytes.clone();
                    answer_challenge(&mut sc, 0, &b, &ch, None);
                }
                sc.op("srv-dump 0");
                sc.op("srv-q 0 40");
            }
            // B's own handshake was not disturbed by the refused request; A's neither
            sc.op("srv-upd 0 250000");
            if let (_, Some(k)) = sc.opd("cli-upd 1 250000") {
                let rq = sc.hist[k].bytes.clone();
                if let (_, Some(k)) = sc.opd(&format!("srv-rx 0 {} {}", b, hex(&rq))) {
                    let ch = sc.hist[k].bytes.clone();
                    answer_challenge(&mut sc, 1, &b, &ch, Some("expect-connected"));
                }
            }
            if let Some(ch) = chal[0].clone() {
                answer_challenge(&mut sc, 0, &a, &ch, None);
            }
            sc.op("note expect-up:binding-broke-the-owner");
            sc.op("srv-q 0 40");
            sc.op("srv-q 0 41");
            sc.op("srv-dump 0");
        }
        // out-of-order arrival, then replays of the late one. 53: the client's keep-alive is overtaken by its payload; the
        // client dies; the late keep-alive is replayed every 2 s: the server's 5 s timeout fires all the same.
        // 54: the same towards the client (server keep-alive overtaken by a server payload, server silent, replays every
        // 400 ms, client timeout 2 s)
        53 => {
            fast_connect(&mut sc, &cls[0]);
            sc.op("srv-upd 0 250000");
            if let (_, Some(k)) = sc.opd("cli-upd 0 250000") {
                let ka = sc.hist[k].bytes.clone();
                if let (_, Some(k)) = sc.opd("cli-pay 0 6f7665727461") {
                    let p = sc.hist[k].bytes.clone();
                    sc.op("note expect-payload");
                    sc.op(&format!("srv-rx 0 {} {}", cls[0].addr, hex(&p)));
                }
                sc.op(&format!("srv-rx 0 {} {}", cls[0].addr, hex(&ka))); // late, first time, inside the window
                sc.op("srv-dump 0");
                for _ in 0..4 {
                    sc.op("srv-upd 0 2000000");
                    hostile_srv(&mut sc, "hostile", &cls[0].addr.clone(), &ka);
                    sc.op("srv-dump 0");
                    let out = sc.op("srv-updc 0 40");
                    sc.op("srv-q 0 40");
                    if out.starts_with("disconnected") {
                        break;
                    }
                }
            }
        }
        54 => {
            let mut spec = base_spec(rng, 77, proto, key, 5, &hosts);
            spec.expire = 65;
            spec.seal_expire = 65;
            spec.timeout = 2;
            if let Some(c) = new_client(&mut sc, 5, &a4(10, 9, 0, 95, 4995), &spec, 5_000_000) {
                fast_connect(&mut sc, &c);
                sc.op("srv-upd 0 250000");
                sc.op(&format!("cli-upd {} 250000", c.h));
                if let (_, Some(k)) = sc.opd("srv-updc 0 77") {
                    let ka = sc.hist[k].bytes.clone();
                    if let (_, Some(k)) = sc.opd("srv-pay 0 77 6f766572") {
                        let p = sc.hist[k].bytes.clone();
                        sc.op("note expect-payload");
                        sc.op(&format!("cli-rx {} {}", c.h, hex(&p)));
                    }
                    sc.op(&format!("cli-rx {} {}", c.h, hex(&ka)));
                    sc.op(&format!("cli-q {}", c.h));
                    for _ in 0..7 {
                        sc.op(&format!("cli-upd {} 400000", c.h));
                        hostile_cli(&mut sc, "hostile", c.h, &ka);
                        sc.op(&format!("cli-q {}", c.h));
                    }
                    sc.op(&format!("cli-dump {}", c.h));
                }
            }
        }
        // client id 78 is connected from A and has been silent for 6 s (timeout 15 s); a request with another token of id
        // 78 arrives from B: nothing — the session stays in the table until an event says otherwise
        55 => {
            let mut two: Vec<Cl> = vec![];
            for j in 0..2u8 {
                let mut spec = base_spec(rng, 78, proto, key, 5, &hosts);
                spec.expire = 65;
                spec.seal_expire = 65;
                spec.timeout = 15;
                spec.ud = vec![0xc0 + j; 256];
                if let Some(c) = new_client(&mut sc, 5 + j as u64, &a4(10, 9, 7, 1 + j, 4971 + j as u16), &spec, 5_000_000) {
                    two.push(c);
                }
            }
            if two.len() == 2 && fast_connect(&mut sc, &two[0]) {
                sc.op("srv-upd 0 6000000");
                sc.op("srv-dump 0");
                if let (_, Some(k)) = sc.opd("cli-upd 6 0") {
                    let rq = sc.hist[k].bytes.clone();
                    if let (_, Some(k)) = sc.opd(&format!("srv-rx 0 {} {}", two[1].addr, hex(&rq))) {
                        let ch = sc.hist[k].bytes.clone();
                        answer_challenge(&mut sc, 6, &two[1].addr.clone(), &ch, None);
                    }
                }
                sc.op("srv-dump 0");
                sc.op("srv-q 0 78");
                sc.op("srv-pay 0 78 6f6b");
                sc.op("srv-updc 0 78");
                sc.op("srv-dump 0");
            }
        }
        // a FULL server (2 seats) and a newcomer with a fresh valid token. X (81) completed the handshake and the server
        // has not processed a single keep-alive / payload from it since the response (its datagrams are lost for 2 s,
        // timeout 15 s); Y (82) keeps talking. The newcomer (83, new address) is denied and nothing else happens: no
        // event, ids still {81, 82}, client_addr / user_data of 81 intact, a later payload of X is routed to 81, payloads
        // for 81 are still produced, the newcomer is not connected on either side
        56 => {
            let mut three: Vec<Cl> = vec![];
            for j in 0..3u64 {
                let mut spec = base_spec(rng, 81 + j, proto, key, 5, &hosts);
                spec.expire = 65;
                spec.seal_expire = 65;
                spec.timeout = 15;
                spec.ud = vec![0xd0 + j as u8; 256];
                if let Some(c) = new_client(&mut sc, 5 + j, &a4(10, 9, 8, 1 + j as u8, 4981 + j as u16), &spec, 5_000_000) {
                    three.push(c);
                }
            }
            if three.len() == 3 && fast_connect(&mut sc, &three[0]) && fast_connect(&mut sc, &three[1]) {
                struct Peer {
                    h: u64,
                    addr: String,
                }
                let peer = |c: &Cl| Peer { h: c.h, addr: c.addr.clone() };
                let (x, y, n) = (peer(&three[0]), peer(&three[1]), peer(&three[2]));
                for _ in 0..8 {
                    sc.op("srv-upd 0 250000");
                    if let (_, Some(k)) = sc.opd(&format!("cli-upd {} 250000", y.h)) {
                        let d = sc.hist[k].bytes.clone();
                        sc.op(&format!("srv-rx 0 {} {}", y.addr, hex(&d)));
                    }
                    if let (_, Some(k)) = sc.opd("srv-updc 0 82") {
                        let d = sc.hist[k].bytes.clone();
                        sc.op(&format!("cli-rx {} {}", y.h, hex(&d)));
                    }
                    // X is alive and hears the server, but nothing it sends arrives
                    sc.op(&format!("cli-upd {} 250000", x.h));
                    if let (_, Some(k)) = sc.opd("srv-updc 0 81") {
                        let d = sc.hist[k].bytes.clone();
                        sc.op(&format!("cli-rx {} {}", x.h, hex(&d)));
                    }
                }
                sc.op("srv-dump 0");
                sc.op("srv-q 0 81");
                sc.op("srv-q 0 82");
                sc.op("note server-full");
                if let (_, Some(k)) = sc.opd(&format!("cli-upd {} 0", n.h)) {
                    let rq = sc.hist[k].bytes.clone();
                    if let (_, Some(k)) = sc.opd(&format!("srv-rx 0 {} {}", n.addr, hex(&rq))) {
                        // the denial (whatever the server answered) reaches the newcomer; were it a challenge, the
                        // handshake would go on
                        let ans = sc.hist[k].bytes.clone();
                        answer_challenge(&mut sc, n.h, &n.addr.clone(), &ans, None);
                    }
                }
                sc.op("srv-dump 0");
                sc.op("note expect-up:live-session-lost");
                sc.op("srv-q 0 81");
                sc.op("note expect-up:live-session-lost");
                sc.op("srv-q 0 82");
                sc.op("srv-q 0 83");
                sc.op(&format!("cli-q {}", n.h));
                // the sessions work as before, in both directions
                for (c, id) in [(&x, 81u64), (&y, 82)] {
                    if let (_, Some(k)) = sc.opd(&format!("cli-pay {} 7374696c6c{:02x}", c.h, id)) {
                        let p = sc.hist[k].bytes.clone();
                        sc.op("note expect-payload");
                        sc.op(&format!("srv-rx 0 {} {}", c.addr, hex(&p)));
                    }
                    if let (_, Some(k)) = sc.opd(&format!("srv-pay 0 {} 6f6b{:02x}", id, id)) {
                        let p = sc.hist[k].bytes.clone();
                        sc.op("note expect-payload");
                        sc.op(&format!("cli-rx {} {}", c.h, hex(&p)));
                    }
                    sc.op(&format!("srv-updc 0 {}", id));
                    sc.op("note expect-up:live-session-lost");
                    sc.op(&format!("cli-q {}", c.h));
                }
                sc.op("note expect-up:live-session-lost");
                sc.op("srv-q 0 81");
                sc.op("srv-dump 0");
            }
        }
        // 53 / 54 in a LONG session: 300 payloads went through that direction first (every slot of the 256-entry window
        // has been used), then a keep-alive and a payload are overtaken by a later payload and arrive late (first time,
        // inside the window: accepted, the payload surfaced once); the peer falls silent and the two late datagrams are
        // replayed (the payload at once, the keep-alive throughout the silence): nothing surfaces, nothing changes, the
        // timeout fires all the same.
        // 57: client -> server (timeout 5 s, replays every 2 s); 58: server -> client (timeout 2 s, replays every 400 ms)
        57 => {
            fast_connect(&mut sc, &cls[0]);
            let a = cls[0].addr.clone();
            for j in 0..300u32 {
                if let (_, Some(k)) = sc.opd(&format!("cli-pay 0 62{:04x}", j)) {
                    let p = sc.hist[k].bytes.clone();
                    sc.op(&format!("srv-rx 0 {} {}", a, hex(&p)));
                }
            }
            sc.op("srv-upd 0 250000");
            if let (_, Some(k)) = sc.opd("cli-upd 0 250000") {
                let ka = sc.hist[k].bytes.clone();
                let mut late: Vec<Vec<u8>> = vec![];
                for body in ["6c617465", "6f7665727461"] {
                    if let (_, Some(k)) = sc.opd(&format!("cli-pay 0 {}", body)) {
                        late.push(sc.hist[k].bytes.clone());
                    }
                }
                if late.len() == 2 {
                    sc.op("note expect-payload");
                    sc.op(&format!("srv-rx 0 {} {}", a, hex(&late[1])));
                    sc.op(&format!("srv-rx 0 {} {}", a, hex(&ka))); // late, first time, inside the window
                    sc.op("note expect-payload");
                    sc.op(&format!("srv-rx 0 {} {}", a, hex(&late[0]))); // late, first time, inside the window
                    sc.op("srv-dump 0");
                    // the late payload again, at once (a surfaced payload counts as the peer being heard: kept out of
                    // the silent phase, whose timeout is judged)
                    hostile_srv(&mut sc, "hostile", &a, &late[0]);
                    for _ in 0..4 {
                        sc.op("srv-upd 0 2000000");
                        hostile_srv(&mut sc, "hostile", &a, &ka);
                        sc.op("srv-dump 0");
                        let out = sc.op("srv-updc 0 40");
                        sc.op("srv-q 0 40");
                        if out.starts_with("disconnected") {
                            break;
                        }
                    }
                }
            }
        }
        58 => {
            let mut spec = base_spec(rng, 80, proto, key, 5, &hosts);
            spec.expire = 65;
            spec.seal_expire = 65;
            spec.timeout = 2;
            if let Some(c) = new_client(&mut sc, 5, &a4(10, 9, 0, 96, 4996), &spec, 5_000_000) {
                fast_connect(&mut sc, &c);
                for j in 0..300u32 {
                    if let (_, Some(k)) = sc.opd(&format!("srv-pay 0 80 63{:04x}", j)) {
                        let p = sc.hist[k].bytes.clone();
                        sc.op(&format!("cli-rx {} {}", c.h, hex(&p)));
                    }
                }
                sc.op("srv-upd 0 250000");
                sc.op(&format!("cli-upd {} 250000", c.h));
                if let (_, Some(k)) = sc.opd("srv-updc 0 80") {
                    let ka = sc.hist[k].bytes.clone();
                    let mut late: Vec<Vec<u8>> = vec![];
                    for body in ["6c617465", "6f766572"] {
                        if let (_, Some(k)) = sc.opd(&format!("srv-pay 0 80 {}", body)) {
                            late.push(sc.hist[k].bytes.clone());
                        }
                    }
                    if late.len() == 2 {
                        sc.op("note expect-payload");
                        sc.op(&format!("cli-rx {} {}", c.h, hex(&late[1])));
                        sc.op(&format!("cli-rx {} {}", c.h, hex(&ka)));
                        sc.op("note expect-payload");
                        sc.op(&format!("cli-rx {} {}", c.h, hex(&late[0])));
                        sc.op(&format!("cli-q {}", c.h));
                        hostile_cli(&mut sc, "hostile", c.h, &late[0]);
                        for _ in 0..7 {
                            sc.op(&format!("cli-upd {} 400000", c.h));
                            hostile_cli(&mut sc, "hostile", c.h, &ka);
                            sc.op(&format!("cli-q {}", c.h));
                        }
                        sc.op(&format!("cli-dump {}", c.h));
                    }
                }
            }
        }
        // the server's public address is a LOOPBACK address (127.0.0.1:5000). Tokens sealed under the server's key, right
        // protocol id, not expired, issued ONLY for sibling servers on other loopback addresses with the same port
        // (127.0.0.2:5000, [::1]:5000, both): not valid for this server, no answer, nothing changes. Control: a token that
        // lists the sibling first and this server second is answered and connects
        59 => {
            let sib4 = a4(127, 0, 0, 2, 5000);
            let lo6 = "6:00000000000000000000000000000001:5000".to_string();
            let lists = [sib4.clone(), lo6.clone(), format!("{},{}", sib4, lo6), format!("{},{}", sib4, hosts)];
            for (j, list) in lists.iter().enumerate() {
                let id = 84 + j as u64;
                let mut spec = base_spec(rng, id, proto, key, 5, list);
                spec.expire = 35;
                spec.seal_expire = 35;
                spec.timeout = 5;
                let from = a4(10, 9, 9, 1 + j as u8, 4950 + j as u16);
                if let Some(c) = new_client(&mut sc, 5 + j as u64, &from, &spec, 5_000_000) {
                    sc.op("srv-dump 0");
                    if let (_, Some(k)) = sc.opd(&format!("cli-upd {} 0", c.h)) {
                        let rq = sc.hist[k].bytes.clone();
                        if let (_, Some(k)) = sc.opd(&format!("srv-rx 0 {} {}", from, hex(&rq))) {
                            let ch = sc.hist[k].bytes.clone();
                            answer_challenge(&mut sc, c.h, &from, &ch, if j == 3 { Some("expect-connected") } else { None });
                        }
                    }
                    sc.op("srv-dump 0");
                    sc.op(&format!("srv-q 0 {}", id));
                }
            }
        }
        // a SMALL server (2 seats). Token 40 is used from A, its owner connects and leaves. Five other valid tokens are
        // presented after it (requests only, 250 ms apart, five addresses). Then token 40 — still unexpired — is presented
        // from another address B by a fresh client instance: nothing (the binding "first used from A" is not forgotten
        // after 2 * max_clients other tokens)
        60 => {
            let (a, b) = (cls[0].addr.clone(), a4(10, 6, 6, 6, 4966));
            if fast_connect(&mut sc, &cls[0]) {
                if let (_, Some(k)) = sc.opd("cli-disc 0") {
                    let d = sc.hist[k].bytes.clone();
                    sc.op(&format!("srv-rx 0 {} {}", a, hex(&d)));
                }
                sc.op("srv-q 0 40");
                let mut others: Vec<(u64, String)> = vec![(cls[1].h, cls[1].addr.clone())];
                for j in 0..4u64 {
                    let mut spec = base_spec(rng, 90 + j, proto, key, 5, &hosts);
                    spec.expire = 35;
                    spec.seal_expire = 35;
                    spec.timeout = 5;
                    if let Some(c) = new_client(&mut sc, 5 + j, &a4(10, 9, 10, 1 + j as u8, 4930 + j as u16), &spec, 5_000_000) {
                        others.push((c.h, c.addr.clone()));
                    }
                }
                for (h, ad) in others.iter() {
                    sc.op("srv-upd 0 250000");
                    if let (_, Some(k)) = sc.opd(&format!("cli-upd {} 0", h)) {
                        let rq = sc.hist[k].bytes.clone();
                        sc.op(&format!("srv-rx 0 {} {}", ad, hex(&rq)));
                    }
                }
                sc.op("srv-dump 0");
                if sc.op(&format!("cli-new 9 5000000 {}", cls[0].tok.hex)) == "ok" {
                    if let (_, Some(k)) = sc.opd("cli-upd 9 0") {
                        let rq = sc.hist[k].bytes.clone();
                        if let (_, Some(k)) = sc.opd(&format!("srv-rx 0 {} {}", b, hex(&rq))) {
                            let ch = sc.hist[k].bytes.clone();
                            answer_challenge(&mut sc, 9, &b, &ch, None);
                        }
                    }
                }
                sc.op("srv-dump 0");
                sc.op("srv-q 0 40");
            }
        }
        // two half-open sessions for ONE client id (88; two valid tokens, addresses A and B, both requests answered before
        // either response). A completes the handshake; B, still half-open, gives up: `NetcodeClient::disconnect()` while
        // connecting, its Disconnect datagram reaches the server. No event; the session of 88 at A is still in the table,
        // lookups and payload routing refer to it, its traffic flows in both directions
        61 => {
            let mut two: Vec<Cl> = vec![];
            for j in 0..2u8 {
                let mut spec = base_spec(rng, 88, proto, key, 5, &hosts);
                spec.expire = 35;
                spec.seal_expire = 35;
                spec.timeout = 5;
                spec.ud = vec![0xe0 + j; 256];
                if let Some(c) = new_client(&mut sc, 5 + j as u64, &a4(10, 9, 11, 1 + j, 4961 + j as u16), &spec, 5_000_000) {
                    two.push(c);
                }
            }
            if two.len() == 2 {
                let (a, b) = (two[0].addr.clone(), two[1].addr.clone());
                let mut chal: Vec<Vec<u8>> = vec![];
                for c in two.iter() {
                    if let (_, Some(k)) = sc.opd(&format!("cli-upd {} 0", c.h)) {
                        let rq = sc.hist[k].bytes.clone();
                        if let (_, Some(k)) = sc.opd(&format!("srv-rx 0 {} {}", c.addr, hex(&rq))) {
                            chal.push(sc.hist[k].bytes.clone());
                        }
                    }
                }
                sc.op("srv-dump 0");
                if chal.len() == 2 {
                    answer_challenge(&mut sc, 5, &a, &chal[0], Some("expect-connected"));
                    sc.op("srv-q 0 88");
                    sc.op(&format!("cli-rx 6 {}", hex(&chal[1])));
                    if let (_, Some(k)) = sc.opd("cli-disc 6") {
                        let d = sc.hist[k].bytes.clone();
                        sc.op("srv-dump 0");
                        sc.op(&format!("srv-rx 0 {} {}", b, hex(&d)));
                        sc.op("srv-dump 0");
                    }
                    sc.op("srv-q 0 88");
                    if let (_, Some(k)) = sc.opd("cli-pay 5 7374696c6c") {
                        let p = sc.hist[k].bytes.clone();
                        sc.op("note expect-payload");
                        sc.op(&format!("srv-rx 0 {} {}", a, hex(&p)));
                    }
                    if let (_, Some(k)) = sc.opd("srv-pay 0 88 6f6b") {
                        let p = sc.hist[k].bytes.clone();
                        sc.op("note expect-payload");
                        sc.op(&format!("cli-rx 5 {}", hex(&p)));
                    }
                    sc.op("srv-updc 0 88");
                    sc.op("srv-q 0 88");
                    sc.op("cli-q 5");
                    sc.op("srv-dump 0");
                }
            }
        }
        // a Response that exists in two copies (a duplicate in the network). One copy connects the client, the session runs
        // and ENDS before the token expires (40: the server disconnects it; 41: the client leaves); only then the second
        // copy arrives from the same address: nothing — no second session out of one connection attempt, so whatever the
        // server seals next (payload, keep-alive, disconnect) it does not seal under that session's key again
        62 => {
            for (i, id) in [(0usize, 40u64), (1, 41)] {
                let a = cls[i].addr.clone();
                let Some(k) = sc.opd(&format!("cli-upd {} 0", i)).1 else { continue };
                let rq = sc.hist[k].bytes.clone();
                let Some(k) = sc.opd(&format!("srv-rx 0 {} {}", a, hex(&rq))).1 else { continue };
                let ch = sc.hist[k].bytes.clone();
                sc.op(&format!("cli-rx {} {}", i, hex(&ch)));
                let Some(k) = sc.opd(&format!("cli-upd {} 0", i)).1 else { continue };
                let resp = sc.hist[k].bytes.clone();
                sc.op("note expect-connected");
                if let (_, Some(k)) = sc.opd(&format!("srv-rx 0 {} {}", a, hex(&resp))) {
                    let ka = sc.hist[k].bytes.clone();
                    sc.op(&format!("cli-rx {} {}", i, hex(&ka)));
                }
                if let (_, Some(k)) = sc.opd(&format!("srv-pay 0 {} 01", id)) {
                    let p = sc.hist[k].bytes.clone();
                    sc.op("note expect-payload");
                    sc.op(&format!("cli-rx {} {}", i, hex(&p)));
                }
                if i == 0 {
                    if let (_, Some(k)) = sc.opd(&format!("srv-disc 0 {}", id)) {
                        let d = sc.hist[k].bytes.clone();
                        sc.op(&format!("cli-rx {} {}", i, hex(&d)));
                    }
                } else if let (_, Some(k)) = sc.opd(&format!("cli-disc {}", i)) {
                    let d = sc.hist[k].bytes.clone();
                    sc.op(&format!("srv-rx 0 {} {}", a, hex(&d)));
                }
                sc.op("srv-dump 0");
                sc.op("srv-upd 0 250000");
                sc.op(&format!("srv-rx 0 {} {}", a, hex(&resp))); // the delayed second copy
                sc.op("srv-dump 0");
                sc.op(&format!("srv-q 0 {}", id));
                sc.op(&format!("srv-pay 0 {} 02ff", id));
                sc.op("srv-upd 0 250000");
                sc.op(&format!("srv-updc 0 {}", id));
                sc.op(&format!("srv-disc 0 {}", id));
                sc.op("srv-dump 0");
            }
        }
        // a server that has been up for a minute (59.95 s when the victim's request arrives). The victim holds its
        // challenge; two ticks later (60.05 s after construction) the server answers ONE MORE connection request — 63: a
        // second honest client's, 64: a late network duplicate of the victim's own request — and only then the victim's
        // Response arrives. Nothing is lost from here on, five send periods: the victim (63: both clients) is connected
        // on both sides. (A challenge stays answerable however many other challenges the server has issued since.)
        63 | 64 => {
            sc.op("srv-upd 0 59950000");
            let va = a4(10, 9, 12, 1, 4971);
            let oa = a4(10, 9, 12, 2, 4972);
            let mut specs: Vec<TokSpec> = vec![];
            for j in 0..2u64 {
                let mut spec = base_spec(rng, 90 + j, proto, key, 64, &hosts);
                spec.expire = 99;
                spec.seal_expire = 99;
                spec.timeout = 5;
                spec.ud = vec![0xf0 + j as u8; 256];
                specs.push(spec);
            }
            let Some(v) = new_client(&mut sc, 5, &va, &specs[0], 64_950_000) else { return };
            let Some(k) = sc.opd("cli-upd 5 0").1 else { return };
            let rq = sc.hist[k].bytes.clone();
            let Some(k) = sc.opd(&format!("srv-rx 0 {} {}", va, hex(&rq))).1 else { return };
            let ch = sc.hist[k].bytes.clone();
            sc.op(&format!("cli-rx 5 {}", hex(&ch)));
            sc.op("srv-dump 0");
            sc.op("srv-upd 0 100000");
            let mut live: Vec<(u64, u64, String)> = vec![(v.h, 90, va.clone())];
            if case == 63 {
                let Some(o) = new_client(&mut sc, 6, &oa, &specs[1], 65_050_000) else { return };
                let Some(k) = sc.opd("cli-upd 6 0").1 else { return };
                let rq2 = sc.hist[k].bytes.clone();
                let Some(k) = sc.opd(&format!("srv-rx 0 {} {}", oa, hex(&rq2))).1 else { return };
                let ch2 = sc.hist[k].bytes.clone();
                sc.op(&format!("cli-rx 6 {}", hex(&ch2)));
                live.push((o.h, 91, oa.clone()));
            } else {
                // the second copy of the request: answered with another challenge, which the client (already answering
                // the first one) receives as well
                let Some(k) = sc.opd(&format!("srv-rx 0 {} {}", va, hex(&rq))).1 else { return };
                let ch2 = sc.hist[k].bytes.clone();
                sc.op(&format!("cli-rx 5 {}", hex(&ch2)));
            }
            sc.op("srv-dump 0");
            // lossless from here on: the victim's clock catches up with the server's in its first update
            let mut first = true;
            for _round in 0..5 {
                for (h, id, a) in live.iter() {
                    let dt = if first && *h == 5 { 100_000 } else if first { 0 } else { 250_000 };
                    if let (_, Some(k)) = sc.opd(&format!("cli-upd {} {}", h, dt)) {
                        let d = sc.hist[k].bytes.clone();
                        if let (_, Some(k)) = sc.opd(&format!("srv-rx 0 {} {}", a, hex(&d))) {
                            let r = sc.hist[k].bytes.clone();
                            sc.op(&format!("cli-rx {} {}", h, hex(&r)));
                        }
                    }
                    if let (_, Some(k)) = sc.opd(&format!("srv-updc 0 {}", id)) {
                        let r = sc.hist[k].bytes.clone();
                        sc.op(&format!("cli-rx {} {}", h, hex(&r)));
                    }
                }
                first = false;
                sc.op("srv-upd 0 250000");
            }
            for (h, id, _) in live.iter() {
                sc.op("note expect-up:handshake-stalled");
                sc.op(&format!("cli-q {}", h));
                sc.op("note expect-up:handshake-stalled");
                sc.op(&format!("srv-q 0 {}", id));
            }
            sc.op("srv-dump 0");
        }
        // a four-seat server with three sessions in table slots 0, 1, 2 (ids 40, 41, 93). One that does NOT hold the highest
        // used slot leaves (65: the first, by its own Disconnect datagram; 66: the middle one, disconnected by the server),
        // then a fourth client (id 94) completes the handshake. The two sessions nobody ended and the new one go on as if
        // nothing had happened: the server still knows each of them under its id, payloads flow both ways, keep-alives
        // keep them up on both sides.
        65 | 66 => {
            let mut more: Vec<Cl> = vec![];
            for j in 0..2u64 {
                let mut spec = base_spec(rng, 93 + j, proto, key, 5, &hosts);
                spec.expire = 35;
                spec.seal_expire = 35;
                spec.timeout = 5;
                spec.ud = vec![0xc0 + j as u8; 256];
                if let Some(c) = new_client(&mut sc, 5 + j, &a4(10, 9, 13, 1 + j as u8, 4981 + j as u16), &spec, 5_000_000) {
                    more.push(c);
                }
            }
            if more.len() < 2 {
                return;
            }
            let all: Vec<(u64, u64, String)> = vec![(0, 40, cls[0].addr.clone()), (1, 41, cls[1].addr.clone()), (5, 93, more[0].addr.clone()), (6, 94, more[1].addr.clone())];
            if !fast_connect(&mut sc, &cls[0]) || !fast_connect(&mut sc, &cls[1]) || !fast_connect(&mut sc, &more[0]) {
                return;
            }
            let exchange = |sc: &mut Sc, who: &[(u64, u64, String)], tag: u8, judged: bool| {
                for (h, id, a) in who.iter() {
                    if judged {
                        sc.op("note expect-up:other-session-lost");
                        sc.op(&format!("srv-q 0 {}", id));
                    }
                    if let (_, Some(k)) = sc.opd(&format!("cli-pay {} {:02x}{:02x}0b", h, *id as u8, tag)) {
                        let d = sc.hist[k].bytes.clone();
                        sc.op("note expect-payload");
                        sc.op(&format!("srv-rx 0 {} {}", a, hex(&d)));
                    }
                    if let (_, Some(k)) = sc.opd(&format!("srv-pay 0 {} {:02x}{:02x}d0", id, *id as u8, tag)) {
                        let d = sc.hist[k].bytes.clone();
                        sc.op("note expect-payload");
                        sc.op(&format!("cli-rx {} {}", h, hex(&d)));
                    }
                }
            };
            exchange(&mut sc, &all[..3], 0, false);
            sc.op("srv-dump 0");
            let leaver = if case == 65 { 0usize } else { 1 };
            if case == 65 {
                if let (_, Some(k)) = sc.opd("cli-disc 0") {
                    let d = sc.hist[k].bytes.clone();
                    sc.op(&format!("srv-rx 0 {} {}", all[0].2, hex(&d)));
                }
            } else if let (_, Some(k)) = sc.opd("srv-disc 0 41") {
                let d = sc.hist[k].bytes.clone();
                sc.op(&format!("cli-rx 1 {}", hex(&d)));
            }
            sc.op("srv-dump 0");
            let rest: Vec<(u64, u64, String)> = all.iter().enumerate().filter(|(i, _)| *i != leaver).map(|(_, x)| x.clone()).collect();
            exchange(&mut sc, &rest[..2], 1, false);
            // the fourth client joins
            if !fast_connect(&mut sc, &more[1]) {
                return;
            }
            sc.op("note others-changed");
            sc.op("srv-dump 0");
            for round in 0..3u8 {
                exchange(&mut sc, &rest, 2 + round, true);
                sc.op("srv-upd 0 250000");
                for (h, id, a) in rest.iter() {
                    if let (_, Some(k)) = sc.opd(&format!("srv-updc 0 {}", id)) {
                        let r = sc.hist[k].bytes.clone();
                        sc.op(&format!("cli-rx {} {}", h, hex(&r)));
                    }
                    if let (_, Some(k)) = sc.opd(&format!("cli-upd {} 250000", h)) {
                        let d = sc.hist[k].bytes.clone();
                        sc.op(&format!("srv-rx 0 {} {}", a, hex(&d)));
                    }
                }
            }
            for (h, id, _) in rest.iter() {
                sc.op("note expect-up:other-session-lost");
                sc.op(&format!("srv-q 0 {}", id));
                sc.op("note expect-up:other-session-lost");
                sc.op(&format!("cli-q {}", h));
            }
            sc.op("srv-dump 0");
        }
        // four sessions in table slots 0..3 (ids 40, 41, 97, 98) on a four-seat server; the limit is lowered to 3 (nobody
        // leaves: id 98 now sits in a slot at the new limit); the sessions in slots 0 and 1 leave by their own Disconnect
        // datagrams (2 connected, limit 3); a client with a valid token for ANOTHER id (9) then runs its handshake from the
        // ip:port of the session in slot 3, twice a send period apart. Lookups by id and payloads both ways for the
        // sessions that stay — in particular the one whose address is used — before and after; the addresses of the
        // connected clients are pairwise distinct at all times, payloads go to / come from the session authenticated for the id
        67 => {
            let mut more: Vec<Cl> = vec![];
            for j in 0..3u64 {
                let (id, a) = if j < 2 { (97 + j, a4(10, 9, 14, 1 + j as u8, 4991 + j as u16)) } else { (9, a4(10, 9, 14, 9, 4999)) };
                let mut spec = base_spec(rng, id, proto, key, 5, &hosts);
                spec.expire = 35;
                spec.seal_expire = 35;
                spec.timeout = 5;
                spec.ud = vec![0xb0 + j as u8; 256];
                if let Some(c) = new_client(&mut sc, 5 + j, &a, &spec, 5_000_000) {
                    more.push(c);
                }
            }
            if more.len() < 3 {
                return;
            }
            if !fast_connect(&mut sc, &cls[0]) || !fast_connect(&mut sc, &cls[1]) || !fast_connect(&mut sc, &more[0]) || !fast_connect(&mut sc, &more[1]) {
                return;
            }
            // (the newcomer's own address is never used: its datagrams arrive from the address of id 98)
            let shared = more[1].addr.clone();
            let stay: Vec<(u64, u64, String)> = vec![(5, 97, more[0].addr.clone()), (6, 98, shared.clone())];
            let look = |sc: &mut Sc, tag: u8| {
                sc.op("srv-dump 0");
                for id in [40u64, 41, 97, 98, 9] {
                    sc.op(&format!("srv-q 0 {}", id));
                }
                for (h, id, a) in stay.iter() {
                    if let (_, Some(k)) = sc.opd(&format!("cli-pay {} {:02x}{:02x}0b", h, *id as u8, tag)) {
                        let d = sc.hist[k].bytes.clone();
                        sc.op("note expect-payload");
                        sc.op(&format!("srv-rx 0 {} {}", a, hex(&d)));
                    }
                    if let (_, Some(k)) = sc.opd(&format!("srv-pay 0 {} {:02x}{:02x}d0", id, *id as u8, tag)) {
                        let d = sc.hist[k].bytes.clone();
                        sc.op("note expect-payload");
                        sc.op(&format!("cli-rx {} {}", h, hex(&d)));
                    }
                }
                // (whatever the newcomer's client object and the server have for id 9 at this point)
                if let (_, Some(k)) = sc.opd(&format!("cli-pay 7 09{:02x}0b", tag)) {
                    let d = sc.hist[k].bytes.clone();
                    sc.op(&format!("srv-rx 0 {} {}", shared, hex(&d)));
                }
                if let (_, Some(k)) = sc.opd(&format!("srv-pay 0 9 09{:02x}d0", tag)) {
                    let d = sc.hist[k].bytes.clone();
                    sc.op(&format!("cli-rx 7 {}", hex(&d)));
                }
                sc.op("srv-dump 0");
            };
            sc.op("srv-setmax 0 3");
            look(&mut sc, 0);
            for i in 0..2usize {
                if let (_, Some(k)) = sc.opd(&format!("cli-disc {}", i)) {
                    let d = sc.hist[k].bytes.clone();
                    sc.op(&format!("srv-rx 0 {} {}", cls[i].addr, hex(&d)));
                }
            }
            look(&mut sc, 1);
            // id 9 knocks from the address of id 98
            for attempt in 0..2u8 {
                let dt = if attempt == 0 { 0 } else { 250_000 };
                if attempt == 1 {
                    sc.op("srv-upd 0 250000");
                }
                if let (_, Some(k)) = sc.opd(&format!("cli-upd 7 {}", dt)) {
                    let rq = sc.hist[k].bytes.clone();
                    if let (_, Some(k)) = sc.opd(&format!("srv-rx 0 {} {}", shared, hex(&rq))) {
                        let ch = sc.hist[k].bytes.clone();
                        sc.op(&format!("cli-rx 7 {}", hex(&ch)));
                        if let (_, Some(k)) = sc.opd("cli-upd 7 0") {
                            let resp = sc.hist[k].bytes.clone();
                            if let (_, Some(k)) = sc.opd(&format!("srv-rx 0 {} {}", shared, hex(&resp))) {
                                let ka = sc.hist[k].bytes.clone();
                                sc.op(&format!("cli-rx 7 {}", hex(&ka)));
                            }
                        }
                    }
                }
                look(&mut sc, 2 + attempt);
            }
            // the sessions that stayed are kept up by keep-alives on both sides
            sc.op("srv-upd 0 250000");
            for (h, id, a) in stay.iter() {
                if let (_, Some(k)) = sc.opd(&format!("srv-updc 0 {}", id)) {
                    let r = sc.hist[k].bytes.clone();
                    sc.op(&format!("cli-rx {} {}", h, hex(&r)));
                }
                if let (_, Some(k)) = sc.opd(&format!("cli-upd {} 250000", h)) {
                    let d = sc.hist[k].bytes.clone();
                    sc.op(&format!("srv-rx 0 {} {}", a, hex(&d)));
                }
            }
            look(&mut sc, 4);
        }
        // a session whose client falls silent right after its Response was accepted (the server never hears a keep-alive:
        // the client stays unconfirmed), token expiry (10 s) earlier than the time-out (15 s). The server is updated second
        // by second past the expiry, its keep-alives are delivered: the session is in the table and in the lookups as
        // long as the event stream says so; at 12 s the client speaks again: its payload is surfaced
        68 => {
            let mut spec = base_spec(rng, 99, proto, key, 5, &hosts);
            spec.expire = 10;
            spec.seal_expire = 10;
            spec.timeout = 15;
            spec.ud = vec![0x99; 256];
            let Some(c) = new_client(&mut sc, 5, &a4(10, 9, 15, 1, 4931), &spec, 5_000_000) else { return };
            if !fast_connect(&mut sc, &c) {
                return;
            }
            sc.op("srv-dump 0");
            for _ in 0..7 {
                sc.op("srv-upd 0 1000000");
                if let (_, Some(k)) = sc.opd("srv-updc 0 99") {
                    let d = sc.hist[k].bytes.clone();
                    sc.op(&format!("cli-rx 5 {}", hex(&d)));
                }
                sc.op("srv-q 0 99");
                sc.op("srv-dump 0");
            }
            if let (_, Some(k)) = sc.opd("cli-pay 5 6c617465") {
                let d = sc.hist[k].bytes.clone();
                sc.op("note expect-payload");
                sc.op(&format!("srv-rx 0 {} {}", c.addr, hex(&d)));
            }
            if let (_, Some(k)) = sc.opd("srv-pay 0 99 6f6b") {
                let d = sc.hist[k].bytes.clone();
                sc.op("note expect-payload");
                sc.op(&format!("cli-rx 5 {}", hex(&d)));
            }
            sc.op("srv-q 0 99");
            sc.op("srv-dump 0");
        }
        // ids 40 (slot 0) and 41 (slot 1) on a four-seat server; the server's last payload goes to 40; 40 leaves by its
        // Disconnect datagram; id 93 joins (slot 0) and nobody is sent anything; id 40 comes back with a new token from a
        // new address (slot 2); the server sends to 40, 93 and 41 in turn. Every datagram is handed to the client that
        // lives at the address it was sent to: a payload is obtained only by the client it was generated for
        69 => {
            let mut more: Vec<Cl> = vec![];
            for (j, id) in [(0u64, 93u64), (1, 40)] {
                let mut spec = base_spec(rng, id, proto, key, 5, &hosts);
                spec.expire = 35;
                spec.seal_expire = 35;
                spec.timeout = 5;
                spec.ud = vec![0xd0 + j as u8; 256];
                if let Some(c) = new_client(&mut sc, 5 + j, &a4(10, 9, 16, 1 + j as u8, 4941 + j as u16), &spec, 5_000_000) {
                    more.push(c);
                }
            }
            if more.len() < 2 || !fast_connect(&mut sc, &cls[0]) || !fast_connect(&mut sc, &cls[1]) {
                return;
            }
            // handle by address (the first session of id 40 is gone by the time its second one exists)
            let at: Vec<(String, u64)> = vec![(cls[1].addr.clone(), 1), (more[0].addr.clone(), 5), (more[1].addr.clone(), 6)];
            if let (_, Some(k)) = sc.opd("srv-pay 0 41 4100") {
                let d = sc.hist[k].bytes.clone();
                sc.op("note expect-payload");
                sc.op(&format!("cli-rx 1 {}", hex(&d)));
            }
            if let (_, Some(k)) = sc.opd("srv-pay 0 40 4000") {
                let d = sc.hist[k].bytes.clone();
                sc.op("note expect-payload");
                sc.op(&format!("cli-rx 0 {}", hex(&d)));
            }
            if let (_, Some(k)) = sc.opd("cli-disc 0") {
                let d = sc.hist[k].bytes.clone();
                sc.op(&format!("srv-rx 0 {} {}", cls[0].addr, hex(&d)));
            }
            sc.op("srv-dump 0");
            if !fast_connect(&mut sc, &more[0]) {
                return;
            }
            sc.op("srv-dump 0");
            if !fast_connect(&mut sc, &more[1]) {
                return;
            }
            sc.op("note others-changed");
            sc.op("srv-dump 0");
            for (round, ids) in [[40u64, 93, 41], [40, 41, 93]].iter().enumerate() {
                for id in ids {
                    sc.op("note expect-up:other-session-lost");
                    sc.op(&format!("srv-q 0 {}", id));
                    let (out, e) = sc.opd(&format!("srv-pay 0 {} {:02x}{:02x}d0", id, *id as u8, round + 1));
                    if let Some(k) = e {
                        let d = sc.hist[k].bytes.clone();
                        let to = toks(&out).get(1).map(|x| x.to_string()).unwrap_or_default();
                        if let Some((_, h)) = at.iter().find(|(a, _)| *a == to) {
                            sc.op("note expect-payload");
                            sc.op(&format!("cli-rx {} {}", h, hex(&d)));
                        }
                    }
                }
            }
            sc.op("srv-dump 0");
        }
        // sequence 2^64-1 (the window's EMPTY sentinel) from the owner of a session
        _ => {
            fast_connect(&mut sc, &cls[0]);
            let d = forge(4, u64::MAX, proto, &cls[0].tok.spec.c2s, &[0u8; 8]);
            sc.op(&format!("srv-rx 0 {} {}", cls[0].addr, hex(&d)));
            sc.op("srv-dump 0");
            sc.op(&format!("srv-rx 0 {} {}", cls[0].addr, hex(&d)));
            let d = forge(4, u64::MAX - 256, proto, &cls[0].tok.spec.c2s, &[0u8; 8]);
            sc.op(&format!("srv-rx 0 {} {}", cls[0].addr, hex(&d)));
            sc.op("srv-dump 0");
        }
    }
}


// =============================================================================================
// profile nc-known — the one recorded finding (C04): a connect token may be used again from the same
// address, so a recorded handshake re-establishes a finished session and its old traffic is surfaced again
// =============================================================================================

fn known_script(_case: usize, f: &mut dyn FnMut(&str) -> String) {
    let mut rng = Rng::new(0xC04);
    let rng = &mut rng;
    let mut sc = Sc::new(f);
    let key = k32(rng);
    let ckey = k32(rng);
    let proto = 7u64;
    sc.op(&format!("srv-new 0 5000000 2 {} 1 {} {} {}", proto, hex(&key), hex(&ckey), SRV_A));
    let addr = a4(10, 9, 1, 1, 4911);
    let mut spec = base_spec(rng, 77, proto, key, 5, SRV_A);
    spec.expire = 35;
    spec.seal_expire = 35;
    spec.timeout = 5;
    let cl = match new_client(&mut sc, 0, &addr, &spec, 5_000_000) {
        Some(c) => c,
        None => return,
    };
    sc.op("note setup-done");
    if !fast_connect(&mut sc, &cl) {
        return;
    }
    let req = sc.hist[0].bytes.clone();
    let resp = sc.hist[2].bytes.clone();
    // payload P: generated once, surfaced once
    let p = match sc.opd("cli-pay 0 50415951") {
        (_, Some(k)) => sc.hist[k].bytes.clone(),
        _ => return,
    };
    sc.op(&format!("srv-rx 0 {} {}", addr, hex(&p)));
    // a replay inside the session is refused
    hostile_srv(&mut sc, "hostile", &addr, &p);
    // the session ends
    if let (_, Some(k)) = sc.opd("cli-disc 0") {
        let d = sc.hist[k].bytes.clone();
        sc.op(&format!("srv-rx 0 {} {}", addr, hex(&d)));
    }
    sc.op("srv-dump 0");
    // the recorded request and response re-establish it (same token, same address) …
    sc.op(&format!("srv-rx 0 {} {}", addr, hex(&req)));
    sc.op(&format!("srv-rx 0 {} {}", addr, hex(&resp)));
    sc.op("srv-dump 0");
    // … and P's datagram is surfaced a second time
    sc.op(&format!("srv-rx 0 {} {}", addr, hex(&p)));
    sc.op("srv-dump 0");
}

fn known_ops(case: usize) -> Vec<String> {
    fixed_ops("known", case, known_script)
}

/// the op list of a regression case: the script is run once against a private implementation
/// world only to obtain the datagrams it forwards (an unwind ends the list at the failing op)
fn regress_ops(case: usize) -> Vec<String> {
    fixed_ops("regress", case, regress_script)
}

/// Number of ops each fixed script issues on the unchanged implementation (the scripts are run against the
/// implementation to obtain the datagrams they forward, so their op lists depend on it: early exits, guarded blocks).
/// A different number means the script took another path: the clause-specific part of the case may be missing.
/// To refresh after editing a script: `NC_FIXED_COUNTS=1 harness run --props C10 --profiles nc-regress,…` prints them.
fn fixed_expected(tag: &str, case: usize) -> Option<usize> {
    const REGRESS: &[usize] = &[
        30, 30, 30, 12, 16, 17, 24, 23, 30, 19, 21, 35, 33, 49, 551, 60, 85, 35, 50, 59, 69, 56, 43, 34, 26, 148, 104, 41, 49, 26, 44, 63, 36, 31, 38, 116, 26, 34, 70, 52, 541, 31, 42, 33, 30, 53, 52, 54, 103, 92, 63, 125, 32, 45, 68, 29, 129, 652, 675, 45, 50, 41, 52, 78, 50, 198, 198, 165, 61, 81,
    ];
    match tag {
        "regress" => REGRESS.get(case).copied(),
        "known" => Some(25),
        "table-full" => Some(6159),
        "pending-full" => Some(8273),
        "entry-cursor" => Some(2073),
        "prefix-sweep" => Some(8227),
        "seq-wrap" => Some(16404),
        _ => None,
    }
}

/// every fixed case is framed: `note case <tag> <n>` … `note end-of-case <ops the script issued>`
fn fixed_ops(tag: &str, case: usize, script: fn(usize, &mut dyn FnMut(&str) -> String)) -> Vec<String> {
    let mut world = NcWorld::default();
    let mut ops: Vec<String> = vec![format!("note case {} {}", tag, case)];
    let mut dead = false;
    {
        let mut f = |op: &str| -> String {
            if dead {
                return "dead".to_string();
            }
            ops.push(op.to_string());
            match std::panic::catch_unwind(std::panic::AssertUnwindSafe(|| world.exec(op))) {
                Ok(o) => o,
                Err(_) => {
                    dead = true;
                    "panic".to_string()
                }
            }
        };
        script(case, &mut f);
    }
    let n = ops.len() - 1;
    if std::env::var("NC_FIXED_COUNTS").is_ok() {
        eprintln!("FIXED-COUNT {} {} {}", tag, case, n);
    }
    ops.push(format!("note end-of-case {}", n));
    ops
}

/// (all netcode properties) a fixed case ran its script to the end the way it does on the unchanged implementation: the
/// number of ops the script issued is the recorded one. Judged only on intact traces (frame present, length = recorded
/// number + 2), so a minimised trace is never a counterexample.
fn oracle_fixed_complete(ops: &[String], outs: &[String]) -> Option<OracleFail> {
    let _ = outs;
    let first = toks(ops.first()?);
    let last = toks(ops.last()?);
    if first.len() != 4 || first[0] != "note" || first[1] != "case" || last.len() != 3 || last[1] != "end-of-case" {
        return None;
    }
    let n = last[2].parse::<usize>().ok()?;
    if ops.len() != n + 2 {
        return None;
    }
    let case = first[3].parse::<usize>().ok()?;
    let want = fixed_expected(first[2], case)?;
    if n != want {
        return fail(
            ops.len() - 1,
            &format!("fixed-script-diverged:{}:{}", first[2], case),
            format!("the fixed case {} {} issued {} ops, on the unchanged implementation it issues {}: the script took another path (an exchange it relies on did not happen as scripted)", first[2], case, n, want),
        );
    }
    None
}


// =============================================================================================
// profile nc-failover (C18, C17): tokens listing 2..4 server addresses of which only one answers; loss or delay of the
// first packets on every address; then a lossless phase after which both sides must be connected, and a short session.
// Variant `early` (1 in 3): the first address answers the first request with a challenge and is silent from then on,
// so the fail-over happens in the RESPONSE phase (sealed responses were already sent under the client-to-server key)
// =============================================================================================

struct FoClient {
    cl: Cl,
    real_at: usize,
    timeout_us: u64,
    /// client clock
    t_us: u64,
    /// when the client first addressed the real server
    reached_us: Option<u64>,
    /// length of the faulty window after `reached_us`
    window_us: u64,
    delay_instead_of_loss: bool,
    held: Vec<usize>,
    done: bool,
    /// fail-over in the RESPONSE phase: the first address of the token answers the first request with a challenge
    /// and is silent from then on (the client seals responses for it until its timeout)
    early: bool,
    early_done: bool,
}

/// A token of 1, 2, 31 or 32 addresses none of which answers: the client tries every one of them for more than its
/// timeout and ends timed out (client.rs `server_addr_index >= 32` / `None => NoMoreServers`); with the time-out
/// disabled (0 / negative) it stays on the first address until the token expires. Every update is bracketed by dumps.
fn all_dead(sc: &mut Sc, rng: &mut Rng, srv: &Srv0) {
    let now_s = srv.now_us / 1_000_000;
    let n = rng.pick(&[1usize, 2, 31, 32, 32]);
    let list: Vec<String> = (0..n).map(|j| a4(10, 78, 0, j as u8, 5900 + j as u16)).collect();
    let mut spec = base_spec(rng, 650, srv.proto, srv.key, now_s, &list.join(","));
    let timeout = rng.pick(&[1i32, 1, 2, 0, -1]);
    spec.timeout = timeout;
    spec.expire = now_s + if timeout > 0 { 300 } else { rng.pick(&[2u64, 3]) };
    spec.seal_expire = spec.expire;
    let cl = new_client(sc, 0, &a4(10, 6, 0, 9, 4609), &spec, srv.now_us);
    sc.op("note setup-done");
    if cl.is_none() {
        return;
    }
    let t_us = timeout.max(1) as u64 * 1_000_000;
    let mut steps = 0;
    while steps < 3 * n + 12 {
        steps += 1;
        let dt = if timeout > 0 { rng.pick(&[t_us + 50_000, t_us + 1, t_us / 2 + 30_000, t_us]) } else { rng.pick(&[500_000u64, 1_000_000, 250_000]) };
        sc.op("cli-dump 0");
        sc.op(&format!("cli-upd 0 {}", dt));
        sc.op("cli-dump 0");
        let q = sc.op("cli-q 0");
        if field(&q, "disconnected") == Some("1") {
            break;
        }
    }
    // it stays down
    sc.op("cli-upd 0 250000");
    sc.op("cli-pay 0 00");
    sc.op("cli-upd 0 1000000");
    sc.op("cli-disc 0");
    sc.op("cli-q 0");
    sc.op("cli-dump 0");
}

fn script_failover(rng: &mut Rng, _tier: Tier, f: &mut dyn FnMut(&str) -> String) {
    let mut sc = Sc::new(f);
    let max = rng.pick(&[2usize, 3, 4]);
    let srv = setup_server(&mut sc, rng, max);
    if rng.chance(1, 8) {
        all_dead(&mut sc, rng, &srv);
        return;
    }
    let now_s = srv.now_us / 1_000_000;
    // rarely: a (nearly) full token of 31 / 32 addresses whose last or last-but-one address is the only live one
    let big = rng.chance(1, 10);
    let n_clients = if big { 1 } else { rng.range(1, 2) as usize };
    let mut fcs: Vec<FoClient> = vec![];
    for i in 0..n_clients {
        let n = if big { rng.pick(&[31usize, 32, 32]) } else { rng.range(2, 4) as usize };
        let k = if big {
            if rng.chance(1, 4) {
                n - 2
            } else {
                n - 1
            }
        } else if rng.chance(1, 6) {
            0
        } else {
            rng.range(1, n as u64 - 1) as usize
        };
        let list: Vec<String> = (0..n).map(|j| if j == k { SRV_A.to_string() } else { a4(10, 77, i as u8, j as u8, 5800 + j as u16) }).collect();
        let mut spec = base_spec(rng, 600 + i as u64, srv.proto, srv.key, now_s, &list.join(","));
        spec.timeout = if big { 1 } else { rng.pick(&[1, 2, 3]) };
        spec.expire = now_s + 300;
        spec.seal_expire = spec.expire;
        let addr = a4(10, 6, 0, 1 + i as u8, 4600 + i as u16);
        let timeout_us = spec.timeout as u64 * 1_000_000;
        if let Some(cl) = new_client(&mut sc, i as u64, &addr, &spec, srv.now_us) {
            // the faulty window leaves the client enough of its timeout to complete afterwards
            let window_us = rng.pick(&[0u64, 100_000, 200_000, 300_000, timeout_us - 700_000]).min(timeout_us - 700_000);
            let delay_instead_of_loss = rng.chance(1, 2);
            let early = !big && k >= 1 && rng.chance(1, 3);
            fcs.push(FoClient { cl, real_at: k, timeout_us, t_us: srv.now_us, reached_us: None, window_us, delay_instead_of_loss, held: vec![], done: false, early, early_done: false });
        }
    }
    // abandoned half-open handshakes of other addresses (valid tokens that never answer their challenge): they hold no
    // seat — fewer clients than the limit are connected, so the honest clients below still get in
    for j in 0..rng.below(max as u64 + 1) {
        let mut spec = base_spec(rng, 680 + j, srv.proto, srv.key, now_s, SRV_A);
        spec.expire = now_s + 300;
        spec.seal_expire = spec.expire;
        if let Some(t) = mk_token(&mut sc, &spec) {
            let d = request_datagram(srv.proto, spec.expire, &spec.xnonce, &t.private);
            sc.op(&format!("srv-rx 0 {} {}", a4(10, 6, 9, j as u8, 4690 + j as u16), hex(&d)));
        }
    }
    sc.op("note setup-done");
    if fcs.is_empty() {
        return;
    }
    let mut connected: Vec<u64> = vec![];
    let mut lossless_since: Vec<Option<u64>> = vec![None; fcs.len()];
    let mut ticks = 0;
    while ticks < 200 && sc.n < 320 && !fcs.iter().all(|c| c.done) {
        ticks += 1;
        // coarse steps while every client still waits on a silent address, fine steps near the live one
        let all_waiting = fcs.iter().all(|c| c.reached_us.is_none() && c.real_at > 0);
        let dt: u64 = if all_waiting && big {
            rng.pick(&[1_050_000u64, 1_050_000, 600_000])
        } else if all_waiting {
            rng.pick(&[500_000u64, 700_000, 1_000_000])
        } else {
            rng.pick(&[50_000u64, 100_000, 100_000])
        };
        sc.op(&format!("srv-upd 0 {}", dt));
        for id in connected.clone() {
            let (_, e) = sc.opd(&format!("srv-updc 0 {}", id));
            if let Some(k) = e {
                let dg = sc.hist[k].clone();
                for c in fcs.iter() {
                    if c.cl.addr == dg.to {
                        sc.op(&format!("cli-rx {} {}", c.cl.h, hex(&dg.bytes)));
                    }
                }
            }
        }
        for ci in 0..fcs.len() {
            if fcs[ci].done {
                continue;
            }
            let h = fcs[ci].cl.h;
            let (_, e) = sc.opd(&format!("cli-upd {} {}", h, dt));
            fcs[ci].t_us += dt;
            let q = sc.op(&format!("cli-q {}", h));
            if fcs[ci].reached_us.is_none() && e.is_none() && field(&q, "disconnected") == Some("1") {
                // it gave up although its token lists a live server it never tried
                sc.op("note expect-up:failover-not-connected");
                sc.op(&format!("cli-q {}", h));
                fcs[ci].done = true;
                continue;
            }
            let mut outgoing: Vec<usize> = vec![];
            if let Some(k) = e {
                if sc.hist[k].to == SRV_A {
                    if fcs[ci].reached_us.is_none() {
                        fcs[ci].reached_us = Some(fcs[ci].t_us);
                    }
                    outgoing.push(k);
                } else if fcs[ci].early && !fcs[ci].early_done && sc.hist[k].bytes.first().map(|b| b & 0xf) == Some(0) {
                    // the first address is alive just long enough to answer one request with a challenge (server 0
                    // plays its part: same keys); everything the client sends there afterwards is lost
                    fcs[ci].early_done = true;
                    let d = sc.hist[k].bytes.clone();
                    if let (_, Some(e)) = sc.opd(&format!("srv-rx 0 {} {}", fcs[ci].cl.addr, hex(&d))) {
                        let chal = sc.hist[e].bytes.clone();
                        sc.op(&format!("cli-rx {} {}", h, hex(&chal)));
                    }
                }
                // datagrams towards the silent addresses vanish
            }
            let in_window = match fcs[ci].reached_us {
                Some(r) => fcs[ci].t_us < r + fcs[ci].window_us,
                None => false,
            };
            if in_window {
                if fcs[ci].delay_instead_of_loss {
                    fcs[ci].held.extend(outgoing);
                }
                continue;
            }
            if fcs[ci].reached_us.is_some() && lossless_since[ci].is_none() {
                lossless_since[ci] = Some(fcs[ci].t_us);
            }
            // lossless from here on: what was held back arrives first (late), then the fresh datagram
            let mut to_server: Vec<usize> = std::mem::take(&mut fcs[ci].held);
            to_server.extend(outgoing);
            let mut rounds = 0;
            while !to_server.is_empty() && rounds < 4 {
                rounds += 1;
                let mut replies: Vec<usize> = vec![];
                for k in to_server.drain(..) {
                    let d = sc.hist[k].bytes.clone();
                    let (out, e) = sc.opd(&format!("srv-rx 0 {} {}", fcs[ci].cl.addr, hex(&d)));
                    if let Some(id) = out.strip_prefix("connected ").and_then(|r| r.split(' ').next()).and_then(p_u64) {
                        connected.push(id);
                    }
                    if let Some(e) = e {
                        replies.push(e);
                    }
                }
                for k in replies {
                    let d = sc.hist[k].bytes.clone();
                    sc.op(&format!("cli-rx {} {}", h, hex(&d)));
                }
                // a challenge makes the client answer at once
                let (_, e) = sc.opd(&format!("cli-upd {} 0", h));
                if let Some(k) = e {
                    if sc.hist[k].to == SRV_A {
                        to_server.push(k);
                    }
                }
            }
            // judged once the lossless phase has lasted three send periods (plus the step granularity)
            if let Some(since) = lossless_since[ci] {
                if fcs[ci].t_us >= since + 3 * 250_000 + 100_000 {
                    sc.op("note expect-up:failover-not-connected");
                    sc.op(&format!("cli-q {}", h));
                    sc.op("note expect-up:failover-not-connected");
                    sc.op(&format!("srv-q 0 {}", fcs[ci].cl.tok.spec.id));
                    fcs[ci].done = true;
                }
            }
            let _ = q;
        }
    }
    // a short session of every client that got through: the sequence numbers sealed from here on are the ones
    // the handshake (on whichever addresses) has not used
    for ci in 0..fcs.len() {
        let h = fcs[ci].cl.h;
        let n = rng.range(1, 4);
        for j in 0..n {
            if let (_, Some(k)) = sc.opd(&format!("cli-pay {} {}", h, hex(&rng.payload(1 + j as usize)))) {
                let d = sc.hist[k].bytes.clone();
                sc.op(&format!("srv-rx 0 {} {}", fcs[ci].cl.addr, hex(&d)));
            }
        }
        if let (_, Some(k)) = sc.opd(&format!("cli-upd {} 250000", h)) {
            if sc.hist[k].to == SRV_A {
                let d = sc.hist[k].bytes.clone();
                sc.op(&format!("srv-rx 0 {} {}", fcs[ci].cl.addr, hex(&d)));
            }
        }
    }
    sc.op("srv-dump 0");
    for c in fcs.iter() {
        sc.op(&format!("cli-dump {}", c.cl.h));
    }
}


// =============================================================================================
// profile nc-table-full (C05, one fixed case): the connect-token table (2048 entries) is filled with distinct
// valid tokens, so that the replacement of the OLDEST entry is what protects a token's address binding
// =============================================================================================

/// a connection request datagram assembled by hand from the public fields and the sealed private part
fn request_datagram(proto: u64, expire: u64, xnonce: &[u8; 24], private: &[u8]) -> Vec<u8> {
    let mut d = vec![0u8];
    d.extend_from_slice(b"NETCODE 1.02\0");
    d.extend_from_slice(&proto.to_le_bytes());
    d.extend_from_slice(&expire.to_le_bytes());
    d.extend_from_slice(xnonce);
    d.extend_from_slice(private);
    d
}

fn table_full_script(_case: usize, f: &mut dyn FnMut(&str) -> String) {
    let mut rng = Rng::new(0x7AB1E);
    let rng = &mut rng;
    let mut sc = Sc::new(f);
    let key = k32(rng);
    let ckey = k32(rng);
    let proto = 7u64;
    sc.op(&format!("srv-new 0 5000000 4 {} 1 {} {} {}", proto, hex(&key), hex(&ckey), SRV_A));
    sc.op("note setup-done");
    let (c2s, s2c) = (k32(rng), k32(rng));
    let filler_addr = a4(10, 8, 0, 1, 4800);
    // one cheap token: same keys, no user data; client id and xnonce differ
    let mut filler = |sc: &mut Sc, n: u64| {
        let mut xnonce = [0u8; 24];
        xnonce[..8].copy_from_slice(&n.to_le_bytes());
        let out = sc.op(&format!("ptok-seal {} 605 {} {} {} 5 {} {} {} -", proto, hex(&xnonce), hex(&key), 100_000 + n, SRV_A, hex(&c2s), hex(&s2c)));
        if let Some(p) = out.strip_prefix("ok ").and_then(unhex) {
            sc.op(&format!("srv-rx 0 {} {}", filler_addr, hex(&request_datagram(proto, 605, &xnonce, &p))));
        }
        sc.op("srv-upd 0 1000");
    };
    for n in 0..2048u64 {
        filler(&mut sc, n);
    }
    sc.op("srv-dump 0");
    // the token T, first used from A
    let a = a4(10, 8, 0, 2, 4802);
    let b = a4(10, 8, 0, 3, 4803);
    let mut spec = base_spec(rng, 4242, proto, key, 5, SRV_A);
    spec.expire = 605;
    spec.seal_expire = 605;
    spec.timeout = 5;
    let cl = match new_client(&mut sc, 0, &a, &spec, 7_048_000) {
        Some(c) => c,
        None => return,
    };
    let req = match sc.opd("cli-upd 0 0") {
        (_, Some(k)) => sc.hist[k].bytes.clone(),
        _ => return,
    };
    sc.op(&format!("srv-rx 0 {} {}", a, hex(&req)));
    sc.op("srv-upd 0 1000");
    // one more fresh token
    filler(&mut sc, 5000);
    // T replayed from B: it is bound to A
    if let (_, Some(k)) = sc.opd(&format!("srv-rx 0 {} {}", b, hex(&req))) {
        let chal = sc.hist[k].bytes.clone();
        sc.op(&format!("cli-rx 0 {}", hex(&chal)));
        if let (_, Some(k)) = sc.opd("cli-upd 0 0") {
            let resp = sc.hist[k].bytes.clone();
            sc.op(&format!("srv-rx 0 {} {}", b, hex(&resp)));
        }
    }
    // its owner can still go on
    sc.op(&format!("srv-rx 0 {} {}", a, hex(&req)));
    let _ = cl;
    sc.op("srv-dump 0");
}

fn table_full_ops(case: usize) -> Vec<String> {
    fixed_ops("table-full", case, table_full_script)
}

// =============================================================================================
// profile nc-pending-full (C19 / C10 / C18, one fixed case): NETCODE_MAX_PENDING_CLIENTS (4096) half-open handshakes from
// distinct addresses. A further address is not served, an address that IS pending still is (and completes its
// handshake), the seat that frees is taken by the next newcomer, and once the short-lived tokens have expired the
// table has room again.
// =============================================================================================

const PENDING_MAX: u64 = 4096;

fn pending_full_script(_case: usize, f: &mut dyn FnMut(&str) -> String) {
    let mut rng = Rng::new(0x9E4D);
    let rng = &mut rng;
    let mut sc = Sc::new(f);
    let key = k32(rng);
    let ckey = k32(rng);
    let proto = 7u64;
    sc.op(&format!("srv-new 0 5000000 8 {} 1 {} {} {}", proto, hex(&key), hex(&ckey), SRV_A));
    sc.op("note setup-done");
    let (c2s, s2c) = (k32(rng), k32(rng));
    let addr_of = |n: u64| a4(10, 100 + (n >> 8) as u8, (n & 255) as u8, 7, 7000 + (n & 1023) as u16);
    // cheap short-lived tokens (expiry second 8, the server's clock says 5): same keys, no user data
    let n_short = PENDING_MAX - 3;
    for n in 0..n_short {
        let mut xnonce = [0u8; 24];
        xnonce[..8].copy_from_slice(&n.to_le_bytes());
        let out = sc.op(&format!("ptok-seal {} 8 {} {} {} 5 {} {} {} -", proto, hex(&xnonce), hex(&key), 200_000 + n, SRV_A, hex(&c2s), hex(&s2c)));
        if let Some(p) = out.strip_prefix("ok ").and_then(unhex) {
            sc.op(&format!("srv-rx 0 {} {}", addr_of(n), hex(&request_datagram(proto, 8, &xnonce, &p))));
        }
    }
    // real clients with long-lived tokens: three of them fill the table, three find it full
    let mut cls: Vec<Cl> = vec![];
    let mut reqs: Vec<Vec<u8>> = vec![];
    for i in 0..6u64 {
        let mut spec = base_spec(rng, 4300 + i, proto, key, 5, SRV_A);
        spec.expire = 605;
        spec.seal_expire = 605;
        spec.timeout = 5;
        if let Some(c) = new_client(&mut sc, i, &addr_of(5000 + i), &spec, 5_000_000) {
            if let (_, Some(k)) = sc.opd(&format!("cli-upd {} 0", i)) {
                reqs.push(sc.hist[k].bytes.clone());
                cls.push(c);
            }
        }
    }
    if cls.len() < 6 {
        return;
    }
    let mut chal: Vec<Option<Vec<u8>>> = vec![None; 6];
    for i in 0..3 {
        if let (_, Some(k)) = sc.opd(&format!("srv-rx 0 {} {}", cls[i].addr, hex(&reqs[i]))) {
            chal[i] = Some(sc.hist[k].bytes.clone());
        }
    }
    sc.op("srv-dump 0"); // 4096 pending entries
    // a further address: not served (no answer)
    sc.op(&format!("srv-rx 0 {} {}", cls[3].addr, hex(&reqs[3])));
    sc.op(&format!("srv-rx 0 {} {}", cls[4].addr, hex(&reqs[4])));
    // an address that is pending is served: retransmitted request -> a fresh challenge
    if let (_, Some(k)) = sc.opd(&format!("srv-rx 0 {} {}", cls[0].addr, hex(&reqs[0]))) {
        chal[0] = Some(sc.hist[k].bytes.clone());
    }
    // … as is a short-lived one of the crowd
    {
        let n = 17u64;
        let mut xnonce = [0u8; 24];
        xnonce[..8].copy_from_slice(&n.to_le_bytes());
        let out = sc.op(&format!("ptok-seal {} 8 {} {} {} 5 {} {} {} -", proto, hex(&xnonce), hex(&key), 200_000 + n, SRV_A, hex(&c2s), hex(&s2c)));
        if let Some(p) = out.strip_prefix("ok ").and_then(unhex) {
            sc.op(&format!("srv-rx 0 {} {}", addr_of(n), hex(&request_datagram(proto, 8, &xnonce, &p))));
        }
    }
    // … and its handshake completes while the table is full
    if let Some(ch) = chal[0].clone() {
        answer_challenge(&mut sc, 0, &cls[0].addr.clone(), &ch, Some("expect-connected"));
    }
    sc.op("srv-q 0 4300");
    // one entry less: the next newcomer is served, the one after it is not
    if let (_, Some(k)) = sc.opd(&format!("srv-rx 0 {} {}", cls[3].addr, hex(&reqs[3]))) {
        chal[3] = Some(sc.hist[k].bytes.clone());
    }
    sc.op(&format!("srv-rx 0 {} {}", cls[4].addr, hex(&reqs[4])));
    // the short-lived tokens expire (clock 9 s > 8): their entries vanish at the next update
    sc.op("srv-upd 0 4000000");
    sc.op("srv-dump 0");
    for i in [4usize, 5] {
        if let (_, Some(k)) = sc.opd(&format!("cli-upd {} 4000000", i)) {
            let req = sc.hist[k].bytes.clone();
            if let (_, Some(k)) = sc.opd(&format!("srv-rx 0 {} {}", cls[i].addr, hex(&req))) {
                let ch = sc.hist[k].bytes.clone();
                answer_challenge(&mut sc, i as u64, &cls[i].addr.clone(), &ch, Some("expect-connected"));
            }
        }
    }
    // the ones that were half-open all along finish as well
    for i in [1usize, 3] {
        if let Some(ch) = chal[i].clone() {
            answer_challenge(&mut sc, i as u64, &cls[i].addr.clone(), &ch, Some("expect-connected"));
        }
    }
    for i in [0u64, 1, 3, 4, 5] {
        sc.op("note expect-up:pending-table-blocked");
        sc.op(&format!("srv-q 0 {}", 4300 + i));
    }
    for i in 0..6u64 {
        sc.op(&format!("srv-q 0 {}", 4300 + i));
    }
    sc.op("srv-updc 0 4300");
    sc.op("srv-dump 0");
}

fn pending_full_ops(case: usize) -> Vec<String> {
    fixed_ops("pending-full", case, pending_full_script)
}

// =============================================================================================
// profile nc-entry-cursor (C19 / C05, one fixed case): token T1 is used from A; A repeats its request 2047 times (every
// one answered, none of them a new token); a fresh token T2 arrives from C; T1 replayed from B != A gets nothing — the
// address binding of T1 is still in the 2048-entry table
// =============================================================================================

fn entry_cursor_script(_case: usize, f: &mut dyn FnMut(&str) -> String) {
    let mut rng = Rng::new(0xC19);
    let rng = &mut rng;
    let mut sc = Sc::new(f);
    let key = k32(rng);
    let ckey = k32(rng);
    let proto = 7u64;
    sc.op(&format!("srv-new 0 5000000 4 {} 1 {} {} {}", proto, hex(&key), hex(&ckey), SRV_A));
    let addr = [a4(10, 13, 0, 1, 4131), a4(10, 13, 0, 2, 4132), a4(10, 13, 0, 3, 4133)];
    let mut cls: Vec<Cl> = vec![];
    for i in 0..2u64 {
        let mut spec = base_spec(rng, 8200 + i, proto, key, 5, SRV_A);
        spec.expire = 605;
        spec.seal_expire = 605;
        spec.timeout = 5;
        if let Some(c) = new_client(&mut sc, i, &addr[i as usize * 2], &spec, 5_000_000) {
            cls.push(c);
        }
    }
    sc.op("note setup-done");
    if cls.len() < 2 {
        return;
    }
    let (req1, req2) = match (sc.opd("cli-upd 0 0").1, sc.opd("cli-upd 1 0").1) {
        (Some(a), Some(b)) => (hex(&sc.hist[a].bytes), hex(&sc.hist[b].bytes)),
        _ => return,
    };
    let mut chal: Option<Vec<u8>> = None;
    for n in 0..2048 {
        if let (_, Some(k)) = sc.opd(&format!("srv-rx 0 {} {}", addr[0], req1)) {
            chal = Some(sc.hist[k].bytes.clone());
        }
        if n % 512 == 0 {
            sc.op("srv-upd 0 1000");
        }
    }
    // a fresh token from somewhere else
    sc.op(&format!("srv-rx 0 {} {}", addr[2], req2));
    // the first token from a third address: bound to A
    sc.op(&format!("srv-rx 0 {} {}", addr[1], req1));
    sc.op("srv-dump 0");
    // its owner goes on
    if let (_, Some(k)) = sc.opd(&format!("srv-rx 0 {} {}", addr[0], req1)) {
        chal = Some(sc.hist[k].bytes.clone());
    }
    if let Some(ch) = chal {
        answer_challenge(&mut sc, 0, &addr[0], &ch, Some("expect-connected"));
    }
    sc.op(&format!("srv-rx 0 {} {}", addr[1], req1));
    sc.op("srv-q 0 8200");
}

// =============================================================================================
// profile nc-prefix-sweep (C07, one fixed case): every prefix byte 0..=255 (packet type x announced sequence length) at
// the lengths 18 / 34 / 326 / 1078, handed to the server from a connected, a pending and an unknown address and to a
// connected, a responding, a requesting and a disconnected client — each bracketed by state dumps: nothing changes,
// nothing is answered; genuine traffic afterwards is still accepted
// =============================================================================================

fn prefix_sweep_script(_case: usize, f: &mut dyn FnMut(&str) -> String) {
    let mut rng = Rng::new(0x5EE9);
    let rng = &mut rng;
    let mut sc = Sc::new(f);
    let key = k32(rng);
    let ckey = k32(rng);
    let proto = 7u64;
    sc.op(&format!("srv-new 0 5000000 4 {} 1 {} {} {}", proto, hex(&key), hex(&ckey), SRV_A));
    let mut cls: Vec<Cl> = vec![];
    for i in 0..4u64 {
        let mut spec = base_spec(rng, 8300 + i, proto, key, 5, SRV_A);
        spec.expire = 605;
        spec.seal_expire = 605;
        spec.timeout = 15;
        if let Some(c) = new_client(&mut sc, i, &a4(10, 14, 0, 1 + i as u8, 4140 + i as u16), &spec, 5_000_000) {
            cls.push(c);
        }
    }
    sc.op("note setup-done");
    if cls.len() < 4 || !fast_connect(&mut sc, &cls[0]) {
        return;
    }
    // c1: challenged, holds the challenge; c2: has sent its request (lost); c3: disconnected
    let mut chal1: Option<Vec<u8>> = None;
    if let (_, Some(k)) = sc.opd("cli-upd 1 0") {
        let req = sc.hist[k].bytes.clone();
        if let (_, Some(k)) = sc.opd(&format!("srv-rx 0 {} {}", cls[1].addr, hex(&req))) {
            let ch = sc.hist[k].bytes.clone();
            sc.op(&format!("cli-rx 1 {}", hex(&ch)));
            chal1 = Some(ch);
        }
    }
    sc.op("cli-upd 2 0");
    sc.op("cli-disc 3");
    let unknown = a4(192, 168, 9, 9, 9999);
    for len in [18usize, 34, 326, 1078] {
        for prefix in 0..=255u8 {
            let mut d = rng.bytes(len);
            d[0] = prefix;
            match prefix % 7 {
                0 => hostile_srv(&mut sc, "hostile", &cls[0].addr.clone(), &d),
                1 => hostile_srv(&mut sc, "hostile", &cls[1].addr.clone(), &d),
                2 => hostile_srv(&mut sc, "hostile", &unknown, &d),
                k => hostile_cli(&mut sc, "hostile", (k - 3) as u64, &d),
            };
            // (each prefix meets each target once per 7 lengths-and-rounds: rotate)
            let d2 = {
                let mut x = rng.bytes(len);
                x[0] = prefix;
                x
            };
            match (prefix as usize + len) % 7 {
                0 => hostile_srv(&mut sc, "hostile", &cls[0].addr.clone(), &d2),
                1 => hostile_srv(&mut sc, "hostile", &cls[1].addr.clone(), &d2),
                2 => hostile_srv(&mut sc, "hostile", &unknown, &d2),
                k => hostile_cli(&mut sc, "hostile", (k - 3) as u64, &d2),
            };
        }
    }
    // genuine traffic afterwards
    if let (_, Some(k)) = sc.opd("cli-pay 0 6f6b") {
        let d = sc.hist[k].bytes.clone();
        sc.op("note expect-payload");
        sc.op(&format!("srv-rx 0 {} {}", cls[0].addr, hex(&d)));
    }
    if let (_, Some(k)) = sc.opd("srv-pay 0 8300 6f6b") {
        let d = sc.hist[k].bytes.clone();
        sc.op("note expect-payload");
        sc.op(&format!("cli-rx 0 {}", hex(&d)));
    }
    if chal1.is_some() {
        if let (_, Some(k)) = sc.opd("cli-upd 1 0") {
            let d = sc.hist[k].bytes.clone();
            sc.op(&format!("srv-rx 0 {} {}", cls[1].addr, hex(&d)));
        }
    }
    sc.op("srv-dump 0");
    sc.op("srv-q 0 8301");
}

fn prefix_sweep_ops(case: usize) -> Vec<String> {
    fixed_ops("prefix-sweep", case, prefix_sweep_script)
}

fn entry_cursor_ops(case: usize) -> Vec<String> {
    fixed_ops("entry-cursor", case, entry_cursor_script)
}

// =============================================================================================
// profile nc-seq-wrap (C17, one fixed heavy case): many thousands of handshake replies to one peer between the
// handshake replies to another, all inside one connection attempt of the latter: 8192 and 8193 replies apart (a reply
// counter kept in a window of 8191 / 8192 / 8193 values would hand A the same sequence number twice under its key).
// Datagrams are referred to by history index (`@k`) to keep the op lines short.
// =============================================================================================

fn seq_wrap_script(_case: usize, f: &mut dyn FnMut(&str) -> String) {
    let mut rng = Rng::new(0x5E9);
    let rng = &mut rng;
    let mut sc = Sc::new(f);
    let key = k32(rng);
    let ckey = k32(rng);
    let proto = 7u64;
    sc.op(&format!("srv-new 0 5000000 4 {} 1 {} {} {}", proto, hex(&key), hex(&ckey), SRV_A));
    let addr = [a4(10, 12, 0, 1, 4121), a4(10, 12, 0, 2, 4122)];
    let mut cls: Vec<Cl> = vec![];
    for i in 0..2u64 {
        let mut spec = base_spec(rng, 8100 + i, proto, key, 5, SRV_A);
        spec.expire = 605;
        spec.seal_expire = 605;
        spec.timeout = 5;
        spec.ud = vec![];
        if let Some(c) = new_client(&mut sc, i, &addr[i as usize], &spec, 5_000_000) {
            cls.push(c);
        }
    }
    sc.op("note setup-done");
    if cls.len() < 2 {
        return;
    }
    let (ka, kb) = match (sc.opd("cli-upd 0 0").1, sc.opd("cli-upd 1 0").1) {
        (Some(a), Some(b)) => (a, b),
        _ => return,
    };
    // history indices are those of the world: every emitted datagram counts, in op order
    let mut emitted = sc.hist.len();
    let (idx_a, idx_b) = (ka, kb);
    let mut last_chal: Option<usize> = None;
    let mut knock_a = |sc: &mut Sc, emitted: &mut usize, last: &mut Option<usize>| {
        let (_, e) = sc.opd(&format!("srv-rx 0 {} @{}", addr[0], idx_a));
        if let Some(k) = e {
            *last = Some(k);
            *emitted += 1;
        }
    };
    knock_a(&mut sc, &mut emitted, &mut last_chal);
    for gap in [8191u32, 8192] {
        for _ in 0..gap {
            if sc.opd(&format!("srv-rx 0 {} @{}", addr[1], idx_b)).1.is_some() {
                emitted += 1;
            }
        }
        sc.op("cli-upd 0 250000"); // (A's retransmission is due; the recorded request is byte-identical)
        knock_a(&mut sc, &mut emitted, &mut last_chal);
    }
    let _ = emitted;
    sc.op("srv-dump 0");
    // A's handshake completes with the latest challenge
    if let Some(k) = last_chal {
        let ch = sc.hist[k].bytes.clone();
        answer_challenge(&mut sc, 0, &addr[0], &ch, None);
    }
    sc.op("srv-dump 0");
}

fn seq_wrap_ops(case: usize) -> Vec<String> {
    fixed_ops("seq-wrap", case, seq_wrap_script)
}

// =============================================================================================
// profile nc-window (C04, wire level): packets of the three replay-protected kinds at sequences
// {s, s±1, s±255, s±256, s±257, s±512} pushed through ONE window in random order with repetitions
// =============================================================================================

fn script_window(rng: &mut Rng, _tier: Tier, f: &mut dyn FnMut(&str) -> String) {
    let mut sc = Sc::new(f);
    let proto = rng.pick(&[0u64, 7, u64::MAX]);
    let key = hex(&k32(rng));
    for _ in 0..3 {
        let s: u64 = rng.pick(&[600u64, 1000, 1 << 32, 1 << 63, u64::MAX - 600, 256 * 7, 255 + 512, u64::MAX - 513, u64::MAX - 520]);
        let deltas: [i64; 11] = [0, 1, -1, 255, -255, 256, -256, 257, -257, 512, -512];
        let mut dgs: Vec<(String, u64, u8)> = vec![];
        let n = rng.range(5, 9);
        for i in 0..n {
            let d = if i < 2 { [0i64, 256][i as usize] } else { rng.pick(&deltas) };
            let seq = (s as i128 + d as i128) as u64;
            let kind = if i == 0 { 4 } else if i == 1 { 5 } else { rng.pick(&[4u8, 5, 5, 6]) };
            let term = match kind {
                4 => "ka 0 0".to_string(),
                5 => {
                    let n = rng.below(4) as usize + 1;
                    format!("pay {}", hex(&rng.payload(n)))
                }
                _ => "disc".to_string(),
            };
            let out = sc.op(&format!("nc-enc 1400 {} {} {} {}", proto, seq, key, term));
            if let Some(h) = out.strip_prefix("ok ") {
                dgs.push((h.to_string(), seq, kind));
            }
        }
        if dgs.len() < 2 {
            continue;
        }
        let mut list: Vec<String> = vec![];
        let len = rng.range(6, 18);
        for _ in 0..len {
            list.push(rng.pick(&dgs).0);
        }
        if rng.chance(1, 2) {
            // an entry taken over by a later sequence, rewritten by the replay of the older packet, then the later one again
            let at = rng.below(list.len() as u64 + 1) as usize;
            let pat = vec![dgs[0].0.clone(), dgs[1].0.clone(), dgs[0].0.clone(), dgs[1].0.clone()];
            for (j, x) in pat.into_iter().enumerate() {
                list.insert((at + j).min(list.len()), x);
            }
        }
        sc.op(&format!("nc-stream {} {} {}", proto, key, list.join(",")));
    }
}

/// C04 (wire level): one window, one datagram, at most one successful decode of a payload / disconnect packet
fn oracle_window_once(ops: &[String], outs: &[String]) -> Option<OracleFail> {
    for i in 0..ops.len().min(outs.len()) {
        let t = toks(&ops[i]);
        if t.len() != 4 || t[0] != "nc-stream" {
            continue;
        }
        let o = toks(&outs[i]);
        if o.is_empty() || o[0] == "panic" || o[0] == "dead" || o[0] == "bad-op" {
            continue;
        }
        let dgs: Vec<&str> = t[3].split(',').collect();
        let res: Vec<&str> = o[0].split(',').collect();
        let mut accepted: HashSet<&str> = HashSet::new();
        // converse ("a genuine packet is surfaced the first time it arrives provided its sequence number is less than 256
        // behind the highest one already accepted"): sequence of each datagram = the <seq> of the `nc-enc` that made it
        let seq_of: HashMap<&str, u128> = (0..i)
            .filter_map(|k| {
                let e = toks(&ops[k]);
                if e.len() >= 6 && e[0] == "nc-enc" && e[4] == t[2] && e[2] == t[1] {
                    Some((outs[k].strip_prefix("ok ")?, p_u64(e[3])? as u128))
                } else {
                    None
                }
            })
            .collect();
        // (judged only when the sequence of every datagram of the stream is known: a minimised trace is no counterexample)
        let all_known = dgs.iter().all(|d| seq_of.contains_key(d));
        let mut got: HashSet<u128> = HashSet::new();
        let mut top: Option<u128> = None;
        for (j, d) in dgs.iter().enumerate() {
            let r = res.get(j).cloned().unwrap_or("");
            if let (true, Some(q)) = (all_known, seq_of.get(d)) {
                let fresh = !got.contains(q) && top.map(|m| q + 256 > m).unwrap_or(true);
                if fresh && !r.starts_with("ok:") {
                    return fail(i, "fresh-in-window-rejected:wire", format!("datagram #{} of the stream (sequence {}, never accepted before, highest accepted {:?}) was refused: {}", j, q, top, r));
                }
                if r.starts_with("ok:") {
                    got.insert(*q);
                    top = Some(top.map(|m| m.max(*q)).unwrap_or(*q));
                }
            }
            if r.starts_with("ok:") && (r.ends_with(":pay") || r.ends_with(":disc")) {
                if !accepted.insert(d) {
                    return fail(i, "surfaced-twice:wire", format!("datagram #{} of the stream ({}) was decoded successfully a second time through the same replay window", j, r));
                }
            }
        }
    }
    None
}

/// Traces that carry a liveness expectation (`note expect-up`) are not minimised: dropping updates or deliveries
/// would break the hypotheses of the expectation (lossless phase, elapsed time) and yield a bogus counterexample.
fn keep_liveness(ops: &[String]) -> usize {
    if ops.iter().any(|o| o.starts_with("note expect-up")) {
        ops.len()
    } else {
        keep_setup(ops)
    }
}

fn keep_setup(ops: &[String]) -> usize {
    ops.iter().position(|o| o == "note setup-done").map(|i| i + 1).unwrap_or(0)
}

fn any_out(t: &Trace, prefix: &str) -> bool {
    t.outs.iter().any(|o| o.starts_with(prefix))
}

fn any_op(t: &Trace, prefix: &str) -> bool {
    t.ops.iter().any(|o| o.starts_with(prefix))
}

pub fn profiles() -> Vec<Profile> {
    vec![
        Profile {
            name: "nc-known",
            props: &["C04", "C19"],
            cases: |_| 1,
            new_world,
            script: |_, _, _| {},
            nontrivial: |_| true,
            keep: keep_setup,
            fixed: Some(known_ops),
        },
        Profile {
            name: "nc-regress",
            props: &["C07", "C17", "C05", "C10", "C18", "C16", "C19", "C04", "C20", "C13", "C11"],
            cases: |_| REGRESS_CASES,
            new_world,
            script: |_, _, _| {},
            nontrivial: |_| true,
            keep: keep_liveness,
            fixed: Some(regress_ops),
        },
        Profile {
            name: "nc-wire",
            props: &["C16", "C17", "C13", "C07"],
            cases: |t| if t == Tier::Thorough { 4000 } else { 400 },
            new_world,
            script: script_wire,
            nontrivial: |t| any_out(t, "ok ") && any_out(t, "err"),
            keep: |_| 0,
            fixed: None,
        },
        Profile {
            name: "nc-handshake",
            props: &["C05", "C10", "C18", "C19", "C17", "C13", "C07", "C04"],
            cases: |t| if t == Tier::Thorough { 3000 } else { 300 },
            new_world,
            script: script_handshake,
            nontrivial: |t| any_out(t, "connected ") || any_out(t, "disconnected "),
            keep: keep_liveness,
            fixed: None,
        },
        Profile {
            name: "nc-session",
            props: &["C04", "C07", "C17", "C18", "C13", "C10", "C05", "C19"],
            cases: |t| if t == Tier::Thorough { 2500 } else { 250 },
            new_world,
            script: script_session,
            nontrivial: |t| any_out(t, "payload ") && any_op(t, "note hostile"),
            keep: keep_setup,
            fixed: None,
        },
        Profile {
            name: "nc-hostile",
            props: &["C07", "C19", "C13", "C04", "C05", "C10", "C17", "C18"],
            cases: |t| if t == Tier::Thorough { 3000 } else { 300 },
            new_world,
            script: script_hostile,
            nontrivial: |t| any_op(t, "note hostile") && any_out(t, "connected "),
            keep: keep_setup,
            fixed: None,
        },
        Profile {
            name: "nc-table-full",
            props: &["C05"],
            cases: |_| 1,
            new_world,
            script: |_, _, _| {},
            nontrivial: |_| true,
            // nothing to minimise: the 2048 fillers are the point, and every re-run costs seconds
            keep: |ops| ops.len(),
            fixed: Some(table_full_ops),
        },
        Profile {
            name: "nc-pending-full",
            props: &["C19", "C10", "C18"],
            cases: |_| 1,
            new_world,
            script: |_, _, _| {},
            nontrivial: |_| true,
            keep: |ops| ops.len(),
            fixed: Some(pending_full_ops),
        },
        Profile {
            name: "nc-entry-cursor",
            props: &["C19", "C05"],
            cases: |_| 1,
            new_world,
            script: |_, _, _| {},
            nontrivial: |_| true,
            keep: |ops| ops.len(),
            fixed: Some(entry_cursor_ops),
        },
        Profile {
            name: "nc-prefix-sweep",
            props: &["C07"],
            cases: |_| 1,
            new_world,
            script: |_, _, _| {},
            nontrivial: |_| true,
            keep: |ops| ops.len(),
            fixed: Some(prefix_sweep_ops),
        },
        Profile {
            name: "nc-seq-wrap",
            props: &["C17"],
            cases: |_| 1,
            new_world,
            script: |_, _, _| {},
            nontrivial: |_| true,
            keep: |ops| ops.len(),
            fixed: Some(seq_wrap_ops),
        },
        Profile {
            name: "nc-window",
            props: &["C04"],
            cases: |t| if t == Tier::Thorough { 2000 } else { 200 },
            new_world,
            script: script_window,
            nontrivial: |t| any_op(t, "nc-stream"),
            keep: |_| 0,
            fixed: None,
        },
        Profile {
            name: "nc-failover",
            props: &["C18", "C19", "C07", "C17", "C04"],
            cases: |t| if t == Tier::Thorough { 2000 } else { 200 },
            new_world,
            script: script_failover,
            nontrivial: |t| any_out(t, "connected ") && t.ops.iter().any(|o| o.starts_with("note expect-up")),
            keep: keep_liveness,
            fixed: None,
        },
        Profile {
            name: "nc-attacker",
            props: &["C05", "C10", "C07", "C19", "C20", "C18", "C17"],
            cases: |t| if t == Tier::Thorough { 3000 } else { 300 },
            new_world,
            script: script_attacker,
            nontrivial: |t| any_out(t, "connected "),
            keep: keep_setup,
            fixed: None,
        },
    ]
}

// =============================================================================================
// trace oracles (pure functions of ops / outs; they judge implementation and model traces alike)
// =============================================================================================

fn fail(at: usize, sig: &str, what: String) -> Option<OracleFail> {
    Some(OracleFail { at, what, signature: sig.to_string() })
}

fn toks(s: &str) -> Vec<&str> {
    s.split(' ').filter(|x| !x.is_empty()).collect()
}

/// resolve a datagram argument (`@k` or hex) against the history reconstructed so far
fn resolve_dg(arg: &str, hist: &[Vec<u8>]) -> Option<Vec<u8>> {
    if let Some(k) = arg.strip_prefix('@') {
        hist.get(p_u64(k)? as usize).cloned()
    } else {
        p_hex(arg)
    }
}

/// walk a trace, reconstructing the datagram history; `f(i, op tokens, out, input datagram, emitted)`
fn walk(ops: &[String], outs: &[String], f: &mut dyn FnMut(usize, &[&str], &str, Option<&Vec<u8>>, Option<&(String, Vec<u8>)>) -> Option<OracleFail>) -> Option<OracleFail> {
    let mut hist: Vec<Vec<u8>> = vec![];
    for i in 0..ops.len().min(outs.len()) {
        let t = toks(&ops[i]);
        if t.is_empty() {
            continue;
        }
        let input = match t[0] {
            "srv-rx" if t.len() == 4 => resolve_dg(t[3], &hist),
            "cli-rx" if t.len() == 3 => resolve_dg(t[2], &hist),
            "nc-dec" if t.len() == 5 => resolve_dg(t[4], &hist),
            _ => None,
        };
        let mut em = emitted_of(&ops[i], &outs[i]);
        if let Some((_, d)) = em.as_mut() {
            if outs[i].rsplit(' ').next().map(|x| x.starts_with('#')).unwrap_or(false) {
                // content hidden (`nc-quiet`): a stand-in of the right length that is no netcode packet (type nibble 15)
                // and is unique (carries its history index), so that identity by bytes still works
                if !d.is_empty() {
                    d[0] = 0xff;
                }
                let idx = (hist.len() as u64).to_le_bytes();
                for (j, b) in idx.iter().enumerate() {
                    if 1 + j < d.len() {
                        d[1 + j] = *b;
                    }
                }
            }
        }
        if let Some(r) = f(i, &t, &outs[i], input.as_ref(), em.as_ref()) {
            return Some(r);
        }
        if let Some((_, d)) = em {
            hist.push(d);
        }
    }
    None
}

// ----- C07: no unwind; unauthentic input is a no-op ---------------------------------------------

fn oracle_no_panic(ops: &[String], outs: &[String]) -> Option<OracleFail> {
    for (i, o) in outs.iter().enumerate() {
        if o == "panic" {
            let t = toks(&ops[i]);
            let kind = t.first().cloned().unwrap_or("");
            let detail = match kind {
                "srv-rx" | "cli-rx" | "nc-dec" => {
                    let d = t.last().and_then(|h| p_hex(h)).unwrap_or_default();
                    format!("prefix={:02x} len={}", d.first().cloned().unwrap_or(0), d.len())
                }
                _ => String::new(),
            };
            return fail(i, &format!("panic:{}", kind), format!("the implementation unwound on `{}` {}", trunc_s(&ops[i], 100), detail));
        }
    }
    None
}

fn trunc_s(s: &str, n: usize) -> String {
    if s.len() <= n {
        s.to_string()
    } else {
        format!("{}…", &s[..n])
    }
}

/// field-wise difference of two dumps, for the message
fn dump_diff(a: &str, b: &str) -> String {
    let split = |s: &str| -> Vec<String> { s.split(|c| c == ' ' || c == ',').map(|x| x.to_string()).collect() };
    let (x, y) = (split(a), split(b));
    let mut v = vec![];
    for i in 0..x.len().max(y.len()) {
        if x.get(i) != y.get(i) {
            v.push(format!("{} -> {}", x.get(i).cloned().unwrap_or_default(), y.get(i).cloned().unwrap_or_default()));
            if v.len() >= 4 {
                break;
            }
        }
    }
    v.join("; ")
}

fn hostile_noop(ops: &[String], outs: &[String]) -> Option<OracleFail> {
    for i in 0..ops.len() {
        if ops[i] != "note hostile" && ops[i] != "note stale" {
            continue;
        }
        let j = i + 1;
        if j >= ops.len() || j >= outs.len() {
            continue;
        }
        let t = toks(&ops[j]);
        let kind = t.first().cloned().unwrap_or("");
        if kind != "srv-rx" && kind != "cli-rx" {
            continue;
        }
        if outs[j] == "panic" || outs[j] == "dead" {
            continue; // reported by the no-unwind oracle
        }
        if outs[j] == "bad-op" {
            continue; // (a shrunk trace that lost the endpoint is not a counterexample)
        }
        if outs[j] != "none" {
            return fail(j, &format!("hostile-answered:{}", kind), format!("unauthentic datagram was answered with `{}`", trunc_s(&outs[j], 80)));
        }
        if i >= 1 && j + 1 < ops.len() && j + 1 < outs.len() && ops[i - 1] == ops[j + 1] && (ops[i - 1].contains("-dump ") || ops[i - 1].starts_with("srv-q ") || ops[i - 1].starts_with("cli-q ")) {
            // the receive time of a pending (half-open) entry is not observable through the API
            let (da, db) = (without_pending_recv(&outs[i - 1]), without_pending_recv(&outs[j + 1]));
            if da != db {
                let d = t.last().and_then(|h| p_hex(h)).unwrap_or_default();
                let field = dump_diff(&outs[i - 1], &outs[j + 1]);
                let mut fname: String = field.split('=').next().unwrap_or("").to_string();
                if kind == "srv-rx" {
                    // which part of the server state moved: a connected client, a pending one, the rest
                    let (a, b) = (&outs[i - 1], &outs[j + 1]);
                    let first = a.bytes().zip(b.bytes()).position(|(x, y)| x != y).unwrap_or(a.len().min(b.len()));
                    let section = match (a.find(" slots=["), a.find(" pending=["), a.find(" entries=[")) {
                        (Some(s0), Some(p0), Some(e0)) => {
                            if first < s0 {
                                "server"
                            } else if first < p0 {
                                "connected"
                            } else if first < e0 {
                                "pending"
                            } else {
                                "entries"
                            }
                        }
                        _ => "server",
                    };
                    fname = format!("{}.{}", section, fname);
                }
                return fail(
                    j,
                    &format!("hostile-changed-state:{}:{}", kind, fname),
                    format!("unauthentic datagram (prefix {:02x}, {} bytes) changed the state: {}", d.first().cloned().unwrap_or(0), d.len(), field),
                );
            }
        }
    }
    None
}

fn pending_section(d: &str) -> Option<(usize, usize)> {
    let a = d.find(" pending=[")?;
    let b = d.find("] entries=[")?;
    if a < b {
        Some((a, b))
    } else {
        None
    }
}

/// a server dump without the `recv=` values of its pending clients (client dumps are returned as they are)
fn without_pending_recv(d: &str) -> String {
    match pending_section(d) {
        Some((a, b)) => {
            let mid: Vec<&str> = d[a..b].split(',').filter(|f| !f.starts_with("recv=")).collect();
            format!("{}{}{}", &d[..a], mid.join(","), &d[b..])
        }
        None => d.to_string(),
    }
}

/// C07, last clause ("genuine traffic afterwards is still accepted"), for a half-open handshake on the server:
/// a connection response that echoes the challenge the server issued to its source address is processed —
/// `connected` when a seat is free, a denial when none is — although unauthentic datagrams (`note hostile`,
/// answered `none`) reached the server in between. Every hypothesis is reconstructed from the trace:
///   * half-open handshake of address A = a connection request from A carrying a token issued inside the trace
///     (`ptok-seal`) that the server answered towards A with a challenge packet sealed under that token's
///     server-to-client key; the response must open under the token's client-to-server key and echo that body;
///   * it is forgotten (never judged) at any other datagram from A that is not marked hostile, once its token is
///     past its expiry second on the server's clock, and for good when the server's limit is changed at run time;
///   * it is judged only if at least one hostile datagram was handed to that server since the challenge, and
///     neither A nor the token's client id is connected at that moment;
///   * seats = the limit given to `srv-new`, occupied = `connected` minus `disconnected` events.
fn genuine_after_hostile(ops: &[String], outs: &[String]) -> Option<OracleFail> {
    struct Half {
        ti: usize,
        body: Vec<u8>,
        hostile: usize,
    }
    struct S {
        proto: u64,
        now_us: u64,
        seats: u64,
        fixed_limit: bool,
        ids: HashMap<u64, String>,
        half: HashMap<String, Half>,
    }
    let tokens = tokens_of(ops, outs, ops.len());
    let mut servers: HashMap<String, S> = HashMap::new();
    let mut hostile_next = false;
    walk(ops, outs, &mut |i, t, out, input, em| {
        let hostile = hostile_next;
        hostile_next = t[0] == "note" && t.len() == 2 && (t[1] == "hostile" || t[1] == "stale");
        if t.len() < 2 || out == "panic" || out == "dead" || out == "bad-op" {
            return None;
        }
        let mut result = None;
        match t[0] {
            "srv-new" if t.len() == 9 && out == "ok" => {
                servers.insert(
                    t[1].to_string(),
                    S { proto: p_u64(t[4]).unwrap_or(0), now_us: p_u64(t[2]).unwrap_or(0), seats: p_u64(t[3]).unwrap_or(0), fixed_limit: true, ids: HashMap::new(), half: HashMap::new() },
                );
            }
            "srv-setmax" => {
                if let Some(s) = servers.get_mut(t[1]) {
                    s.fixed_limit = false;
                    s.half.clear();
                }
            }
            "srv-upd" if t.len() == 3 => {
                if let Some(s) = servers.get_mut(t[1]) {
                    s.now_us = s.now_us.saturating_add(p_u64(t[2]).unwrap_or(0));
                    let now_s = s.now_us / 1_000_000;
                    s.half.retain(|_, h| now_s < tokens[h.ti].expire);
                }
            }
            "srv-rx" if t.len() == 4 => {
                if let (Some(s), Some(d)) = (servers.get_mut(t[1]), input) {
                    let addr = t[2].to_string();
                    if hostile {
                        if out == "none" {
                            for h in s.half.values_mut() {
                                h.hostile += 1;
                            }
                        } else {
                            s.half.remove(&addr); // (reported by the other clause)
                        }
                    } else {
                        let ty = d.first().map(|b| b & 0xf);
                        let prev = s.half.remove(&addr);
                        if ty == Some(0) && d.len() >= 1078 {
                            // a request: a new half-open handshake when it is answered with a challenge
                            if let (Some(ti), Some((to, e))) = (tokens.iter().position(|k| k.private == d[54..1078]), em) {
                                if *to == addr {
                                    if let Some((2, _, body)) = try_open(e, s.proto, &tokens[ti].s2c) {
                                        s.half.insert(addr.clone(), Half { ti, body, hostile: 0 });
                                    }
                                }
                            }
                        } else if let (Some(3), Some(h)) = (ty, prev) {
                            let k = &tokens[h.ti];
                            let echo = matches!(try_open(d, s.proto, &k.c2s), Some((3, _, ref body)) if *body == h.body);
                            let judged = echo && h.hostile > 0 && s.fixed_limit && !s.ids.contains_key(&k.id) && !s.ids.values().any(|a| *a == addr);
                            if judged {
                                if (s.ids.len() as u64) < s.seats {
                                    if !out.starts_with(&format!("connected {} {} ", k.id, addr)) {
                                        result = fail(
                                            i,
                                            "genuine-response-lost-after-hostile:connect",
                                            format!(
                                                "the genuine response of client {} at {} to the challenge it was sent, with a free seat ({} of {} taken), was answered `{}`; since the challenge {} unauthentic datagram(s) reached the server",
                                                k.id,
                                                addr,
                                                s.ids.len(),
                                                s.seats,
                                                trunc_s(out, 40),
                                                h.hostile
                                            ),
                                        );
                                    }
                                } else {
                                    let denied = matches!(em, Some((to, e)) if *to == addr && matches!(try_open(e, s.proto, &k.s2c), Some((1, _, _))));
                                    if !denied {
                                        result = fail(
                                            i,
                                            "genuine-response-lost-after-hostile:denied",
                                            format!(
                                                "the genuine response of client {} at {} to the challenge it was sent, with every seat taken, was not answered with a denial but `{}`; since the challenge {} unauthentic datagram(s) reached the server",
                                                k.id,
                                                addr,
                                                trunc_s(out, 40),
                                                h.hostile
                                            ),
                                        );
                                    }
                                }
                            }
                        }
                    }
                }
            }
            _ => {}
        }
        if t[0] == "srv-rx" || t[0] == "srv-updc" || t[0] == "srv-disc" {
            if let Some(s) = servers.get_mut(t[1]) {
                let o = toks(out);
                if o.len() >= 3 && o[0] == "connected" {
                    if let Some(id) = p_u64(o[1]) {
                        s.ids.insert(id, o[2].to_string());
                    }
                }
                if o.len() >= 3 && o[0] == "disconnected" {
                    if let Some(id) = p_u64(o[1]) {
                        s.ids.remove(&id);
                    }
                }
            }
        }
        result
    })
}

fn oracle_hostile_noop(ops: &[String], outs: &[String]) -> Option<OracleFail> {
    hostile_noop(ops, outs).or_else(|| genuine_after_hostile(ops, outs))
}

// ----- C13: every produced datagram fits -------------------------------------------------------

fn oracle_size(ops: &[String], outs: &[String]) -> Option<OracleFail> {
    walk(ops, outs, &mut |i, t, out, _, em| {
        if let Some((_, d)) = em {
            if d.len() > 1400 {
                return fail(i, "datagram-too-long", format!("emitted datagram of {} bytes", d.len()));
            }
        }
        if t[0] == "nc-enc" && t.len() > 1 {
            if let (Some(h), Some(cap)) = (out.strip_prefix("ok "), p_u64(t[1])) {
                let n = unhex(h).map(|v| v.len()).unwrap_or(0);
                if n as u64 > cap {
                    return fail(i, "encode-beyond-buffer", format!("encoded {} bytes into a buffer of {}", n, cap));
                }
            }
        }
        None
    })
}

/// C13 (netcode side of the size contract): a payload the message layer may hand over (at most NETCODE_MAX_PAYLOAD_BYTES =
/// 1300 bytes) is turned into a datagram on a connected session whatever the sequence number's width, a longer one is
/// refused with PayloadAboveLimit — for `generate_payload_packet` of client (`cli-pay`) and server (`srv-pay`); outputs
/// that say the endpoint is not connected / does not know the client are not judged. At the wire level (`nc-enc … pay`):
/// a payload of at most 1300 bytes encodes whenever the buffer has room for prefix + sequence + body + MAC.
fn oracle_payload_limit(ops: &[String], outs: &[String]) -> Option<OracleFail> {
    for i in 0..ops.len().min(outs.len()) {
        let t = toks(&ops[i]);
        let o = &outs[i];
        if o == "panic" || o == "dead" || o == "bad-op" || t.is_empty() {
            continue;
        }
        let (side, body) = match t[0] {
            "cli-pay" if t.len() == 3 => ("client", t[2]),
            "srv-pay" if t.len() == 4 => ("server", t[3]),
            "nc-enc" if t.len() == 7 && t[5] == "pay" => {
                // nc-enc <cap> <proto> <seq> <key> pay <hex>
                if let (Some(cap), Some(seq), Some(len)) = (p_u64(t[1]), p_u64(t[3]), p_hex(t[6]).map(|b| b.len())) {
                    let need = 1 + seq_bytes_required(seq) + len + 16;
                    if len <= 1300 && cap as usize >= need && !o.starts_with("ok ") {
                        return fail(i, "payload-limit-wrong:wire", format!("a payload packet of {} bytes at sequence {} (needs {} of {} buffer bytes) was not encoded: `{}`", len, seq, need, cap, trunc_s(o, 40)));
                    }
                }
                continue;
            }
            _ => continue,
        };
        let Some(len) = p_hex(body).map(|b| b.len()) else { continue };
        if o == "err:ClientNotConnected" || o == "err:ClientNotFound" || o.starts_with("err:Disconnected") {
            continue;
        }
        if len <= 1300 && !o.starts_with("send ") {
            return fail(i, &format!("payload-limit-wrong:{}", side), format!("generate_payload_packet of {} bytes on the {} side answered `{}`", len, side, trunc_s(o, 40)));
        }
        if len > 1300 && o != "err:PayloadAboveLimit" {
            return fail(i, &format!("payload-limit-wrong:{}", side), format!("generate_payload_packet of {} bytes (> 1300) on the {} side answered `{}`", len, side, trunc_s(o, 40)));
        }
    }
    None
}

// ----- C19: replies never amplify ----------------------------------------------------------------

fn oracle_amplification(ops: &[String], outs: &[String]) -> Option<OracleFail> {
    walk(ops, outs, &mut |i, t, out, input, em| {
        if t[0] != "srv-rx" || t.len() != 4 {
            return None;
        }
        if let (Some((to, d)), Some(inp)) = (em, input) {
            if to != t[2] {
                return fail(i, "reply-to-other-address", format!("datagram from {} answered towards {}", t[2], to));
            }
            if d.len() >= inp.len() {
                return fail(i, "reply-not-shorter", format!("{} bytes answered with {} bytes ({})", inp.len(), d.len(), trunc_s(out, 30)));
            }
        }
        None
    })
}

// ----- dump parsing -----------------------------------------------------------------------------

#[derive(Clone, Debug)]
struct SlotInfo {
    id: u64,
    addr: String,
    recv: u128,
    timeout: i64,
}

#[derive(Clone, Debug, Default)]
struct SrvDump {
    now: u128,
    max: u64,
    nslots: u64,
    slots: Vec<SlotInfo>,
}

fn field<'a>(s: &'a str, key: &str) -> Option<&'a str> {
    // fields are separated by ' ' or ',' and look like key=value
    for part in s.split(|c| c == ' ' || c == ',') {
        if let Some(v) = part.strip_prefix(key) {
            if let Some(v) = v.strip_prefix('=') {
                return Some(v);
            }
        }
    }
    None
}

fn parse_srv_dump(s: &str) -> Option<SrvDump> {
    let now: u128 = field(s, "now")?.parse().ok()?;
    let max = p_u64(field(s, "max")?)?;
    let nslots = p_u64(field(s, "nslots")?)?;
    let a = s.find("slots=[")? + 7;
    let b = s.find("] pending=[")?;
    let body = &s[a..b];
    let mut slots = vec![];
    // entries look like  <i>:{id=..,addr=..,…,rp{mr=..,w=[..]}}
    for part in body.split(":{id=").skip(1) {
        let part = format!("id={}", part);
        let id = p_u64(field(&part, "id")?)?;
        let addr = field(&part, "addr")?.to_string();
        let recv: u128 = field(&part, "recv")?.parse().ok()?;
        let timeout: i64 = field(&part, "timeout")?.parse().ok()?;
        slots.push(SlotInfo { id, addr, recv, timeout });
    }
    Some(SrvDump { now, max, nslots, slots })
}

// ----- C10: the connection table -----------------------------------------------------------------

fn oracle_table(ops: &[String], outs: &[String]) -> Option<OracleFail> {
    oracle_table_f(ops, outs, |_| true)
}

/// C05 ("a client is REPORTED connected only after …"): the lookups (`clients_id`, `is_client_connected`, `client_addr`,
/// `user_data`) and the table name exactly the clients the justified `connected` events named
fn oracle_reported_connected(ops: &[String], outs: &[String]) -> Option<OracleFail> {
    oracle_table_f(ops, outs, |sig| sig == "events-table-mismatch" || sig == "lookup-mismatch")
}

/// `keep`: which failure classes are reported (the others are skipped and the walk goes on)
fn oracle_table_f(ops: &[String], outs: &[String], keep: fn(&str) -> bool) -> Option<OracleFail> {
    macro_rules! bail {
        ($i:expr, $sig:expr, $msg:expr $(,)?) => {
            if keep($sig) {
                return fail($i, $sig, $msg);
            }
        };
    }
    // the largest limit ever in force (the table never shrinks and never grows beyond it)
    let mut max_ever: HashMap<String, u64> = HashMap::new();
    // per server: limit history and event alternation
    let mut lowered: HashMap<String, bool> = HashMap::new();
    let mut cur_max: HashMap<String, u64> = HashMap::new();
    let mut connected: HashMap<String, HashSet<u64>> = HashMap::new();
    // (server, id) -> (address, first 8 bytes of the user data) reported by the `connected` event of the live session
    let mut how: HashMap<(String, u64), (String, String)> = HashMap::new();
    let mut protos: HashMap<String, u64> = HashMap::new();
    let mut tokens: Option<Vec<TokInfo>> = None;
    // (server, id) -> address client_addr(id) reported since the last connect / disconnect event on that server
    let mut reported: HashMap<(String, u64), String> = HashMap::new();
    for i in 0..ops.len().min(outs.len()) {
        let t = toks(&ops[i]);
        if t.len() < 2 {
            continue;
        }
        let s = t[1].to_string();
        match t[0] {
            "srv-new" if t.len() >= 4 => {
                if outs[i] == "ok" {
                    if t.len() >= 5 {
                        protos.insert(s.clone(), p_u64(t[4]).unwrap_or(0));
                    }
                    cur_max.insert(s.clone(), p_u64(t[3]).unwrap_or(0));
                    max_ever.insert(s.clone(), p_u64(t[3]).unwrap_or(0));
                    how.retain(|k, _| k.0 != s);
                    lowered.insert(s.clone(), false);
                    connected.insert(s.clone(), HashSet::new());
                }
            }
            "srv-setmax" if t.len() == 3 => {
                if outs[i] == "ok" {
                    let n = p_u64(t[2]).unwrap_or(0).min(1024);
                    if n < *cur_max.get(&s).unwrap_or(&0) {
                        lowered.insert(s.clone(), true);
                    }
                    cur_max.insert(s.clone(), n);
                    let e = max_ever.entry(s.clone()).or_insert(0);
                    *e = (*e).max(n);
                }
            }
            "srv-rx" | "srv-updc" | "srv-disc" => {
                let o = toks(&outs[i]);
                if o.len() >= 3 && o[0] == "connected" {
                    let id = p_u64(o[1]).unwrap_or(0);
                    if !connected.entry(s.clone()).or_default().insert(id) {
                        bail!(i, "connected-twice", format!("client {} reported connected while already connected", id));
                    }
                    if o.len() == 5 {
                        how.insert((s.clone(), id), (o[2].to_string(), o[3].to_string()));
                    }
                    if t[0] == "srv-rx" && t.len() == 4 && o[2] != t[2] {
                        bail!(i, "connected-other-address", format!("a datagram from {} made the server report client {} connected from {}", t[2], id, o[2]));
                    }
                    reported.retain(|k, _| k.0 != s);
                    // whatever happened to the limit: never more sessions than the largest limit ever in force
                    if let (Some(m), Some(c)) = (max_ever.get(&s), connected.get(&s)) {
                        if c.len() as u64 > *m {
                            bail!(i, "above-max-clients", format!("client {} was seated as connected client number {}, the limit never exceeded {}", id, c.len(), m));
                        }
                    }
                    // the bound, judged on the event stream against the limit reconstructed from the ops
                    // (srv-new / srv-setmax) — not against what the implementation reports about itself
                    if let (Some(false), Some(m), Some(c)) = (lowered.get(&s), cur_max.get(&s), connected.get(&s)) {
                        if c.len() as u64 > *m {
                            bail!(
                                i,
                                "above-max-clients",
                                format!("client {} was seated as connected client number {}, the limit is {} and was never lowered", id, c.len(), m),
                            );
                        }
                    }
                }
                if o.len() >= 3 && o[0] == "disconnected" {
                    let id = p_u64(o[1]).unwrap_or(0);
                    if !connected.entry(s.clone()).or_default().remove(&id) {
                        bail!(i, "disconnected-without-connected", format!("client {} reported disconnected without being connected", id));
                    }
                    // … naming the same id and address, and for the reason the op gives
                    if let Some((a, _)) = how.get(&(s.clone(), id)) {
                        if o[2] != a.as_str() {
                            bail!(i, "disconnected-wrong-address", format!("client {} was connected from {}, its disconnection names {}", id, a, o[2]));
                        }
                    }
                    if (t[0] == "srv-disc" || t[0] == "srv-updc") && t.len() == 3 && p_u64(t[2]) != Some(id) {
                        bail!(i, "disconnected-other-client", format!("`{} {}` ended the session of client {}", t[0], t[2], id));
                    }
                    if t[0] == "srv-rx" && t.len() == 4 {
                        if o[2] != t[2] {
                            bail!(i, "disconnected-other-client", format!("a datagram from {} ended the session of client {} at {}", t[2], id, o[2]));
                        }
                        // only that client's own Disconnect packet does this
                        if let (Some(d), Some(proto)) = (p_hex(t[3]), protos.get(&s)) {
                            let toks_all = tokens.get_or_insert_with(|| tokens_of(ops, outs, ops.len()));
                            if toks_all.iter().any(|k| k.id == id) && !toks_all.iter().any(|k| k.id == id && matches!(try_open(&d, *proto, &k.c2s), Some((6, _, _)))) {
                                bail!(i, "disconnected-without-disconnect-packet", format!("a datagram from {} that is not a Disconnect packet sealed under a key of client {} ended its session", t[2], id));
                            }
                        }
                    }
                    how.remove(&(s.clone(), id));
                    reported.retain(|k, _| k.0 != s);
                }
            }
            "srv-q" if t.len() == 3 => {
                // lookups agree with the event stream
                if let (Some(c), Some(id)) = (connected.get(&s), p_u64(t[2])) {
                    let o = &outs[i];
                    if o != "panic" && o != "dead" && o != "bad-op" {
                        let listed: HashSet<u64> = field(o, "ids").map(|l| l.trim_matches(|ch| ch == '[' || ch == ']').split(',').filter_map(p_u64).collect()).unwrap_or_default();
                        // `ids=[a,b]` is split at commas by `field`: re-read it from the raw text
                        let listed: HashSet<u64> = match (o.find("ids=["), o.find("] n=")) {
                            (Some(a), Some(b)) if a + 5 <= b => o[a + 5..b].split(',').filter_map(p_u64).collect(),
                            _ => listed,
                        };
                        if listed != *c {
                            bail!(i, "lookup-mismatch", format!("clients_id() = {:?} but the events say {:?} are connected", listed, c));
                        }
                        if let (Some(false), Some(m), Some(n)) = (lowered.get(&s), cur_max.get(&s), field(o, "n").and_then(p_u64)) {
                            if n > *m {
                                bail!(i, "above-max-clients", format!("connected_clients() = {}, the limit is {} and was never lowered", n, m));
                            }
                        }
                        let conn = field(o, "conn") == Some("1");
                        if conn != c.contains(&id) {
                            bail!(i, "lookup-mismatch", format!("is_client_connected({}) = {} but the events say {}", id, conn, c.contains(&id)));
                        }
                        if (field(o, "addr") != Some("-")) != c.contains(&id) {
                            bail!(i, "lookup-mismatch", format!("client_addr({}) = {:?} but the events say connected = {}", id, field(o, "addr"), c.contains(&id)));
                        }
                        // lookups by id refer to the session that was authenticated for that id
                        if let (true, Some((a, ud))) = (c.contains(&id), how.get(&(s.clone(), id))) {
                            if field(o, "addr") != Some(a.as_str()) {
                                bail!(i, "lookup-mismatch", format!("client_addr({}) = {:?}, the session was reported connected from {}", id, field(o, "addr"), a));
                            }
                            if field(o, "ud").map(|u| u != ud.as_str()).unwrap_or(false) {
                                bail!(i, "lookup-mismatch", format!("user_data({}) = {:?}…, the session was reported connected with {}…", id, field(o, "ud"), ud));
                            }
                        }
                        // the addresses reported for different connected ids are pairwise distinct
                        if let (true, Some(a)) = (c.contains(&id), field(o, "addr")) {
                            if let Some(((_, other), _)) = reported.iter().find(|((s2, id2), a2)| *s2 == s && *id2 != id && c.contains(id2) && a2.as_str() == a) {
                                bail!(i, "duplicate-address", format!("client_addr({}) and client_addr({}) both report {}", id, other, a));
                            }
                            reported.insert((s.clone(), id), a.to_string());
                        }
                        if !c.contains(&id) && field(o, "ud").map(|u| u != "-").unwrap_or(false) {
                            bail!(i, "lookup-mismatch", format!("user_data({}) = {:?} for a client that is not connected", id, field(o, "ud")));
                        }
                        if let (Some(n), Some(a), Some(b)) = (field(o, "n").and_then(p_u64), o.find(" slots=["), o.find("] pub=")) {
                            if n as usize != c.len() {
                                bail!(i, "lookup-mismatch", format!("connected_clients() = {} but the events say {:?} are connected", n, c));
                            }
                            if a + 8 <= b {
                                let sl: Vec<&str> = o[a + 8..b].split(',').filter(|x| !x.is_empty()).collect();
                                let distinct: HashSet<&&str> = sl.iter().collect();
                                if sl.len() != c.len() || distinct.len() != sl.len() {
                                    bail!(i, "lookup-mismatch", format!("clients_slot() = {:?} for {} connected clients", sl, c.len()));
                                }
                            }
                        }
                    }
                }
            }
            "srv-pay" if t.len() == 4 => {
                if let (Some(c), Some(id)) = (connected.get(&s), p_u64(t[2])) {
                    let o = &outs[i];
                    if (o == "err:ClientNotFound" && c.contains(&id)) || (o.starts_with("send ") && !c.contains(&id)) {
                        bail!(i, "lookup-mismatch", format!("generate_payload_packet({}) answered `{}` but the events say connected = {}", id, trunc_s(o, 30), c.contains(&id)));
                    }
                    // payload routing refers to the session that was authenticated for that id: the datagram goes to that
                    // session's address and is sealed under a server-to-client key of a token issued for that id
                    if let (Some((to, d)), Some((a, _))) = (emitted_of(&ops[i], o), how.get(&(s.clone(), id))) {
                        if to != *a {
                            bail!(i, "payload-misrouted", format!("the payload for client {} (connected from {}) was addressed to {}", id, a, to));
                        }
                        if let Some(proto) = protos.get(&s) {
                            let toks_all = tokens.get_or_insert_with(|| tokens_of(ops, outs, ops.len()));
                            let mine = toks_all.iter().any(|k| k.id == id && matches!(try_open(&d, *proto, &k.s2c), Some((5, _, _))));
                            let other = toks_all.iter().find(|k| k.id != id && matches!(try_open(&d, *proto, &k.s2c), Some((5, _, _))));
                            if let (false, Some(k)) = (mine, other) {
                                bail!(i, "payload-misrouted", format!("the payload for client {} was sealed under the key of client {}'s token", id, k.id));
                            }
                        }
                    }
                }
            }
            "srv-dump" => {
                if let Some(d) = parse_srv_dump(&outs[i]) {
                    let mut ids = HashSet::new();
                    let mut addrs = HashSet::new();
                    for sl in d.slots.iter() {
                        if !ids.insert(sl.id) {
                            bail!(i, "duplicate-client-id", format!("client id {} occupies two slots", sl.id));
                        }
                        if !addrs.insert(sl.addr.clone()) {
                            bail!(i, "duplicate-address", format!("address {} occupies two slots", sl.addr));
                        }
                    }
                    let n = d.slots.len() as u64;
                    if n > d.nslots {
                        bail!(i, "more-clients-than-slots", format!("{} clients in {} slots", n, d.nslots));
                    }
                    if !*lowered.get(&s).unwrap_or(&true) && n > d.max {
                        bail!(i, "above-max-clients", format!("{} clients connected, max_clients = {} was never lowered", n, d.max));
                    }
                    // the table and the event stream agree
                    if let Some(c) = connected.get(&s) {
                        if *c != ids {
                            bail!(i, "events-table-mismatch", format!("events say {:?} connected, the table holds {:?}", c, ids));
                        }
                    }
                }
            }
            _ => {}
        }
    }
    None
}

// ----- tokens issued inside the trace ---------------------------------------------------------------

#[derive(Clone, Debug)]
struct TokInfo {
    proto: u64,
    expire: u64,
    xnonce: Vec<u8>,
    key: Vec<u8>,
    id: u64,
    timeout: i32,
    addrs: Vec<String>,
    c2s: [u8; 32],
    s2c: [u8; 32],
    ud: Vec<u8>,
    private: Vec<u8>,
}

fn tokens_of(ops: &[String], outs: &[String], upto: usize) -> Vec<TokInfo> {
    let mut v = vec![];
    for i in 0..upto.min(ops.len()).min(outs.len()) {
        let t = toks(&ops[i]);
        if t.len() == 11 && t[0] == "ptok-seal" {
            if let Some(p) = outs[i].strip_prefix("ok ") {
                let (Some(proto), Some(expire), Some(xnonce), Some(key), Some(id), Some(timeout), Some(c2s), Some(s2c), Some(ud), Some(private)) = (
                    p_u64(t[1]),
                    p_u64(t[2]),
                    p_hex(t[3]),
                    p_hex(t[4]),
                    p_u64(t[5]),
                    p_i32(t[6]),
                    p_hexn::<32>(t[8]),
                    p_hexn::<32>(t[9]),
                    p_user_data(t[10]),
                    p_hex(p),
                ) else {
                    continue;
                };
                let addrs: Vec<String> = if t[7] == "-" { vec![] } else { t[7].split(',').filter(|a| *a != "_").map(|a| a.to_string()).collect() };
                v.push(TokInfo { proto, expire, xnonce, key, id, timeout, addrs, c2s, s2c, ud: ud.to_vec(), private });
            }
        }
    }
    v
}

struct SrvCfg {
    secure: bool,
    proto: u64,
    key: Vec<u8>,
    addrs: Vec<String>,
    now_us: u64,
}

// ----- C05: who gets connected -----------------------------------------------------------------------

fn oracle_connect_justified(ops: &[String], outs: &[String]) -> Option<OracleFail> {
    oracle_connect_justified_f(ops, outs, |_| true)
}

/// `keep`: which failure classes are reported (an event that fails in another class is skipped and the walk goes on)
fn oracle_connect_justified_f(ops: &[String], outs: &[String], keep: fn(&str) -> bool) -> Option<OracleFail> {
    macro_rules! bail {
        ($i:expr, $sig:expr, $msg:expr $(,)?) => {{
            let sig: &str = $sig;
            if keep(sig) {
                return fail($i, sig, $msg);
            } else {
                return None;
            }
        }};
    }
    let tokens = tokens_of(ops, outs, ops.len());
    let mut servers: HashMap<String, SrvCfg> = HashMap::new();
    // (server, token index, address, server time in s, answered with a datagram)
    let mut uses: Vec<(String, usize, String, u64, bool)> = vec![];
    // "echoes a challenge THIS server issued": (server object, address, challenge body) of every challenge a server emitted
    let mut issued: HashSet<(String, String, Vec<u8>)> = HashSet::new();
    // provenance, for traces whose datagram bytes are hidden (`nc-quiet`, `#<len>` outputs, `@k` references):
    //   history index -> (emitting op, content hidden?); the server whose challenge a client instance adopted (the first
    //   one delivered to it); the client that emitted a datagram; the token of a client instance
    let mut hist_src: Vec<(usize, bool)> = vec![];
    let mut adopted: HashMap<String, (String, usize)> = HashMap::new();
    // server handle -> op index of the `srv-new` that created the current object behind it
    let mut srv_obj: HashMap<String, usize> = HashMap::new();
    let mut emitted_by: HashMap<usize, String> = HashMap::new();
    let mut cli_tok: HashMap<String, usize> = HashMap::new();
    walk(ops, outs, &mut |i, t, out, input, em| {
        if em.is_some() {
            if t[0] == "cli-upd" && t.len() == 3 {
                emitted_by.insert(hist_src.len(), t[1].to_string());
            }
            hist_src.push((i, out.rsplit(' ').next().map(|x| x.starts_with('#')).unwrap_or(false)));
        }
        match t[0] {
            "cli-new" if t.len() == 4 => {
                adopted.remove(t[1]);
                cli_tok.remove(t[1]);
                if out == "ok" {
                    if let Some(tok) = p_hex(t[3]).and_then(|b| ConnectToken::read(&mut &b[..]).ok()) {
                        if let Some(ti) = tokens.iter().position(|k| k.private[..] == tok.private_data[..]) {
                            cli_tok.insert(t[1].to_string(), ti);
                        }
                    }
                }
            }
            "cli-rx" if t.len() == 3 && !adopted.contains_key(t[1]) => {
                if let Some(j) = t[2].strip_prefix('@').and_then(p_u64) {
                    if let Some((src, _)) = hist_src.get(j as usize) {
                        let st = toks(&ops[*src]);
                        if st.len() == 4 && st[0] == "srv-rx" && outs[*src].starts_with("send ") {
                            // the object that was behind the handle when it emitted the challenge
                            let obj = (0..=*src).rev().find(|j| {
                                let u = toks(&ops[*j]);
                                u.len() == 9 && u[0] == "srv-new" && u[1] == st[1] && outs[*j] == "ok"
                            });
                            adopted.insert(t[1].to_string(), (st[1].to_string(), obj.unwrap_or(0)));
                        }
                    }
                }
            }
            "srv-new" if t.len() == 9 && out == "ok" => {
                // a new server OBJECT (also when the handle is re-used: a restart)
                srv_obj.insert(t[1].to_string(), i);
                uses.retain(|u| u.0 != t[1]);
                issued.retain(|x| x.0 != t[1]);
                servers.insert(
                    t[1].to_string(),
                    SrvCfg {
                        proto: p_u64(t[4]).unwrap_or(0),
                        // unsecure servers open tokens with the all-zero key and accept any host list
                        key: if t[5] == "1" { p_hex(t[6]).unwrap_or_default() } else { vec![0u8; 32] },
                        secure: t[5] == "1",
                        addrs: t[8].split(',').map(|a| a.to_string()).collect(),
                        now_us: p_u64(t[2]).unwrap_or(0),
                    },
                );
            }
            "srv-upd" if t.len() == 3 && out == "ok" => {
                if let Some(s) = servers.get_mut(t[1]) {
                    s.now_us = s.now_us.saturating_add(p_u64(t[2]).unwrap_or(0));
                }
            }
            "srv-rx" if t.len() == 4 => {
                let s = t[1].to_string();
                let addr = t[2].to_string();
                if let (Some(d), Some(cfg)) = (input, servers.get(&s)) {
                    if d.len() >= 1078 && d[0] & 0xf == 0 {
                        let private = &d[54..1078];
                        if let Some(ti) = tokens.iter().position(|k| k.private == private) {
                            uses.push((s.clone(), ti, addr.clone(), cfg.now_us / 1_000_000, out.starts_with("send ")));
                            if let Some((to, e)) = em {
                                if let Some((2, _, body)) = try_open(e, cfg.proto, &tokens[ti].s2c) {
                                    issued.insert((s.clone(), to.clone(), body));
                                }
                            }
                        }
                    }
                }
                let o = toks(out);
                if o.len() == 5 && o[0] == "connected" {
                    let id = p_u64(o[1]).unwrap_or(u64::MAX);
                    let ud = p_hex(o[3]).unwrap_or_default();
                    if o[2] != addr {
                        bail!(i, "connected-other-address", format!("datagram from {} connected {}", addr, o[2]));
                    }
                    let cfg = servers.get(&s)?;
                    // ---- content hidden: judge by provenance
                    let hidden_ref = t[3].strip_prefix('@').and_then(p_u64).and_then(|k| hist_src.get(k as usize).map(|h| (k as usize, h.1)));
                    if let Some((k, true)) = hidden_ref {
                        let Some(c) = emitted_by.get(&k) else { return None };
                        let Some(ti) = cli_tok.get(c) else { return None };
                        let this_obj = (s.clone(), srv_obj.get(&s).copied().unwrap_or(0));
                        if adopted.get(c) != Some(&this_obj) {
                            bail!(
                                i,
                                "unjustified-connect:challenge-of-another-server-object",
                                format!(
                                    "server {} reported client {} connected from {} on a response of client instance {} that echoes the challenge issued by server object {:?} — this server's own challenge was never delivered to that client",
                                    s, id, addr, c, adopted.get(c)
                                ),
                            );
                        }
                        let kt = &tokens[*ti];
                        let ok = kt.id == id && kt.ud == ud && uses.iter().any(|(us, t2, ua, _, ans)| *us == s && t2 == ti && *ua == addr && *ans);
                        if !ok {
                            bail!(i, "unjustified-connect:token-not-valid-for-this-address-or-time", format!("client {} connected from {} (hidden trace): no answered request with its token from that address", id, addr));
                        }
                        return None;
                    }
                    // ---- the challenge echoed is one this server object issued to this address
                    if let Some(d) = input {
                        let body = tokens.iter().find_map(|k| match try_open(d, cfg.proto, &k.c2s) {
                            Some((3, _, b)) if k.id == id => Some(b),
                            _ => None,
                        });
                        if let Some(b) = body {
                            if !issued.contains(&(s.clone(), addr.clone(), b)) {
                                bail!(
                                    i,
                                    "unjustified-connect:challenge-not-issued-by-this-server",
                                    format!("client {} connected from {} on a response that echoes a challenge this server object never issued to that address", id, addr),
                                );
                            }
                        }
                    }
                    // the handshake that is being completed is the one opened with the token under whose
                    // client-to-server key this response is sealed (keys are per token)
                    let sealed_under = |k: &TokInfo| input.map(|d| matches!(try_open(d, cfg.proto, &k.c2s), Some((3, _, _)))).unwrap_or(false);
                    let justified = uses.iter().any(|(us, ti, ua, at_s, answered)| {
                        let k = &tokens[*ti];
                        *us == s
                            && *ua == addr
                            && sealed_under(k)
                            && *answered
                            && k.id == id
                            && k.ud == ud
                            && k.key == cfg.key
                            && k.proto == cfg.proto
                            && *at_s < k.expire
                            && (!cfg.secure || k.addrs.iter().any(|a| cfg.addrs.contains(a)))
                            // first accepted use of this token on this server came from this address
                            && uses.iter().find(|(s2, t2, _, _, ans2)| *s2 == s && t2 == ti && *ans2).map(|u| u.2 == addr).unwrap_or(false)
                    });
                    if !justified {
                        let why = if !tokens.iter().any(|k| k.id == id) {
                            "no-token-for-id"
                        } else if !tokens.iter().any(|k| k.id == id && k.ud == ud) || tokens.iter().any(|k| k.id == id && k.ud != ud && sealed_under(k)) {
                            "user-data-of-another-token"
                        } else {
                            "token-not-valid-for-this-address-or-time"
                        };
                        bail!(
                            i,
                            &format!("unjustified-connect:{}", why),
                            format!("client {} connected from {} with user data {}… : {}", id, addr, trunc_s(o[3], 16), why),
                        );
                    }
                }
            }
            _ => {}
        }
        None
    })
}

// ----- C17: one nonce, one message -----------------------------------------------------------------------

fn oracle_nonce(ops: &[String], outs: &[String]) -> Option<OracleFail> {
    // Scope of the statement: one endpoint, one key, one connection attempt together with its session.
    //   client: the NetcodeClient instance (a `cli-new`);
    //   server: per server-to-client key an epoch that ends when a session under that key ends
    //           (a later reconnect with the same token starts its counter again: a separate attempt).
    //           A reconnect is a separate attempt because it starts with a new connection request. A second
    //           `connected` under the same key from the same address with NO answered request from that address since
    //           the previous `connected` is the same connection attempt going on: its datagrams stay in that attempt's scope.
    let tokens = tokens_of(ops, outs, ops.len());
    // (server, s2c key) -> (address, op, attempt number) of the latest `connected` sealed under that key
    let mut last_conn: HashMap<(String, Vec<u8>), (String, usize, usize)> = HashMap::new();
    // (server, s2c key, address) -> op of the latest request from that address, carrying a token with that key, that was answered
    let mut last_req: HashMap<(String, Vec<u8>, String), usize> = HashMap::new();
    // (server, address) -> op of the latest connection request of any content from that address that was answered
    let mut last_any_req: HashMap<(String, String), usize> = HashMap::new();
    let mut srv_proto: HashMap<String, u64> = HashMap::new();
    // client handle -> (scope op index, protocol id, c2s key)
    let mut cli: HashMap<String, (usize, u64, [u8; 32])> = HashMap::new();
    let mut session_key: HashMap<(String, u64), Vec<u8>> = HashMap::new();
    let mut epoch: HashMap<(String, Vec<u8>), usize> = HashMap::new();
    let mut seen: HashMap<(String, Vec<u8>, u64), (usize, Vec<u8>)> = HashMap::new();
    // the challenge tokens a server object sealed under its challenge key: (server, token sequence) -> (op, sealed token)
    let mut chal_seen: HashMap<(String, u64), (usize, Vec<u8>)> = HashMap::new();
    walk(ops, outs, &mut |i, t, out, input, em| {
        match t[0] {
            "srv-new" if t.len() == 9 && out == "ok" => {
                srv_proto.insert(t[1].to_string(), p_u64(t[4]).unwrap_or(0));
                chal_seen.retain(|k, _| k.0 != t[1]);
            }
            "srv-rx" if t.len() == 4 && out.starts_with("send ") => {
                if let Some(d) = input {
                    if !d.is_empty() && d[0] & 0xf == 0 {
                        last_any_req.insert((t[1].to_string(), t[2].to_string()), i);
                    }
                    if d.len() >= 1078 && d[0] & 0xf == 0 {
                        for k in tokens.iter().filter(|k| k.private[..] == d[54..1078]) {
                            last_req.insert((t[1].to_string(), k.s2c.to_vec(), t[2].to_string()), i);
                        }
                    }
                }
            }
            "cli-new" if t.len() == 4 && out == "ok" => {
                if let Some(b) = p_hex(t[3]) {
                    if let Ok(tok) = ConnectToken::read(&mut &b[..]) {
                        cli.insert(t[1].to_string(), (i, tok.protocol_id, tok.client_to_server_key));
                    }
                }
            }
            _ => {}
        }
        let o = toks(out);
        let mut result = None;
        if let Some((_, d)) = em {
            if let Some((ty, seq)) = dg_header(d) {
                if ty != 0 {
                    // connection requests are not sealed
                    let attributed: Option<(String, Vec<u8>)> = if t[0].starts_with("cli-") {
                        cli.get(t[1]).and_then(|(at, proto, c2s)| try_open(d, *proto, c2s).map(|_| (format!("client {} (created at op {})", t[1], at), c2s.to_vec())))
                    } else {
                        let s = t[1].to_string();
                        // a challenge packet carries (token sequence ‖ challenge token sealed with that sequence as nonce)
                        if let Some((2, _, body)) = srv_proto.get(&s).and_then(|proto| tokens.iter().find_map(|k| try_open(d, *proto, &k.s2c))) {
                            if body.len() == 308 {
                                let cseq = u64::from_le_bytes(body[..8].try_into().unwrap());
                                let e = chal_seen.entry((s.clone(), cseq)).or_insert((i, body[8..].to_vec()));
                                if e.1 != body[8..] {
                                    result = fail(i, "nonce-reuse:challenge-token", format!("server {}: two different challenge tokens sealed with token sequence {} under the challenge key (ops {} and {})", s, cseq, e.0, i));
                                }
                            }
                        }
                        srv_proto.get(&s).and_then(|proto| tokens.iter().find(|k| try_open(d, *proto, &k.s2c).is_some())).map(|k| {
                            let key = k.s2c.to_vec();
                            if o[0] == "connected" {
                                if let Some(id) = p_u64(o[1]) {
                                    session_key.insert((s.clone(), id), key.clone());
                                }
                                if o.len() >= 3 {
                                    let sk = (s.clone(), key.clone());
                                    let cur = *epoch.get(&sk).unwrap_or(&0);
                                    if let Some((a, at, ep)) = last_conn.get(&sk) {
                                        // positively known: a request from this address opened the earlier session's attempt
                                        // and none was answered since
                                        let same_attempt = a.as_str() == o[2]
                                            && last_req.get(&(s.clone(), key.clone(), a.clone())).map(|r| r < at).unwrap_or(false)
                                            && last_any_req.get(&(s.clone(), a.clone())).map(|r| r < at).unwrap_or(false);
                                        if same_attempt && *ep < cur {
                                            epoch.insert(sk.clone(), *ep);
                                        }
                                    }
                                    let now = *epoch.get(&sk).unwrap_or(&0);
                                    last_conn.insert(sk, (o[2].to_string(), i, now));
                                }
                            }
                            let e = *epoch.get(&(s.clone(), key.clone())).unwrap_or(&0);
                            (format!("server {} attempt {}", s, e), key)
                        })
                    };
                    if let Some((scope, key)) = attributed {
                        let e = seen.entry((scope.clone(), key, seq)).or_insert((i, d.clone()));
                        if e.1 != *d {
                            result = fail(
                                i,
                                &format!("nonce-reuse:{}", if scope.starts_with("client") { "client" } else { "server" }),
                                format!("{}: two different datagrams sealed with sequence {} under one key (ops {} and {})", scope, seq, e.0, i),
                            );
                        }
                    }
                }
            }
        }
        // a session ends: later traffic under its key belongs to another attempt
        if t[0].starts_with("srv-") && o.len() >= 2 && o[0] == "disconnected" {
            if let Some(id) = p_u64(o[1]) {
                if let Some(key) = session_key.remove(&(t[1].to_string(), id)) {
                    *epoch.entry((t[1].to_string(), key)).or_insert(0) += 1;
                }
            }
        }
        result
    })
}

/// C17 (wire part): `note mutated` + decode/open of a tampered input must fail
fn oracle_mutated_rejected(ops: &[String], outs: &[String]) -> Option<OracleFail> {
    for i in 0..ops.len() {
        if ops[i] != "note mutated" || i + 1 >= ops.len() || i + 1 >= outs.len() {
            continue;
        }
        let o = &outs[i + 1];
        if ops[i + 1].starts_with("srv-rx ") && (o.starts_with("send ") || o.starts_with("connected ") || o.starts_with("payload ")) {
            return fail(i + 1, "tampered-accepted:srv-rx", format!("a tampered datagram handed to the server was answered `{}`", trunc_s(o, 40)));
        }
        if o.starts_with("ok") {
            let kind = toks(&ops[i + 1]).first().cloned().unwrap_or("").to_string();
            return fail(i + 1, &format!("tampered-accepted:{}", kind), format!("tampered input was accepted: `{}` -> `{}`", trunc_s(&ops[i + 1], 60), trunc_s(o, 40)));
        }
    }
    tampered_request_rejected(ops, outs)
}

/// C17, tokens presented to a SERVER (whatever its state — fresh, or holding a pending handshake of that very token
/// and address): a connection request that is a modification of a token issued in the trace (`ptok-seal`) — it shares
/// the sealed body, the MAC tail, or the xnonce with it, but protocol id, expiry, xnonce and sealed part are not ALL
/// the ones that were sealed — cannot authenticate and gets no answer ("flipping any single bit of … a token's sealed
/// part or of its bound public fields (protocol id, expiry) … yields an error, never content"). Nothing but the trace
/// is consulted: the tokens are the `ptok-seal` outputs, the verdict is the server's output line.
fn tampered_request_rejected(ops: &[String], outs: &[String]) -> Option<OracleFail> {
    let tokens = tokens_of(ops, outs, ops.len());
    if tokens.is_empty() {
        return None;
    }
    walk(ops, outs, &mut |i, t, out, input, _| {
        if t[0] != "srv-rx" || t.len() != 4 {
            return None;
        }
        let d = input?;
        if d.len() < 1078 || d[0] & 0xf != 0 {
            return None;
        }
        if !(out.starts_with("send ") || out.starts_with("connected ")) {
            return None;
        }
        let proto = u64::from_le_bytes(d[14..22].try_into().unwrap());
        let expire = u64::from_le_bytes(d[22..30].try_into().unwrap());
        let xnonce = &d[30..54];
        let private = &d[54..1078];
        if tokens.iter().any(|k| k.private == private && k.xnonce == xnonce && k.expire == expire && k.proto == proto) {
            return None; // exactly what was sealed
        }
        let near = tokens.iter().find(|k| k.private.len() == 1024 && (k.private == private || k.private[..1008] == private[..1008] || k.private[1008..] == private[1008..] || k.xnonce == xnonce))?;
        let what = if near.private[..1008] != private[..1008] {
            "sealed-body"
        } else if near.private[1008..] != private[1008..] {
            "mac"
        } else if near.xnonce != xnonce {
            "xnonce"
        } else if near.expire != expire {
            "expiry"
        } else {
            "protocol-id"
        };
        fail(
            i,
            &format!("tampered-accepted:request:{}", what),
            format!("a connection request from {} carrying a modified copy of the token of client {} ({} changed) was answered `{}`", t[2], near.id, what, trunc_s(out, 30)),
        )
    })
}

// ----- C16: round trips ------------------------------------------------------------------------------------

fn compact_addrs(s: &str) -> String {
    if s == "-" {
        return "-".into();
    }
    let v: Vec<&str> = s.split(',').filter(|a| *a != "_").collect();
    if v.is_empty() {
        "-".into()
    } else {
        v.join(",")
    }
}

fn oracle_roundtrip(ops: &[String], outs: &[String]) -> Option<OracleFail> {
    // tokens the library builds itself (`tok-gen` = ConnectToken::generate): the public fields are the arguments, the
    // sealed part opens under the key and carries the same fields; 1..32 addresses are accepted, 0 and 33 are not
    for i in 0..ops.len().min(outs.len()) {
        let t = toks(&ops[i]);
        if t.len() != 9 || t[0] != "tok-gen" || outs[i] == "panic" || outs[i] == "dead" || outs[i] == "bad-op" {
            continue;
        }
        let (Some(now), Some(exp_s), Some(id)) = (p_u64(t[1]), p_u64(t[3]), p_u64(t[4])) else { continue };
        let n_addrs = if t[6] == "-" { 0 } else { t[6].split(',').count() };
        let o = &outs[i];
        let want_err = if n_addrs == 0 {
            Some("err:NoServerAddressAvailable")
        } else if n_addrs > 32 {
            Some("err:MaxHostCount")
        } else {
            None
        };
        match want_err {
            Some(e) => {
                if o != e {
                    return fail(i, "token-generate:address-count", format!("ConnectToken::generate with {} server addresses answered `{}`, expected `{}`", n_addrs, trunc_s(o, 40), e));
                }
            }
            None => {
                let create = now / 1_000_000;
                let want = format!("ok {} {} {} {} {} {} {} consistent=1", id, VERSION_HEX, t[2], create, create.saturating_add(exp_s), t[5], t[6]);
                if *o != want {
                    return fail(i, "token-generate:fields", format!("ConnectToken::generate produced `{}`, the arguments say `{}`", trunc_s(o, 120), trunc_s(&want, 120)));
                }
            }
        }
    }
    for i in 0..ops.len() {
        if ops[i] != "note rt" || i + 2 >= ops.len() || i + 2 >= outs.len() {
            continue;
        }
        let (a, b) = (toks(&ops[i + 1]), toks(&ops[i + 2]));
        let (oa, ob) = (&outs[i + 1], &outs[i + 2]);
        // a legal value must encode: packets into the full 1400-byte buffer, sealed / written tokens always (the
        // token ops of the scripts pass well-formed fields only)
        if !oa.starts_with("ok ") && oa != "panic" && oa != "dead" && oa != "bad-op" {
            let legal = match a[0] {
                "nc-enc" if a.len() >= 6 => a[1] == "1400" && (a[5] != "pay" || a.get(6).and_then(|h| p_hex(h)).map(|b| b.len() <= 1300).unwrap_or(false)),
                "ptok-seal" | "tok-write" => true,
                _ => false,
            };
            if legal {
                return fail(i + 1, &format!("roundtrip:encode-failed:{}", a[0]), format!("a legal value was not encoded: `{}` -> `{}`", trunc_s(&ops[i + 1], 60), trunc_s(oa, 40)));
            }
        }
        let Some(ha) = oa.strip_prefix("ok ") else { continue };
        match (a[0], b[0]) {
            ("nc-enc", "nc-dec") if a.len() >= 6 && b.len() == 5 => {
                if b[4] != ha {
                    continue;
                }
                let seq = if a[5] == "req" { "0".to_string() } else { a[3].to_string() };
                // the window given to the decoder may legitimately reject (duplicate) — only `n`/`-` windows are round trips
                if b[3] != "-" && b[3] != "n" {
                    continue;
                }
                let want = format!("ok {} {} rp=", seq, a[5..].join(" "));
                if !ob.starts_with(&want) {
                    return fail(i + 2, &format!("roundtrip:packet:{}", a[5]), format!("encode/decode round trip lost the packet: got `{}`", trunc_s(ob, 60)));
                }
            }
            ("ptok-seal", "ptok-open") if a.len() == 11 && b.len() == 6 => {
                if b[5] != ha {
                    continue;
                }
                let ud = p_user_data(a[10]).map(|u| hex(&u)).unwrap_or_default();
                let want = format!("ok {} {} {} {} {} {}", a[5], a[6], compact_addrs(a[7]), a[8], a[9], ud);
                let empty = compact_addrs(a[7]) == "-" || a[7].starts_with('_');
                if empty {
                    // no first address: such a token must not open
                    if ob.starts_with("ok") {
                        return fail(i + 2, "roundtrip:private-token-without-address", "a private token without a first server address was accepted".into());
                    }
                } else if *ob != want {
                    return fail(i + 2, "roundtrip:private-token", format!("seal/open round trip lost the token: got `{}`", trunc_s(ob, 60)));
                }
            }
            ("tok-write", "tok-read") if a.len() == 12 && b.len() == 2 => {
                if b[1] != ha {
                    continue;
                }
                let mut f: Vec<String> = a[1..].iter().map(|x| x.to_string()).collect();
                f[8] = compact_addrs(&f[8]);
                let want = format!("ok {}", f.join(" "));
                if f[8] == "-" {
                    if ob.starts_with("ok") {
                        return fail(i + 2, "roundtrip:token-without-address", "a connect token without server address was accepted".into());
                    }
                } else if *ob != want {
                    return fail(i + 2, "roundtrip:token", format!("write/read round trip lost the token: got `{}`", trunc_s(ob, 60)));
                }
            }
            _ => {}
        }
    }
    None
}

// ----- C04: surfaced payloads ----------------------------------------------------------------------------------

fn oracle_payloads(ops: &[String], outs: &[String]) -> Option<OracleFail> {
    oracle_payloads_f(ops, outs, |_| true)
}

/// C07 ("… and genuine traffic afterwards is still accepted"), connected sessions: the `genuine-not-surfaced` clause
fn oracle_genuine_still_accepted(ops: &[String], outs: &[String]) -> Option<OracleFail> {
    oracle_payloads_f(ops, outs, |sig| sig.starts_with("genuine-not-surfaced"))
}

/// C10 ("when the server is full further handshakes are refused without disturbing existing sessions"): in a trace in
/// which the script marks the moment from which handshakes reach a full server (`note server-full`), the expectations the
/// script states AFTER the mark about the sessions that hold the seats are judged under this property as well:
///   * `note expect-up:<sig>` before a `srv-q` / `cli-q`: that side of the session is still connected;
///   * `note expect-payload`: a fresh in-window genuine payload datagram handed to a session that the event stream still
///     shows connected is surfaced (the `genuine-not-surfaced` clause of the payload oracle).
/// Traces without the mark are not judged.
fn oracle_full_undisturbed(ops: &[String], outs: &[String]) -> Option<OracleFail> {
    let mark = ops.iter().position(|o| o == "note server-full")?;
    // … and every session the script knows to be live (`note expect-up:…` before a `srv-q` / `cli-q`) is still connected
    let n = ops.len().min(outs.len());
    if mark < n {
        if let Some(f) = oracle_expect_up(&ops[mark..n], &outs[mark..n]) {
            return fail(mark + f.at, &format!("full-server-disturbed-session:{}", f.signature), format!("after a handshake reached the full server a live session is gone: {}", f.what));
        }
    }
    let f = oracle_payloads_f(ops, outs, |sig| sig.starts_with("genuine-not-surfaced"))?;
    if f.at > mark {
        return fail(f.at, &format!("full-server-disturbed-session:{}", f.signature), format!("after a handshake reached the full server: {}", f.what));
    }
    None
}

/// C11 ("misbehaviour, disconnection … of one client … never delays, drops or corrupts traffic of other clients"), at the
/// netcode layer that carries every client's traffic: in a trace in which the script marks the moment
/// from which ANOTHER client has left and a new one has joined (`note others-changed`), the expectations the script states
/// AFTER the mark about the sessions nobody ended are judged under this property as well:
///   * `note expect-up:<sig>` before a `srv-q` / `cli-q`: that side of the session is still connected;
///   * `note expect-payload`: a fresh in-window genuine payload datagram handed to a session that the event stream still
///     shows connected is surfaced (the `genuine-not-surfaced` clause of the payload oracle).
/// Traces without the mark are not judged.
/// C11 ("a message sent to one client is obtained only by that client … a message a client sent is obtained only under
/// that client's id"), at the netcode layer: the `surfaced-not-generated` clauses of the payload oracle — a client surfaces
/// only payloads the server generated for ITS id in that very datagram, the server surfaces a datagram's payload only
/// under the id of the client that generated it
fn oracle_only_addressee(ops: &[String], outs: &[String]) -> Option<OracleFail> {
    oracle_payloads_f(ops, outs, |sig| sig.starts_with("surfaced-not-generated"))
}

fn oracle_others_undisturbed(ops: &[String], outs: &[String]) -> Option<OracleFail> {
    let mark = ops.iter().position(|o| o == "note others-changed")?;
    let n = ops.len().min(outs.len());
    if mark < n {
        if let Some(f) = oracle_expect_up(&ops[mark..n], &outs[mark..n]) {
            return fail(mark + f.at, &format!("other-clients-disturbed:{}", f.signature), format!("after another client left and a new one joined, a session nobody ended is gone: {}", f.what));
        }
    }
    let f = oracle_payloads_f(ops, outs, |sig| sig.starts_with("genuine-not-surfaced"))?;
    if f.at > mark {
        return fail(f.at, &format!("other-clients-disturbed:{}", f.signature), format!("after another client left and a new one joined: {}", f.what));
    }
    None
}

fn oracle_payloads_f(ops: &[String], outs: &[String], keep: fn(&str) -> bool) -> Option<OracleFail> {
    macro_rules! bail {
        ($i:expr, $sig:expr, $msg:expr $(,)?) => {{
            let sig: &str = $sig;
            if keep(sig) {
                return fail($i, sig, $msg);
            } else {
                return None;
            }
        }};
    }
    // generated datagram -> (sender handle, client id, payload hex)
    let mut by_client: HashMap<Vec<u8>, (String, u64, String)> = HashMap::new();
    let mut by_server: HashMap<Vec<u8>, (String, u64, String)> = HashMap::new();
    let mut cli_id: HashMap<String, (u64, usize)> = HashMap::new();
    // (server, datagram) -> session (op index of the `connected` event) in which it was surfaced
    let mut surfaced_srv: HashMap<(String, Vec<u8>), usize> = HashMap::new();
    // (client handle, datagram) -> client instance (op index of its `cli-new`)
    let mut surfaced_cli: HashMap<(String, Vec<u8>), usize> = HashMap::new();
    let mut session: HashMap<(String, u64), usize> = HashMap::new();
    let mut live_addr: HashSet<(String, String)> = HashSet::new();
    let mut expect = false;
    let mut made: HashMap<String, u64> = HashMap::new();
    // client handles that are disconnected for good (own `disconnect()`, or seen disconnected in a dump / query)
    // [interpretation: the statement says "on a connected session" for the converse; the anchor "payload surfaced only in
    // Connected state" is read as a safety clause]
    let mut cli_down: HashSet<String> = HashSet::new();
    walk(ops, outs, &mut |i, t, out, input, em| {
        let expected = expect;
        expect = false;
        match t[0] {
            "note" => {
                if t.len() == 2 && t[1] == "expect-payload" {
                    expect = true;
                }
            }
            "tok-make" if t.len() == 10 && out.starts_with("ok ") => {
                if let Some(id) = p_u64(t[5]) {
                    made.insert(t[1].to_string(), id);
                }
            }
            "cli-newt" if t.len() == 4 && out == "ok" => {
                if let Some(id) = made.get(t[3]) {
                    cli_id.insert(t[1].to_string(), (*id, i));
                }
            }
            "cli-new" if t.len() == 4 && out == "ok" => {
                cli_down.remove(t[1]);
                if let Some(b) = p_hex(t[3]) {
                    if b.len() >= 8 {
                        cli_id.insert(t[1].to_string(), (u64::from_le_bytes(b[..8].try_into().unwrap()), i));
                    }
                }
            }
            "cli-disc" if t.len() == 2 && out.starts_with("send ") => {
                cli_down.insert(t[1].to_string());
            }
            "cli-dump" if t.len() == 2 && out.starts_with("state=Disconnected") => {
                cli_down.insert(t[1].to_string());
            }
            "cli-q" if t.len() == 2 && field(out, "disconnected") == Some("1") => {
                cli_down.insert(t[1].to_string());
            }
            "cli-pay" if t.len() == 3 => {
                if let (Some((_, d)), Some((id, _))) = (em, cli_id.get(t[1])) {
                    by_client.insert(d.clone(), (t[1].to_string(), *id, t[2].to_string()));
                }
            }
            "srv-pay" if t.len() == 4 => {
                if let Some((_, d)) = em {
                    by_server.insert(d.clone(), (t[1].to_string(), p_u64(t[2]).unwrap_or(0), t[3].to_string()));
                }
            }
            "srv-updc" | "srv-disc" => {
                let o = toks(out);
                if o.len() >= 3 && o[0] == "disconnected" {
                    live_addr.remove(&(t[1].to_string(), o[2].to_string()));
                }
            }
            "srv-rx" if t.len() == 4 => {
                let o = toks(out);
                if o.len() >= 3 && o[0] == "disconnected" {
                    live_addr.remove(&(t[1].to_string(), o[2].to_string()));
                }
                if o.len() == 5 && o[0] == "connected" {
                    session.insert((t[1].to_string(), p_u64(o[1]).unwrap_or(0)), i);
                    live_addr.insert((t[1].to_string(), o[2].to_string()));
                }
                if o.len() == 3 && o[0] == "payload" {
                    let d = input?;
                    match by_client.get(d) {
                        Some((_, id, p)) if Some(*id) == p_u64(o[1]) && p == o[2] => {}
                        _ => {
                            bail!(i, "surfaced-not-generated:server", format!("server surfaced a payload for client {} that the peer never generated in this datagram", o[1]));
                        }
                    }
                    let cur = session.get(&(t[1].to_string(), p_u64(o[1]).unwrap_or(0))).cloned().unwrap_or(0);
                    if let Some(prev) = surfaced_srv.insert((t[1].to_string(), d.clone()), cur) {
                        if prev == cur {
                            bail!(i, "surfaced-twice:server", format!("one generated datagram was surfaced twice by the server within one session (client {})", o[1]));
                        }
                        bail!(
                            i,
                            "cross-session-replay",
                            format!("a datagram surfaced in an earlier session of client {} (connected at op {}) was surfaced again after the session was re-established with the same connect token (connected at op {})", o[1], prev, cur),
                        );
                    }
                } else if expected && out != "panic" && out != "dead" && out != "bad-op" && live_addr.contains(&(t[1].to_string(), t[2].to_string())) && input.map(|d| by_client.contains_key(d)).unwrap_or(false) {
                    // (judged only while the source address is connected and the datagram is a generated one:
                    // a minimised trace that lost the session is not a counterexample)
                    bail!(i, "genuine-not-surfaced:server", format!("a fresh in-window genuine payload datagram was not surfaced: `{}`", trunc_s(out, 40)));
                }
            }
            "cli-rx" if t.len() == 3 => {
                let o = toks(out);
                if o.len() == 2 && o[0] == "payload" && cli_down.contains(t[1]) {
                    bail!(i, "surfaced-when-disconnected:client", format!("client {} surfaced a payload after it had disconnected", t[1]));
                }
                if o.len() == 2 && o[0] == "payload" {
                    let d = input?;
                    let (id, at) = cli_id.get(t[1]).cloned()?;
                    match by_server.get(d) {
                        Some((_, sid, p)) if *sid == id && p == o[1] => {}
                        _ => {
                            bail!(i, "surfaced-not-generated:client", format!("client {} surfaced a payload the server never generated for it in this datagram", t[1]));
                        }
                    }
                    if let Some(prev) = surfaced_cli.insert((t[1].to_string(), d.clone()), at) {
                        if prev == at {
                            bail!(i, "surfaced-twice:client", format!("one generated datagram was surfaced twice by client {}", t[1]));
                        }
                        bail!(i, "cross-session-replay", format!("client {} surfaced a datagram that an earlier client instance with the same token had surfaced", t[1]));
                    }
                } else if expected && out != "panic" && out != "dead" && out != "bad-op" && input.map(|d| by_server.contains_key(d)).unwrap_or(false) {
                    bail!(i, "genuine-not-surfaced:client", format!("a fresh in-window genuine payload datagram was not surfaced: `{}`", trunc_s(out, 40)));
                }
            }
            _ => {}
        }
        None
    })
}

/// C04 ("surfaces a payload only if it is … one its session PEER passed to generate_payload_packet"): a datagram an
/// endpoint emitted itself and that comes back to it (reflection) surfaces nothing — identity by history reference
/// (`@k`) or by bytes; and the two directions of a connect token made by the library (`tok-make`) have different keys.
fn oracle_reflection(ops: &[String], outs: &[String]) -> Option<OracleFail> {
    let mut src: Vec<String> = vec![];
    let mut by_bytes: HashMap<Vec<u8>, String> = HashMap::new();
    walk(ops, outs, &mut |i, t, out, input, em| {
        if t.len() < 2 {
            return None;
        }
        let me = if t[0].starts_with("srv-") {
            format!("server {}", t[1])
        } else if t[0].starts_with("cli-") {
            format!("client {}", t[1])
        } else {
            return None;
        };
        let mut result = None;
        if (t[0] == "srv-rx" || t[0] == "cli-rx") && out.starts_with("payload ") {
            let arg = t.last().cloned().unwrap_or("");
            let origin = match arg.strip_prefix('@').and_then(p_u64) {
                Some(k) => src.get(k as usize).cloned(),
                None => input.and_then(|d| by_bytes.get(d).cloned()),
            };
            if origin.as_deref() == Some(me.as_str()) {
                result = fail(i, "reflected-datagram-accepted", format!("{} surfaced `{}` from a datagram it had emitted itself", me, trunc_s(out, 40)));
            }
        }
        if let Some((_, d)) = em {
            src.push(me.clone());
            by_bytes.entry(d.clone()).or_insert(me);
        }
        result
    })
}

/// C04 (premise of "for the same … session keys": one key per direction): a token made by the library has two keys
fn oracle_token_directions(ops: &[String], outs: &[String]) -> Option<OracleFail> {
    for i in 0..ops.len().min(outs.len()) {
        if ops[i].starts_with("tok-make ") && outs[i].starts_with("ok ") && field(&outs[i], "distinct") == Some("0") {
            return fail(i, "token-directions-share-a-key", "ConnectToken::generate produced a token whose client-to-server and server-to-client keys are the same 32 bytes".into());
        }
    }
    None
}

/// C16 ("any byte string that decodes successfully re-encodes to bytes that decode to the same value"): `note rt2` stands
/// between a successful decode (the op before it) and the re-encoding of the printed value (the op after it), followed
/// by the decode of those bytes: the re-encoding succeeds and the second decode prints the same value.
fn oracle_redecode(ops: &[String], outs: &[String]) -> Option<OracleFail> {
    let n = ops.len().min(outs.len());
    for i in 1..n {
        if ops[i] != "note rt2" || !outs[i - 1].starts_with("ok ") || i + 1 >= n {
            continue;
        }
        let kind = toks(&ops[i - 1]).first().cloned().unwrap_or("").to_string();
        let enc = &outs[i + 1];
        if enc == "panic" || enc == "dead" || enc == "bad-op" {
            continue;
        }
        if !enc.starts_with("ok ") {
            return fail(i + 1, &format!("redecode:encode-failed:{}", kind), format!("`{}` decoded to `{}` but that value does not encode: `{}`", trunc_s(&ops[i - 1], 40), trunc_s(&outs[i - 1], 60), trunc_s(enc, 40)));
        }
        if i + 2 < n && toks(&ops[i + 2]).first() == toks(&ops[i - 1]).first() {
            // (the replay window part of an nc-dec line is not part of the value)
            let val = |o: &str| o.split(" rp=").next().unwrap_or("").to_string();
            if val(&outs[i + 2]) != val(&outs[i - 1]) {
                return fail(i + 2, &format!("redecode:value-changed:{}", kind), format!("decoded `{}`, re-encoded and decoded again: `{}`", trunc_s(&outs[i - 1], 70), trunc_s(&outs[i + 2], 70)));
            }
        }
    }
    None
}

/// C10 ("lookups by id (address, user data, …) refer to the session that was authenticated for that id"): the
/// user-data clause of `nc-connect-justified`
fn oracle_connect_user_data(ops: &[String], outs: &[String]) -> Option<OracleFail> {
    oracle_connect_justified_f(ops, outs, |sig| sig.ends_with("user-data-of-another-token"))
}

// ----- C18: timeouts fire exactly at the first update past the deadline ---------------------------------------------

#[derive(Clone, Debug)]
struct CliTok {
    create: u64,
    expire: u64,
    timeout: i32,
    naddrs: usize,
}

fn oracle_timeouts(ops: &[String], outs: &[String]) -> Option<OracleFail> {
    // server: latest dump still describing the receive times
    let mut sdump: HashMap<String, SrvDump> = HashMap::new();
    let mut snow: HashMap<String, u128> = HashMap::new();
    let mut ctok: HashMap<String, CliTok> = HashMap::new();
    let n = ops.len().min(outs.len());
    for i in 0..n {
        let t = toks(&ops[i]);
        if t.len() < 2 {
            continue;
        }
        let h = t[1].to_string();
        match t[0] {
            "srv-new" => {
                sdump.remove(&h);
                if t.len() == 9 && outs[i] == "ok" {
                    snow.insert(h.clone(), p_u64(t[2]).unwrap_or(0) as u128 * 1000);
                }
            }
            "srv-rx" | "srv-disc" | "srv-setmax" | "srv-pay" => {
                sdump.remove(&h);
            }
            "srv-upd" if t.len() == 3 => {
                if let Some(x) = snow.get_mut(&h) {
                    *x += p_u64(t[2]).unwrap_or(0) as u128 * 1000;
                }
            }
            "srv-dump" => {
                if let Some(d) = parse_srv_dump(&outs[i]) {
                    if let Some(x) = snow.get(&h) {
                        if *x != d.now {
                            return fail(i, "server-clock", format!("server clock {} differs from the sum of updates {}", d.now, x));
                        }
                    }
                    sdump.insert(h.clone(), d);
                }
            }
            "srv-updc" if t.len() == 3 => {
                if let (Some(d), Some(now), Some(id)) = (sdump.get(&h), snow.get(&h), p_u64(t[2])) {
                    let out = &outs[i];
                    if out == "panic" || out == "dead" {
                        continue;
                    }
                    match d.slots.iter().find(|s| s.id == id) {
                        None => {
                            if out != "none" {
                                return fail(i, "update-of-unknown-client", format!("update_client of a client that is not connected answered `{}`", trunc_s(out, 40)));
                            }
                        }
                        Some(sl) => {
                            let due = sl.timeout > 0 && sl.recv + (sl.timeout as u128) * 1_000_000_000 < *now;
                            let fired = out.starts_with("disconnected ");
                            if due && !fired {
                                return fail(i, "timeout-missed:server", format!("client {} silent since {} ns, timeout {} s, now {} ns: not disconnected", id, sl.recv, sl.timeout, now));
                            }
                            if !due && fired {
                                return fail(i, "timeout-early:server", format!("client {} last heard at {} ns, timeout {} s, now {} ns: disconnected", id, sl.recv, sl.timeout, now));
                            }
                        }
                    }
                    // the slot of this id may have changed (removed, keep-alive sent): other ids unaffected
                    if let Some(d) = sdump.get_mut(&h) {
                        if outs[i].starts_with("disconnected ") {
                            d.slots.retain(|s| s.id != id);
                        }
                    }
                }
            }
            "cli-new" if t.len() == 4 && outs[i] == "ok" => {
                if let Some(b) = p_hex(t[3]) {
                    if let Ok(tok) = ConnectToken::read(&mut &b[..]) {
                        ctok.insert(
                            h.clone(),
                            CliTok {
                                create: tok.create_timestamp,
                                expire: tok.expire_timestamp,
                                timeout: tok.timeout_seconds,
                                naddrs: tok.server_addresses.iter().take_while(|a| a.is_some()).count(),
                            },
                        );
                    }
                }
            }
            "cli-upd" if t.len() == 3 && i >= 1 && i + 1 < n => {
                // judged only when bracketed by dumps of the same client
                let dump_op = format!("cli-dump {}", h);
                if ops[i - 1] != dump_op || ops[i + 1] != dump_op {
                    continue;
                }
                let (before, after) = (&outs[i - 1], &outs[i + 1]);
                if outs[i] == "panic" || outs[i] == "dead" || after == "dead" {
                    continue;
                }
                let Some(tok) = ctok.get(&h) else { continue };
                let (Some(state), Some(now), Some(recv), Some(start), Some(idx)) = (
                    field(before, "state"),
                    field(before, "now").and_then(|x| x.parse::<u128>().ok()),
                    field(before, "recv").and_then(|x| x.parse::<u128>().ok()),
                    field(before, "start").and_then(|x| x.parse::<u128>().ok()),
                    field(before, "idx").and_then(|x| p_u64(x)),
                ) else {
                    continue;
                };
                let now2 = now + p_u64(t[2]).unwrap_or(0) as u128 * 1000;
                let timed_out = tok.timeout > 0 && recv + (tok.timeout as u128) * 1_000_000_000 < now2;
                let state2 = field(after, "state").unwrap_or("");
                let want: String = match state {
                    "Connected" => {
                        if timed_out {
                            "Disconnected(ConnectionTimedOut)".into()
                        } else {
                            "Connected".into()
                        }
                    }
                    "SendingConnectionRequest" | "SendingConnectionResponse" => {
                        let expire_s = tok.expire.saturating_sub(tok.create) as u128;
                        if (now2 - start) / 1_000_000_000 >= expire_s {
                            "Disconnected(ConnectTokenExpired)".into()
                        } else if timed_out {
                            if (idx as usize) + 1 < tok.naddrs.min(32) {
                                "SendingConnectionRequest".into()
                            } else if state == "SendingConnectionResponse" {
                                "Disconnected(ConnectionResponseTimedOut)".into()
                            } else {
                                "Disconnected(ConnectionRequestTimedOut)".into()
                            }
                        } else {
                            state.to_string()
                        }
                    }
                    other => other.to_string(),
                };
                if state2 != want {
                    let class = if want.starts_with("Disconnected") && !state2.starts_with("Disconnected") {
                        "timeout-missed:client"
                    } else if state2.starts_with("Disconnected") && !want.starts_with("Disconnected") {
                        "timeout-early:client"
                    } else {
                        "timeout-wrong-outcome:client"
                    };
                    return fail(
                        i,
                        class,
                        format!("client {}: state {} at {} ns (last heard {} ns, timeout {} s) became {} after update to {} ns, expected {}", h, state, now, recv, tok.timeout, state2, now2, want),
                    );
                }
                if timed_out && state == "Connected" && outs[i] != "none" {
                    return fail(i, "send-after-timeout:client", "a timed-out client still produced a datagram".into());
                }
            }
            _ => {}
        }
    }
    None
}

/// C18 (server side, clocks reconstructed from the ops — the implementation's own `recv=` is not consulted):
/// "a connected peer from which no authentic packet arrived for more than the token's timeout is disconnected at the
/// next update … forged or replayed packets do not postpone a timeout", and a peer is not timed out before that.
/// For every session (`connected <id> <addr>` … `disconnected <id>`) of a client whose token was issued in the trace:
///   hi = latest server time at which a datagram reached the server from <addr> that COULD have refreshed the timer:
///        the connection itself, or a keep-alive / payload packet that opens under the token's client-to-server key
///        and whose bytes were not handed to this server from <addr> before in this session (a repeated datagram, a
///        handshake packet, anything that does not open under the key cannot be a fresh authentic packet);
///   lo = latest server time at which the peer was certainly heard: the connection, or a datagram answered `payload`.
///   `srv-updc <id>` must answer `disconnected` when now > hi + timeout, and must not when now <= lo + timeout.
fn oracle_timeout_not_postponed(ops: &[String], outs: &[String]) -> Option<OracleFail> {
    struct Sess {
        addr: String,
        c2s: [u8; 32],
        timeout: i32,
        hi: u128,
        lo: u128,
        seen: HashSet<Vec<u8>>,
        // datagrams from the address since `hi` that cannot have refreshed the timer
        noise: usize,
    }
    struct S {
        proto: u64,
        now_ns: u128,
        sess: HashMap<u64, Sess>,
    }
    let tokens = tokens_of(ops, outs, ops.len());
    let mut servers: HashMap<String, S> = HashMap::new();
    walk(ops, outs, &mut |i, t, out, input, _| {
        if t.len() < 2 || out == "panic" || out == "dead" || out == "bad-op" {
            return None;
        }
        match t[0] {
            "srv-new" if t.len() == 9 && out == "ok" => {
                servers.insert(t[1].to_string(), S { proto: p_u64(t[4]).unwrap_or(0), now_ns: p_u64(t[2]).unwrap_or(0) as u128 * 1000, sess: HashMap::new() });
            }
            "srv-upd" if t.len() == 3 && out == "ok" => {
                if let Some(s) = servers.get_mut(t[1]) {
                    s.now_ns += p_u64(t[2]).unwrap_or(0) as u128 * 1000;
                }
            }
            _ => {}
        }
        let s = servers.get_mut(t[1])?;
        if !t[0].starts_with("srv-") {
            return None;
        }
        let o = toks(out);
        let mut result = None;
        if t[0] == "srv-rx" && t.len() == 4 {
            if let Some(d) = input {
                let now = s.now_ns;
                let proto = s.proto;
                if let Some(se) = s.sess.values_mut().find(|se| se.addr == t[2]) {
                    let fresh = matches!(try_open(d, proto, &se.c2s), Some((4, _, _)) | Some((5, _, _))) && !se.seen.contains(d);
                    se.seen.insert(d.clone());
                    if fresh {
                        se.hi = now;
                        se.noise = 0;
                    } else {
                        se.noise += 1;
                    }
                    if o.len() == 3 && o[0] == "payload" {
                        se.hi = now;
                        se.lo = now;
                    }
                }
                if o.len() == 5 && o[0] == "connected" {
                    if let Some(id) = p_u64(o[1]) {
                        s.sess.remove(&id);
                        if let Some(k) = tokens.iter().find(|k| k.id == id && matches!(try_open(d, proto, &k.c2s), Some((3, _, _)))) {
                            s.sess.insert(id, Sess { addr: o[2].to_string(), c2s: k.c2s, timeout: k.timeout, hi: now, lo: now, seen: HashSet::new(), noise: 0 });
                        }
                    }
                }
            }
        }
        if t[0] == "srv-q" && t.len() == 3 {
            // time_since_last_received_packet(id) = now − (time the peer was last heard): between now − hi and now − lo
            if let (Some(id), now) = (p_u64(t[2]), s.now_ns) {
                if let (Some(se), Some(idle)) = (s.sess.get(&id), field(out, "idle").and_then(|x| x.parse::<u128>().ok())) {
                    if now >= se.hi && (idle < now - se.hi || idle > now - se.lo) {
                        result = fail(
                            i,
                            "idle-time-inconsistent:server",
                            format!(
                                "time_since_last_received_packet({}) = {} ns at {} ns; the peer was certainly heard at {} ns and nothing that can have been a fresh authentic datagram arrived after {} ns",
                                id, idle, now, se.lo, se.hi
                            ),
                        );
                    }
                }
            }
        }
        if t[0] == "srv-updc" && t.len() == 3 {
            if let (Some(id), now) = (p_u64(t[2]), s.now_ns) {
                if let Some(se) = s.sess.get(&id) {
                    let fired = o.first() == Some(&"disconnected");
                    let t_ns = se.timeout.max(0) as u128 * 1_000_000_000;
                    if se.timeout > 0 && now > se.hi + t_ns && !fired {
                        let sig = if se.noise > 0 { "timeout-postponed-by-replay:server" } else { "timeout-missed:server" };
                        result = fail(
                            i,
                            sig,
                            format!(
                                "client {} at {}: the last datagram that can have been a fresh authentic one arrived at {} ns, timeout {} s, now {} ns: update_client did not report the timeout ({} replayed / unauthentic datagram(s) from its address since then)",
                                id, se.addr, se.hi, se.timeout, now, se.noise
                            ),
                        );
                    }
                    if fired && (se.timeout <= 0 || now <= se.lo + t_ns) {
                        result = fail(
                            i,
                            "timeout-early:server",
                            format!("client {} at {} was certainly heard at {} ns, timeout {} s, now {} ns: update_client reported a timeout", id, se.addr, se.lo, se.timeout, now),
                        );
                    }
                }
            }
        }
        if o.len() >= 3 && o[0] == "disconnected" {
            if let Some(id) = p_u64(o[1]) {
                s.sess.remove(&id);
            }
        }
        result
    })
}

/// C20 ("an on-path party … reorders, replays … datagrams, and such interference never disconnects an otherwise healthy
/// session other than through timeouts"), netcode client, for late handshake-phase datagrams. Judged pattern, all of it
/// read off the trace: `cli-q h` (connected=1) · `cli-rx h <d>` · `cli-q h` with nothing but notes in between (so no time
/// passes), where <d> announces packet type ConnectionDenied or Challenge, was emitted by a server op BEFORE the op that
/// reported `connected <id of h>`, and that session has not been reported `disconnected` since. Then the second
/// `cli-q h` still says connected=1 (and nothing is surfaced). Disconnect / keep-alive / payload datagrams are not judged.
fn oracle_stale_handshake_harmless(ops: &[String], outs: &[String]) -> Option<OracleFail> {
    let mut cli_id: HashMap<String, u64> = HashMap::new();
    let mut srv_emitted: HashMap<Vec<u8>, usize> = HashMap::new();
    let mut session_start: HashMap<u64, usize> = HashMap::new();
    let n = ops.len().min(outs.len());
    walk(ops, outs, &mut |i, t, out, input, em| {
        if t.len() < 2 {
            return None;
        }
        if t[0] == "cli-new" && t.len() == 4 {
            cli_id.remove(t[1]);
            if out == "ok" {
                if let Some(b) = p_hex(t[3]) {
                    if b.len() >= 8 {
                        cli_id.insert(t[1].to_string(), u64::from_le_bytes(b[..8].try_into().unwrap()));
                    }
                }
            }
        }
        if t[0].starts_with("srv-") {
            if let Some((_, d)) = em {
                srv_emitted.entry(d.clone()).or_insert(i);
            }
            let o = toks(out);
            if o.len() >= 3 && o[0] == "connected" {
                if let Some(id) = p_u64(o[1]) {
                    session_start.insert(id, i);
                }
            }
            if o.len() >= 3 && o[0] == "disconnected" {
                if let Some(id) = p_u64(o[1]) {
                    session_start.remove(&id);
                }
            }
        }
        if t[0] == "cli-rx" && t.len() == 3 && i + 1 < n {
            let d = input?;
            let ty = d.first().map(|b| b & 0xf)?;
            if ty != 1 && ty != 2 {
                return None;
            }
            let q = format!("cli-q {}", t[1]);
            let mut b = i;
            while b > 0 && ops[b - 1].starts_with("note ") {
                b -= 1;
            }
            if b == 0 || ops[b - 1] != q || ops[i + 1] != q || field(&outs[b - 1], "connected") != Some("1") {
                return None;
            }
            let after = &outs[i + 1];
            if out == "panic" || out == "dead" || after == "panic" || after == "dead" || after == "bad-op" {
                return None;
            }
            let id = cli_id.get(t[1])?;
            let start = session_start.get(id)?;
            let emitted = srv_emitted.get(d)?;
            if emitted < start && (field(after, "connected") != Some("1") || out != "none") {
                let kind = if ty == 1 { "denied" } else { "challenge" };
                return fail(
                    i + 1,
                    &format!("stale-handshake-datagram-ended-session:{}", kind),
                    format!(
                        "client {} (id {}) was connected (session reported at op {}); a {} datagram the server had emitted at op {}, before that session started, was delivered late: `{}` / `{}`",
                        t[1], id, start, kind, emitted, trunc_s(out, 30), trunc_s(after, 90)
                    ),
                );
            }
        }
        None
    })
}

/// C18 ("half-open sessions vanish when their token expires"): a half-open handshake = a request from A carrying a token
/// issued in the trace, answered towards A with a challenge under that token's key. Once a server update has left the
/// clock's second beyond the token's expiry second, a response from A under that token's key completes nothing.
fn oracle_half_open_expiry(ops: &[String], outs: &[String]) -> Option<OracleFail> {
    let tokens = tokens_of(ops, outs, ops.len());
    // server -> (protocol id, clock in µs)
    let mut srv: HashMap<String, (u64, u64)> = HashMap::new();
    // (server, address) -> (token, expired at an update since the challenge)
    let mut pend: HashMap<(String, String), (usize, bool)> = HashMap::new();
    walk(ops, outs, &mut |i, t, out, input, em| {
        if t.len() < 2 {
            return None;
        }
        match t[0] {
            "srv-new" if t.len() == 9 && out == "ok" => {
                srv.insert(t[1].to_string(), (p_u64(t[4]).unwrap_or(0), p_u64(t[2]).unwrap_or(0)));
                pend.retain(|k, _| k.0 != t[1]);
            }
            "srv-upd" if t.len() == 3 && out == "ok" => {
                if let Some(sv) = srv.get_mut(t[1]) {
                    sv.1 = sv.1.saturating_add(p_u64(t[2]).unwrap_or(0));
                    let now_s = sv.1 / 1_000_000;
                    for (k, v) in pend.iter_mut() {
                        if k.0 == t[1] && now_s > tokens[v.0].expire {
                            v.1 = true;
                        }
                    }
                }
            }
            "srv-rx" if t.len() == 4 => {
                let (Some(sv), Some(d)) = (srv.get(t[1]), input) else { return None };
                let key = (t[1].to_string(), t[2].to_string());
                if d.len() >= 1078 && d[0] & 0xf == 0 {
                    if let Some(ti) = tokens.iter().position(|k| k.private == d[54..1078]) {
                        match em {
                            Some((to, e)) if *to == t[2] && matches!(try_open(e, sv.0, &tokens[ti].s2c), Some((2, _, _))) => {
                                pend.insert(key, (ti, false));
                            }
                            _ => {
                                pend.remove(&key);
                            }
                        }
                    }
                } else if out.starts_with("connected ") {
                    if let Some((ti, true)) = pend.get(&key).copied() {
                        if matches!(try_open(d, sv.0, &tokens[ti].c2s), Some((3, _, _))) {
                            return fail(
                                i,
                                "expired-half-open-completed",
                                format!("the half-open handshake of client {} at {} (token expiry second {}) was completed by a response although an update had moved the server's clock past that second", tokens[ti].id, t[2], tokens[ti].expire),
                            );
                        }
                    }
                    pend.remove(&key);
                }
            }
            _ => {}
        }
        None
    })
}

/// C18, client side, on a clock reconstructed from the ops (`cli-new` + `cli-upd`), never from the client's own `recv=`:
///   hi = latest time a datagram was handed to the client that opens under its token's server-to-client key and that it
///        had not been handed before (anything else — repeats, junk, foreign keys — cannot be a fresh authentic packet);
///   lo = latest time a `cli-rx` surfaced a payload (the peer was certainly heard).
/// A client seen connected that is updated to a time later than hi + timeout must be seen disconnected at the next
/// `cli-q` / `cli-dump` ("… is disconnected at the next update (on both sides)", "forged or replayed packets do not
/// postpone a timeout"); a client seen `ConnectionTimedOut` at a time <= lo + timeout was timed out early ("a peer from
/// which authentic packets keep arriving … is never timed out").
fn oracle_client_timeout(ops: &[String], outs: &[String]) -> Option<OracleFail> {
    struct C {
        now_us: u128,
        proto: u64,
        s2c: [u8; 32],
        timeout: i32,
        hi: u128,
        lo: Option<u128>,
        seen: HashSet<Vec<u8>>,
        connected_seen: bool,
        must_be_down: Option<usize>,
        noise: usize,
        opaque: bool,
    }
    let mut cl: HashMap<String, C> = HashMap::new();
    walk(ops, outs, &mut |i, t, out, input, _| {
        if t.len() < 2 || out == "panic" || out == "dead" || out == "bad-op" {
            return None;
        }
        match t[0] {
            "cli-new" if t.len() == 4 => {
                cl.remove(t[1]);
                if out == "ok" {
                    if let (Some(now), Some(tok)) = (p_u64(t[2]), p_hex(t[3]).and_then(|b| ConnectToken::read(&mut &b[..]).ok())) {
                        cl.insert(
                            t[1].to_string(),
                            C { now_us: now as u128, proto: tok.protocol_id, s2c: tok.server_to_client_key, timeout: tok.timeout_seconds, hi: now as u128, lo: None, seen: HashSet::new(), connected_seen: false, must_be_down: None, noise: 0, opaque: false },
                        );
                    }
                }
            }
            "cli-newt" => {
                cl.remove(t[1]);
            }
            "cli-rx" if t.len() == 3 => {
                let c = cl.get_mut(t[1])?;
                match input {
                    None => c.opaque = true,
                    Some(d) if t[2].starts_with('@') && d.first() == Some(&0xff) => c.opaque = true,
                    Some(d) => {
                        let fresh = try_open(d, c.proto, &c.s2c).is_some() && !c.seen.contains(d);
                        c.seen.insert(d.clone());
                        if fresh {
                            c.hi = c.now_us;
                            c.noise = 0;
                        } else {
                            c.noise += 1;
                        }
                        if out.starts_with("payload ") {
                            c.hi = c.now_us;
                            c.lo = Some(c.now_us);
                        }
                    }
                }
            }
            "cli-upd" if t.len() == 3 => {
                let c = cl.get_mut(t[1])?;
                c.now_us += p_u64(t[2]).unwrap_or(0) as u128;
                if c.connected_seen && !c.opaque && c.timeout > 0 && c.now_us > c.hi + c.timeout as u128 * 1_000_000 && c.must_be_down.is_none() {
                    c.must_be_down = Some(i);
                }
            }
            "cli-q" | "cli-dump" if t.len() == 2 => {
                let c = cl.get_mut(t[1])?;
                let (connected, timed_out) = if t[0] == "cli-q" {
                    (field(out, "connected") == Some("1"), field(out, "reason") == Some("ConnectionTimedOut"))
                } else {
                    (field(out, "state") == Some("Connected"), field(out, "state") == Some("Disconnected(ConnectionTimedOut)"))
                };
                if connected {
                    if let Some(at) = c.must_be_down {
                        return fail(
                            i,
                            if c.noise > 0 { "timeout-postponed:client" } else { "timeout-missed:client" },
                            format!(
                                "client {}: the last datagram that can have been a fresh authentic one arrived at {} us, timeout {} s; it was updated to a later time at op {} and still reports connected at {} us ({} replayed / unauthentic datagram(s) since then)",
                                t[1], c.hi, c.timeout, at, c.now_us, c.noise
                            ),
                        );
                    }
                    c.connected_seen = true;
                } else {
                    c.connected_seen = false;
                    c.must_be_down = None;
                    if let (true, Some(lo), false) = (timed_out, c.lo, c.opaque) {
                        if c.timeout <= 0 || c.now_us <= lo + c.timeout as u128 * 1_000_000 {
                            return fail(i, "timeout-early:client", format!("client {} surfaced a payload at {} us, timeout {} s, and reports ConnectionTimedOut at {} us", t[1], lo, c.timeout, c.now_us));
                        }
                    }
                }
            }
            _ => {}
        }
        None
    })
}

/// C18 (progress): where the script knows a handshake must complete, it does
fn oracle_expect_connected(ops: &[String], outs: &[String]) -> Option<OracleFail> {
    for i in 0..ops.len() {
        if !(ops[i] == "note expect-connected" || ops[i].starts_with("note expect-connected:")) || i + 1 >= ops.len() || i + 1 >= outs.len() {
            continue;
        }
        let sig = ops[i].strip_prefix("note expect-connected:").unwrap_or("valid-response-not-connected");
        let o = &outs[i + 1];
        if !o.starts_with("connected ") && o != "panic" && o != "dead" {
            return fail(i + 1, sig, format!("a valid connection response with a free slot below the limit was answered `{}`", trunc_s(o, 40)));
        }
    }
    None
}


/// C18 (progress), second form: `note expect-up[:<signature>]` before a `cli-q` / `srv-q` — the script knows
/// that an honest client with a valid token, a free slot and a lossless network for long enough must be
/// connected (on that side) by now
fn oracle_expect_up(ops: &[String], outs: &[String]) -> Option<OracleFail> {
    for i in 0..ops.len() {
        if !(ops[i] == "note expect-up" || ops[i].starts_with("note expect-up:")) || i + 1 >= ops.len() || i + 1 >= outs.len() {
            continue;
        }
        let sig = ops[i].strip_prefix("note expect-up:").unwrap_or("not-connected-after-lossless-phase");
        let o = &outs[i + 1];
        if o == "panic" || o == "dead" || o == "bad-op" {
            continue; // (a shrunk trace that lost the client is not a counterexample)
        }
        let t = toks(&ops[i + 1]);
        let up = match t.first().cloned() {
            Some("cli-q") => field(o, "connected") == Some("1"),
            Some("srv-q") => field(o, "conn") == Some("1"),
            _ => continue,
        };
        if !up {
            return fail(
                i + 1,
                sig,
                format!("after a lossless phase long enough for every silent address plus three send periods the {} side is not connected: `{}`", if t[0] == "cli-q" { "client" } else { "server" }, trunc_s(o, 90)),
            );
        }
    }
    None
}

/// C18 (fail-over safety): a client leaves a server address (moves on to the next one, or gives up with
/// Connection{Request,Response}TimedOut) only after more than `timeout_seconds` on THAT address.
/// Client clocks are reconstructed from the ops; a fail-over is seen as a connection request towards a new address.
fn oracle_failover_patient(ops: &[String], outs: &[String]) -> Option<OracleFail> {
    struct C {
        t_us: u128,
        start_us: u128,
        dest: Option<String>,
        timeout: i32,
        // number of updates since the last observation that showed the client still connecting
        upd_since_obs: u32,
        gave_up: bool,
    }
    let mut cl: HashMap<String, C> = HashMap::new();
    let n = ops.len().min(outs.len());
    for i in 0..n {
        let t = toks(&ops[i]);
        if t.len() < 2 {
            continue;
        }
        let h = t[1].to_string();
        match t[0] {
            "cli-new" if t.len() == 4 => {
                cl.remove(&h);
                if outs[i] == "ok" {
                    if let (Some(now), Some(b)) = (p_u64(t[2]), p_hex(t[3])) {
                        if let Ok(tok) = ConnectToken::read(&mut &b[..]) {
                            cl.insert(h, C { t_us: now as u128, start_us: now as u128, dest: None, timeout: tok.timeout_seconds, upd_since_obs: 0, gave_up: false });
                        }
                    }
                }
            }
            "cli-upd" if t.len() == 3 => {
                let Some(c) = cl.get_mut(&h) else { continue };
                c.t_us += p_u64(t[2]).unwrap_or(0) as u128;
                c.upd_since_obs += 1;
                let o = toks(&outs[i]);
                if o.len() == 3 && o[0] == "send" && o[2].len() >= 2156 {
                    let first = u8::from_str_radix(&o[2][..2], 16).unwrap_or(0xff);
                    if first & 0xf == 0 {
                        // a connection request
                        match &c.dest {
                            Some(d) if d != o[1] => {
                                let spent = c.t_us - c.start_us;
                                if c.timeout > 0 && spent <= c.timeout as u128 * 1_000_000 {
                                    return fail(
                                        i,
                                        "failover-gave-up-early",
                                        format!("client {} left server address {} for {} after {} us, its timeout is {} s", h, d, o[1], spent, c.timeout),
                                    );
                                }
                                c.start_us = c.t_us;
                                c.dest = Some(o[1].to_string());
                                c.upd_since_obs = 0;
                            }
                            None => c.dest = Some(o[1].to_string()),
                            _ => {}
                        }
                    }
                }
            }
            "cli-q" | "cli-dump" => {
                let Some(c) = cl.get_mut(&h) else { continue };
                let o = &outs[i];
                let (connecting, timed_out) = if t[0] == "cli-q" {
                    (field(o, "connecting") == Some("1"), matches!(field(o, "reason"), Some("ConnectionRequestTimedOut") | Some("ConnectionResponseTimedOut")))
                } else {
                    let st = field(o, "state").unwrap_or("");
                    (st.starts_with("Sending"), st == "Disconnected(ConnectionRequestTimedOut)" || st == "Disconnected(ConnectionResponseTimedOut)")
                };
                if connecting {
                    c.upd_since_obs = 0;
                }
                if timed_out && !c.gave_up {
                    c.gave_up = true;
                    // the client gave up at one of the updates since the last observation; even the latest of them
                    // (the current client time) must lie more than the timeout after it started on this address
                    let spent = c.t_us - c.start_us;
                    if c.timeout > 0 && spent <= c.timeout as u128 * 1_000_000 {
                        return fail(
                            i,
                            "failover-gave-up-early",
                            format!(
                                "client {} gave up on server address {} (no more servers) {} us after it started trying it, its timeout is {} s",
                                h,
                                c.dest.clone().unwrap_or_default(),
                                spent,
                                c.timeout
                            ),
                        );
                    }
                }
            }
            _ => {}
        }
    }
    None
}


/// C18 (fail-over completeness): a client gives up with Connection{Request,Response}TimedOut only after it has
/// addressed every server of its token (tokens of these profiles list pairwise distinct addresses)
fn oracle_failover_tries_all(ops: &[String], outs: &[String]) -> Option<OracleFail> {
    struct C {
        naddrs: usize,
        tried: Vec<String>,
        gave_up: bool,
    }
    let mut cl: HashMap<String, C> = HashMap::new();
    for i in 0..ops.len().min(outs.len()) {
        let t = toks(&ops[i]);
        if t.len() < 2 {
            continue;
        }
        let h = t[1].to_string();
        match t[0] {
            "cli-new" if t.len() == 4 => {
                cl.remove(&h);
                if outs[i] == "ok" {
                    if let Some(b) = p_hex(t[3]) {
                        if let Ok(tok) = ConnectToken::read(&mut &b[..]) {
                            let list: Vec<String> = tok.server_addresses.iter().flatten().map(|a| addr_text(a)).collect();
                            let distinct: HashSet<&String> = list.iter().collect();
                            if distinct.len() == list.len() {
                                // the first address is on trial from the moment the client exists
                                cl.insert(h, C { naddrs: list.len(), tried: list.iter().take(1).cloned().collect(), gave_up: false });
                            }
                        }
                    }
                }
            }
            "cli-upd" if t.len() == 3 => {
                if let Some(c) = cl.get_mut(&h) {
                    let o = toks(&outs[i]);
                    if o.len() == 3 && o[0] == "send" && !c.tried.iter().any(|a| a == o[1]) {
                        c.tried.push(o[1].to_string());
                    }
                }
            }
            "cli-q" | "cli-dump" => {
                if let Some(c) = cl.get_mut(&h) {
                    let o = &outs[i];
                    let timed_out = if t[0] == "cli-q" {
                        matches!(field(o, "reason"), Some("ConnectionRequestTimedOut") | Some("ConnectionResponseTimedOut"))
                    } else {
                        matches!(field(o, "state"), Some("Disconnected(ConnectionRequestTimedOut)") | Some("Disconnected(ConnectionResponseTimedOut)"))
                    };
                    if timed_out && !c.gave_up {
                        c.gave_up = true;
                        if c.tried.len() < c.naddrs {
                            return fail(
                                i,
                                "failover-skipped-address",
                                format!("client {} gave up (no more servers) after trying {} of the {} server addresses of its token", h, c.tried.len(), c.naddrs),
                            );
                        }
                    }
                }
            }
            _ => {}
        }
    }
    None
}

// ----- C19 / C05: no answer at all to a datagram that does not carry a valid connect token --------------------

/// Every connection request whose token is not valid for this server, this moment and this source address
/// (unknown / foreign key / foreign protocol id / tampered public fields / expired / wrong host list / already
/// bound to another address) and every connection response that cannot belong to a handshake of its source
/// address must be answered `none` — whatever the state of the server (full or not).
fn oracle_silent_to_invalid(ops: &[String], outs: &[String]) -> Option<OracleFail> {
    let tokens = tokens_of(ops, outs, ops.len());
    struct S {
        cfg: SrvCfg,
        ckey: [u8; 32],
        ids: HashSet<u64>,
        addrs: HashSet<String>,
        id_addr: HashMap<u64, String>,
        // token index -> address it is bound to
        bound: HashMap<usize, String>,
        // (address, token index) pairs whose request was answered
        requested: HashSet<(String, usize)>,
    }
    let mut servers: HashMap<String, S> = HashMap::new();
    walk(ops, outs, &mut |i, t, out, input, _| {
        match t[0] {
            "srv-new" if t.len() == 9 && out == "ok" => {
                servers.insert(
                    t[1].to_string(),
                    S {
                        cfg: SrvCfg {
                            proto: p_u64(t[4]).unwrap_or(0),
                            key: if t[5] == "1" { p_hex(t[6]).unwrap_or_default() } else { vec![0u8; 32] },
                            secure: t[5] == "1",
                            addrs: t[8].split(',').map(|a| a.to_string()).collect(),
                            now_us: p_u64(t[2]).unwrap_or(0),
                        },
                        ckey: p_hexn::<32>(t[7]).unwrap_or([0u8; 32]),
                        ids: HashSet::new(),
                        addrs: HashSet::new(),
                        id_addr: HashMap::new(),
                        bound: HashMap::new(),
                        requested: HashSet::new(),
                    },
                );
            }
            "srv-upd" if t.len() == 3 && out == "ok" => {
                if let Some(s) = servers.get_mut(t[1]) {
                    s.cfg.now_us = s.cfg.now_us.saturating_add(p_u64(t[2]).unwrap_or(0));
                }
            }
            _ => {}
        }
        let mut result = None;
        if t[0] == "srv-rx" && t.len() == 4 {
            if let (Some(s), Some(d)) = (servers.get_mut(t[1]), input) {
                let addr = t[2].to_string();
                let answered = out.starts_with("send ") || out.starts_with("connected ");
                if out != "panic" && out != "dead" && !d.is_empty() {
                    let ty = d[0] & 0xf;
                    if ty == 0 && d.len() >= 1078 {
                        // ---- connection request: why would it be invalid?
                        let version_ok = &d[1..14] == b"NETCODE 1.02\0";
                        let pub_proto = u64::from_le_bytes(d[14..22].try_into().unwrap());
                        let pub_expire = u64::from_le_bytes(d[22..30].try_into().unwrap());
                        let xnonce = &d[30..54];
                        let private = &d[54..1078];
                        let ti = tokens.iter().position(|k| k.private == private);
                        let now_s = s.cfg.now_us / 1_000_000;
                        let invalid: Option<&str> = if !version_ok {
                            Some("bad-version")
                        } else if pub_proto != s.cfg.proto {
                            Some("foreign-protocol")
                        } else if now_s >= pub_expire {
                            Some("expired")
                        } else {
                            match ti {
                                None => Some("unknown-token"),
                                Some(ti) => {
                                    let k = &tokens[ti];
                                    if k.key != s.cfg.key {
                                        Some("foreign-key")
                                    } else if k.proto != pub_proto || k.expire != pub_expire || k.xnonce != xnonce {
                                        Some("tampered-public-fields")
                                    } else if s.cfg.secure && !k.addrs.iter().any(|a| s.cfg.addrs.contains(a)) {
                                        Some("wrong-host")
                                    } else if s.addrs.contains(&addr) {
                                        Some("address-already-connected")
                                    } else if s.ids.contains(&k.id) {
                                        Some("client-id-already-connected")
                                    } else if s.bound.get(&ti).map(|b| *b != addr).unwrap_or(false) {
                                        Some("bound-to-other-address")
                                    } else {
                                        None
                                    }
                                }
                            }
                        };
                        match invalid {
                            Some(kind) => {
                                if answered {
                                    result = fail(
                                        i,
                                        &format!("answered-invalid-token:{}", kind),
                                        format!("a connection request from {} with an invalid token ({}) was answered with {} bytes (`{}`)", addr, kind, emitted_of("srv-rx", out).map(|e| e.1.len()).unwrap_or(0), trunc_s(out, 30)),
                                    );
                                }
                            }
                            None => {
                                // a valid token: it becomes bound to this address unless the server stops before
                                // looking at its table (client id or address already connected)
                                let ti = ti.unwrap();
                                s.bound.entry(ti).or_insert(addr.clone());
                                if answered {
                                    s.requested.insert((addr.clone(), ti));
                                }
                            }
                        }
                    } else if ty != 3 && answered && !s.addrs.contains(&addr) && !(t[3].starts_with('@') && d[0] == 0xff) {
                        // (not judged: a datagram whose content the trace hides — `nc-quiet`, referenced by index)
                        // neither a (full-size) request nor a response, from an address without a completed handshake
                        result = fail(
                            i,
                            "answered-non-handshake",
                            format!("a datagram of type {} ({} bytes) from {}, which has no completed handshake, was answered `{}`", ty, d.len(), addr, trunc_s(out, 30)),
                        );
                    } else if ty == 3 && answered {
                        // ---- connection response that got an answer: it must belong to a handshake of this address
                        let opened = tokens.iter().enumerate().find_map(|(ti, k)| try_open(d, s.cfg.proto, &k.c2s).map(|(_, _, body)| (ti, body)));
                        let kind: Option<&str> = match opened {
                            None => Some("unknown-key"),
                            Some((ti, body)) => {
                                let k = &tokens[ti];
                                if !s.requested.contains(&(addr.clone(), ti)) {
                                    Some("without-request-from-this-address")
                                } else if body.len() < 308 {
                                    Some("short")
                                } else {
                                    // the challenge token inside: sealed by this server for (id, user data) of that token?
                                    let cseq = u64::from_le_bytes(body[..8].try_into().unwrap());
                                    let mut ct = body[8..8 + 284].to_vec();
                                    let tag = Tag::from_slice(&body[8 + 284..308]);
                                    let cipher = ChaCha20Poly1305::new(Key::from_slice(&s.ckey));
                                    match cipher.decrypt_in_place_detached(Nonce::from_slice(&nc_nonce(cseq)), b"", &mut ct, tag) {
                                        Err(_) => Some("challenge-not-from-this-server"),
                                        Ok(()) => {
                                            let cid = u64::from_le_bytes(ct[..8].try_into().unwrap());
                                            if cid != k.id || ct[8..264] != k.ud[..] {
                                                Some("challenge-of-another-client")
                                            } else {
                                                None
                                            }
                                        }
                                    }
                                }
                            }
                        };
                        if let Some(kind) = kind {
                            result = fail(
                                i,
                                &format!("answered-invalid-response:{}", kind),
                                format!("a connection response from {} that cannot belong to its handshake ({}) was answered `{}`", addr, kind, trunc_s(out, 30)),
                            );
                        }
                    }
                }
            }
        }
        // connection events (after the judgement of this op)
        if t[0].starts_with("srv-") && t.len() >= 2 {
            if let Some(s) = servers.get_mut(t[1]) {
                let o = toks(out);
                if o.len() >= 3 && o[0] == "connected" {
                    if let Some(id) = p_u64(o[1]) {
                        s.ids.insert(id);
                        s.addrs.insert(o[2].to_string());
                        s.id_addr.insert(id, o[2].to_string());
                    }
                }
                if o.len() >= 3 && o[0] == "disconnected" {
                    if let Some(id) = p_u64(o[1]) {
                        s.ids.remove(&id);
                        if let Some(a) = s.id_addr.remove(&id) {
                            s.addrs.remove(&a);
                        }
                    }
                }
            }
        }
        result
    })
}

const NC_ALL: &[&str] = &["nc-"];

const FIXED_PROFILES: &[&str] = &["nc-regress", "nc-known", "nc-table-full", "nc-pending-full", "nc-entry-cursor", "nc-seq-wrap", "nc-prefix-sweep"];

pub fn oracles() -> Vec<Oracle> {
    let mut v = oracles_main();
    for prop in ["C04", "C05", "C07", "C10", "C11", "C13", "C16", "C17", "C18", "C19", "C20"] {
        v.push(Oracle { prop, name: "nc-fixed-script-complete", engines: FIXED_PROFILES, check: oracle_fixed_complete });
    }
    v
}

fn oracles_main() -> Vec<Oracle> {
    vec![
        Oracle { prop: "C07", name: "nc-no-unwind", engines: NC_ALL, check: oracle_no_panic },
        Oracle { prop: "C07", name: "nc-unauthentic-noop", engines: &["nc-session", "nc-hostile", "nc-attacker", "nc-regress", "nc-prefix-sweep"], check: oracle_hostile_noop },
        Oracle { prop: "C07", name: "nc-genuine-still-accepted", engines: &["nc-session", "nc-hostile", "nc-regress", "nc-prefix-sweep"], check: oracle_genuine_still_accepted },
        Oracle { prop: "C13", name: "nc-datagram-size", engines: NC_ALL, check: oracle_size },
        Oracle { prop: "C13", name: "nc-payload-limit", engines: NC_ALL, check: oracle_payload_limit },
        Oracle { prop: "C19", name: "nc-no-amplification", engines: NC_ALL, check: oracle_amplification },
        Oracle { prop: "C10", name: "nc-connection-table", engines: &["nc-handshake", "nc-attacker", "nc-session", "nc-hostile", "nc-regress", "nc-pending-full"], check: oracle_table },
        Oracle { prop: "C05", name: "nc-connect-justified", engines: &["nc-handshake", "nc-attacker", "nc-session", "nc-hostile", "nc-regress", "nc-table-full"], check: oracle_connect_justified },
        Oracle { prop: "C17", name: "nc-nonce-unique", engines: &["nc-handshake", "nc-session", "nc-hostile", "nc-regress", "nc-failover", "nc-seq-wrap", "nc-attacker"], check: oracle_nonce },
        Oracle { prop: "C17", name: "nc-tampered-rejected", engines: &["nc-wire", "nc-regress", "nc-handshake", "nc-session", "nc-failover", "nc-attacker", "nc-hostile"], check: oracle_mutated_rejected },
        Oracle { prop: "C16", name: "nc-redecode", engines: &["nc-wire"], check: oracle_redecode },
        Oracle { prop: "C16", name: "nc-wire-roundtrip", engines: &["nc-wire", "nc-regress"], check: oracle_roundtrip },
        Oracle { prop: "C04", name: "nc-payloads-authentic-once", engines: &["nc-session", "nc-handshake", "nc-hostile", "nc-known", "nc-regress", "nc-failover"], check: oracle_payloads },
        Oracle { prop: "C04", name: "nc-no-reflection", engines: &["nc-session", "nc-hostile", "nc-regress", "nc-handshake"], check: oracle_reflection },
        Oracle { prop: "C04", name: "nc-token-directions", engines: &["nc-regress"], check: oracle_token_directions },
        Oracle { prop: "C05", name: "nc-reported-connected", engines: &["nc-handshake", "nc-attacker", "nc-session", "nc-hostile", "nc-regress"], check: oracle_reported_connected },
        Oracle { prop: "C10", name: "nc-connect-user-data", engines: &["nc-attacker", "nc-regress", "nc-handshake"], check: oracle_connect_user_data },
        Oracle { prop: "C10", name: "nc-full-server-sessions-undisturbed", engines: &["nc-regress"], check: oracle_full_undisturbed },
        Oracle { prop: "C11", name: "nc-other-clients-undisturbed", engines: &["nc-regress"], check: oracle_others_undisturbed },
        Oracle { prop: "C11", name: "nc-only-the-addressee-obtains", engines: &["nc-regress"], check: oracle_only_addressee },
        Oracle { prop: "C04", name: "nc-window-once", engines: &["nc-window"], check: oracle_window_once },
        Oracle { prop: "C20", name: "nc-stale-handshake-harmless", engines: &["nc-attacker", "nc-regress"], check: oracle_stale_handshake_harmless },
        Oracle { prop: "C18", name: "nc-half-open-expiry", engines: &["nc-handshake", "nc-session", "nc-regress", "nc-failover", "nc-hostile", "nc-attacker", "nc-pending-full"], check: oracle_half_open_expiry },
        Oracle { prop: "C18", name: "nc-client-timeout", engines: &["nc-handshake", "nc-session", "nc-regress", "nc-failover", "nc-hostile", "nc-attacker"], check: oracle_client_timeout },
        Oracle { prop: "C18", name: "nc-handshake-completes", engines: &["nc-regress", "nc-attacker", "nc-pending-full"], check: oracle_expect_connected },
        Oracle { prop: "C18", name: "nc-lossless-phase-connects", engines: &["nc-failover", "nc-regress", "nc-handshake", "nc-pending-full"], check: oracle_expect_up },
        Oracle { prop: "C18", name: "nc-failover-patient", engines: &["nc-failover", "nc-handshake", "nc-regress", "nc-session"], check: oracle_failover_patient },
        Oracle { prop: "C18", name: "nc-failover-tries-all", engines: &["nc-failover", "nc-handshake", "nc-regress"], check: oracle_failover_tries_all },
        Oracle { prop: "C19", name: "nc-silent-to-invalid", engines: &["nc-handshake", "nc-attacker", "nc-hostile", "nc-session", "nc-regress", "nc-failover", "nc-known", "nc-pending-full", "nc-entry-cursor"], check: oracle_silent_to_invalid },
        Oracle { prop: "C05", name: "nc-silent-to-invalid", engines: &["nc-handshake", "nc-attacker", "nc-regress", "nc-table-full", "nc-entry-cursor"], check: oracle_silent_to_invalid },
        Oracle { prop: "C18", name: "nc-timeout-not-postponed", engines: &["nc-handshake", "nc-session", "nc-regress", "nc-failover"], check: oracle_timeout_not_postponed },
        Oracle { prop: "C18", name: "nc-timeouts-exact", engines: &["nc-handshake", "nc-session", "nc-hostile", "nc-regress", "nc-failover"], check: oracle_timeouts },
    ]
}
