//! netcode engine (E4 + the netcode part of E1): implementation world for the `renetcode` crate,
//! profiles (scripts) and trace oracles.
//!
//! Line protocol (one op per line, tokens separated by one space; `<u>` decimal u64, `<hex>` lower-case
//! hex or `-` for empty, `<key>` 64 hex digits, `<addr>` = `4:<8 hex>:<port>` | `6:<32 hex>:<port>`,
//! `<addrs>` = `-` | comma separated `<addr>` or `_` (empty slot), `<dg>` = `<hex>` | `@<k>` (k-th
//! datagram emitted so far in this case by any endpoint, in op order)):
//!
//!   rp-run <cmd>{,<cmd>}          cmd = a<u> (advance) | q<u> (already_received?)   -> <bits|-> <rp-dump>
//!   nc-enc <cap> <proto> <seq|-> <key|-> <packet>                                   -> ok <hex> | err:<E>
//!   nc-dec <proto> <key|-> <rp> <dg>       rp = - | n{,<u>}                          -> ok <seq> <packet> rp=<rp-dump|-> | err:<E> rp=<rp-dump|->
//!        packet = req <ver13> <proto> <expire> <xnonce24> <data1024> | denied | chal <seq> <data300>
//!               | resp <seq> <data300> | ka <client_index> <max_clients> | pay <hex> | disc
//!   nc-stream <proto> <key> <hex>{,<hex>}   (decoded one after the other through ONE fresh replay window)
//!                                         -> <r>{,<r>} rp=<rp-dump>     r = ok:<seq>:<req|denied|chal|resp|ka|pay|disc> | err:<E>
//!   tok-write <id> <ver13> <proto> <create> <expire> <xnonce> <private1024> <timeout-i32> <addrs> <c2s> <s2c> -> ok <hex>
//!   tok-read <hex>                        -> ok <same 11 fields> | err:<E>
//!   tok-gen <now_us> <proto> <expire_secs> <id> <timeout> <addrs, no holes> <ud512hex|-> <key>   (ConnectToken::generate; random parts not shown)
//!                                         -> ok <id> <ver13> <proto> <create> <expire> <timeout> <addrs> consistent=<0|1> | err:<TokenGenerationError> | panic
//!   tok-make <tk> <now_us> <proto> <expire_secs> <id> <timeout> <addrs, no holes> <ud512hex|-> <key>   (ConnectToken::generate, the
//!        token is kept in the world under <tk>)  -> ok <id> <proto> <create> <expire> <timeout> <addrs> distinct=<c2s key != s2c key> | err:<E>
//!   cli-newt <c> <now_us> <tk>            -> ok | err:<E>      (a client for a token made by tok-make; use `nc-quiet 1`: its keys are random)
//!   ptok-seal <proto> <expire> <xnonce> <key> <id> <timeout> <addrs> <c2s> <s2c> <ud<=256 bytes, zero padded> -> ok <hex1024> | err
//!   ptok-open <proto> <expire> <xnonce> <key> <hex1024>                              -> ok <id> <timeout> <addrs> <c2s> <s2c> <ud> | err
//!   srv-new <s> <now_us> <max> <proto> <secure:0|1> <key> <challenge_key> <addrs>    -> ok | panic
//!   srv-setmax <s> <n> | srv-upd <s> <micros>                                        -> ok
//!   srv-updc <s> <id> | srv-disc <s> <id> | srv-rx <s> <addr> <dg>                   -> <result>
//!        result = none | send <addr> <hex> | payload <id> <hex> | connected <id> <addr> <ud-hex> <hex>
//!               | disconnected <id> <addr> <hex|none>
//!   srv-pay <s> <id> <hex>                -> send <addr> <hex> | err:<E>
//!   srv-q <s> <id>                        -> ids=[..] n=<k> max=<m> conn=<0|1> addr=<addr|-> ud=<hex, all 256 bytes|-> idle=<ns|-> time=<ns> slots=[..] pub=<addrs>
//!        (clients_id, connected_clients, max_clients, is_client_connected, client_addr, user_data, time_since_last_received_packet,
//!         current_time, clients_slot, addresses)
//!   srv-dump <s>                          -> NetcodeServer::verif_dump()
//!   cli-new <c> <now_us> <token-hex>      -> ok | err:<E> | panic
//!   cli-upd <c> <micros>                  -> none | send <addr> <hex>
//!   cli-rx <c> <dg>                       -> none | payload <hex>
//!   cli-pay <c> <hex> | cli-disc <c>      -> send <addr> <hex> | err:<E>
//!   cli-q <c>                             -> connecting=.. connected=.. disconnected=.. reason=<R|-> id=.. addr=.. idle=<ns> now=<ns>
//!   cli-dump <c>                          -> NetcodeClient::verif_dump()
//!   note <word>                           -> ok        (tags for the oracles: hostile, …)
//!   nc-quiet <0|1>                        -> ok        while on, every emitted datagram is printed as `#<length>` instead of its
//!        hex (`send <addr> #333`, `connected <id> <addr> <ud> #25`, …): the trace no longer depends on key material the
//!        library draws at random. The history still holds the real bytes: refer to them by `@<k>`.
//!   srv-new … with `-` as <challenge_key>: the server keeps the challenge key it generated itself (random per instance;
//!        the model gives every such instance a key of its own)
//! Unknown handle or malformed argument -> bad-op.  A Rust unwind -> panic (then `dead`).
use crate::common::*;
use chacha20poly1305::aead::{AeadInPlace, KeyInit};
use chacha20poly1305::{ChaCha20Poly1305, Key, Nonce, Tag, XChaCha20Poly1305, XNonce};
use renetcode::verif::{addr_text, private_token_decode, private_token_encode, Packet, PrivateFields, ReplayProtection};
use renetcode::{
    ClientAuthentication, ConnectToken, NetcodeClient, NetcodeError, NetcodeServer, ServerAuthentication, ServerConfig, ServerResult,
};
use std::collections::{HashMap, HashSet};
use std::net::{IpAddr, Ipv4Addr, Ipv6Addr, SocketAddr};
use std::time::Duration;

// =============================================================================================
// text helpers (shared by the world, the scripts and the oracles)
// =============================================================================================

fn p_u64(s: &str) -> Option<u64> {
    if s.is_empty() || !s.bytes().all(|c| c.is_ascii_digit()) {
        return None;
    }
    s.parse::<u64>().ok()
}

fn p_i32(s: &str) -> Option<i32> {
    let body = s.strip_prefix('-').unwrap_or(s);
    if body.is_empty() || !body.bytes().all(|c| c.is_ascii_digit()) {
        return None;
    }
    s.parse::<i32>().ok()
}

fn p_hex(s: &str) -> Option<Vec<u8>> {
    if s != "-" && !s.bytes().all(|c| c.is_ascii_digit() || (b'a'..=b'f').contains(&c)) {
        return None;
    }
    unhex(s)
}

fn p_hexn<const N: usize>(s: &str) -> Option<[u8; N]> {
    let v = p_hex(s)?;
    if v.len() != N {
        return None;
    }
    let mut a = [0u8; N];
    a.copy_from_slice(&v);
    Some(a)
}

fn p_user_data(s: &str) -> Option<[u8; 256]> {
    let v = p_hex(s)?;
    if v.len() > 256 {
        return None;
    }
    let mut a = [0u8; 256];
    a[..v.len()].copy_from_slice(&v);
    Some(a)
}

fn p_addr(s: &str) -> Option<SocketAddr> {
    let parts: Vec<&str> = s.split(':').collect();
    if parts.len() != 3 || parts[1] == "-" {
        return None;
    }
    let ip = p_hex(parts[1])?;
    let port = p_u64(parts[2])?;
    if port >= 65536 {
        return None;
    }
    match (parts[0], ip.len()) {
        ("4", 4) => Some(SocketAddr::new(IpAddr::V4(Ipv4Addr::new(ip[0], ip[1], ip[2], ip[3])), port as u16)),
        ("6", 16) => {
            let mut a = [0u8; 16];
            a.copy_from_slice(&ip);
            Some(SocketAddr::new(IpAddr::V6(Ipv6Addr::from(a)), port as u16))
        }
        _ => None,
    }
}

fn p_addrs(s: &str) -> Option<Vec<Option<SocketAddr>>> {
    p_addrs_max(s, 32)
}

fn p_addrs_max(s: &str, max: usize) -> Option<Vec<Option<SocketAddr>>> {
    if s == "-" {
        return Some(vec![]);
    }
    let parts: Vec<&str> = s.split(',').collect();
    if parts.len() > max {
        return None;
    }
    let mut v = vec![];
    for p in parts {
        if p == "_" {
            v.push(None);
        } else {
            v.push(Some(p_addr(p)?));
        }
    }
    Some(v)
}

fn show_addrs(a: &[Option<SocketAddr>]) -> String {
    let mut n = a.len();
    while n > 0 && a[n - 1].is_none() {
        n -= 1;
    }
    if n == 0 {
        return "-".into();
    }
    let v: Vec<String> = a[..n]
        .iter()
        .map(|x| match x {
            Some(x) => addr_text(x),
            None => "_".to_string(),
        })
        .collect();
    v.join(",")
}

fn addr_array(v: &[Option<SocketAddr>]) -> [Option<SocketAddr>; 32] {
    let mut a = [None; 32];
    for (i, x) in v.iter().take(32).enumerate() {
        a[i] = *x;
    }
    a
}

fn err_name(e: &NetcodeError) -> String {
    use NetcodeError::*;
    match e {
        UnavailablePrivateKey => "UnavailablePrivateKey".into(),
        InvalidPacketType => "InvalidPacketType".into(),
        InvalidProtocolID => "InvalidProtocolID".into(),
        InvalidVersion => "InvalidVersion".into(),
        PacketTooSmall => "PacketTooSmall".into(),
        PayloadAboveLimit => "PayloadAboveLimit".into(),
        DuplicatedSequence => "DuplicatedSequence".into(),
        NoMoreServers => "NoMoreServers".into(),
        Expired => "Expired".into(),
        Disconnected(r) => format!("Disconnected({:?})", r),
        CryptoError => "CryptoError".into(),
        NotInHostList => "NotInHostList".into(),
        ClientNotFound => "ClientNotFound".into(),
        ClientNotConnected => "ClientNotConnected".into(),
        IoError(_) => "IoError".into(),
        TokenGenerationError(t) => format!(
            "TokenGenerationError({})",
            match t {
                renetcode::TokenGenerationError::MaxHostCount => "MaxHostCount",
                renetcode::TokenGenerationError::CryptoError => "CryptoError",
                renetcode::TokenGenerationError::IoError(_) => "IoError",
                renetcode::TokenGenerationError::NoServerAddressAvailable => "NoServerAddressAvailable",
            }
        ),
    }
}

fn show_packet(p: &Packet) -> String {
    match p {
        Packet::ConnectionRequest { version_info, protocol_id, expire_timestamp, xnonce, data } => {
            format!("req {} {} {} {} {}", hex(version_info), protocol_id, expire_timestamp, hex(xnonce), hex(data))
        }
        Packet::ConnectionDenied => "denied".into(),
        Packet::Challenge { token_sequence, token_data } => format!("chal {} {}", token_sequence, hex(token_data)),
        Packet::Response { token_sequence, token_data } => format!("resp {} {}", token_sequence, hex(token_data)),
        Packet::KeepAlive { client_index, max_clients } => format!("ka {} {}", client_index, max_clients),
        Packet::Payload(p) => format!("pay {}", hex(p)),
        Packet::Disconnect => "disc".into(),
    }
}

/// Owned packet description (the payload of `Packet::Payload` is borrowed in the library type).
enum PacketTerm {
    Req([u8; 13], u64, u64, [u8; 24], [u8; 1024]),
    Denied,
    Chal(u64, [u8; 300]),
    Resp(u64, [u8; 300]),
    Ka(u32, u32),
    Pay(Vec<u8>),
    Disc,
}

fn p_packet(t: &[&str]) -> Option<PacketTerm> {
    match t {
        ["req", v, pid, e, x, d] => Some(PacketTerm::Req(p_hexn(v)?, p_u64(pid)?, p_u64(e)?, p_hexn(x)?, p_hexn(d)?)),
        ["denied"] => Some(PacketTerm::Denied),
        ["chal", s, d] => Some(PacketTerm::Chal(p_u64(s)?, p_hexn(d)?)),
        ["resp", s, d] => Some(PacketTerm::Resp(p_u64(s)?, p_hexn(d)?)),
        ["ka", i, m] => {
            let i = p_u64(i)?;
            let m = p_u64(m)?;
            if i >= 1 << 32 || m >= 1 << 32 {
                return None;
            }
            Some(PacketTerm::Ka(i as u32, m as u32))
        }
        ["pay", p] => Some(PacketTerm::Pay(p_hex(p)?)),
        ["disc"] => Some(PacketTerm::Disc),
        _ => None,
    }
}

impl PacketTerm {
    fn packet(&self) -> Packet<'_> {
        match self {
            PacketTerm::Req(v, p, e, x, d) => Packet::ConnectionRequest {
                version_info: *v,
                protocol_id: *p,
                expire_timestamp: *e,
                xnonce: *x,
                data: *d,
            },
            PacketTerm::Denied => Packet::ConnectionDenied,
            PacketTerm::Chal(s, d) => Packet::Challenge { token_sequence: *s, token_data: *d },
            PacketTerm::Resp(s, d) => Packet::Response { token_sequence: *s, token_data: *d },
            PacketTerm::Ka(i, m) => Packet::KeepAlive { client_index: *i, max_clients: *m },
            PacketTerm::Pay(p) => Packet::Payload(p),
            PacketTerm::Disc => Packet::Disconnect,
        }
    }
}

/// Datagram carried by an output line of srv-rx / srv-updc / srv-disc / srv-pay / cli-upd / cli-pay / cli-disc.
fn emitted_of(op: &str, out: &str) -> Option<(String, Vec<u8>)> {
    let kind = op.split(' ').next().unwrap_or("");
    if !matches!(kind, "srv-rx" | "srv-updc" | "srv-disc" | "srv-pay" | "cli-upd" | "cli-pay" | "cli-disc") {
        return None;
    }
    // `#<len>` (quiet mode): a datagram of that length whose content the trace does not show (all zeros here)
    let bytes = |h: &str| -> Option<Vec<u8>> {
        match h.strip_prefix('#') {
            Some(n) => Some(vec![0u8; p_u64(n)? as usize]),
            None => unhex(h),
        }
    };
    let t: Vec<&str> = out.split(' ').collect();
    match t.as_slice() {
        ["send", a, h] => Some((a.to_string(), bytes(h)?)),
        ["connected", _, a, _, h] => Some((a.to_string(), bytes(h)?)),
        ["disconnected", _, a, h] if *h != "none" => Some((a.to_string(), bytes(h)?)),
        _ => None,
    }
}

/// the output line with the datagram hidden (quiet mode)
fn hide_datagram(out: &str) -> String {
    let t: Vec<&str> = out.split(' ').collect();
    let hidden = |h: &str| format!("#{}", unhex(h).map(|v| v.len()).unwrap_or(0));
    match t.as_slice() {
        ["send", a, h] => format!("send {} {}", a, hidden(h)),
        ["connected", id, a, ud, h] => format!("connected {} {} {} {}", id, a, ud, hidden(h)),
        ["disconnected", id, a, h] if *h != "none" => format!("disconnected {} {} {}", id, a, hidden(h)),
        _ => out.to_string(),
    }
}

// =============================================================================================
// the implementation world
// =============================================================================================

#[derive(Default)]
pub struct NcWorld {
    servers: HashMap<u64, NetcodeServer>,
    clients: HashMap<u64, NetcodeClient>,
    history: Vec<Vec<u8>>,
    quiet: bool,
    tokens: HashMap<u64, ConnectToken>,
}

fn new_world() -> Box<dyn World> {
    Box::new(NcWorld::default())
}

fn show_result(r: ServerResult) -> String {
    match r {
        ServerResult::None => "none".into(),
        ServerResult::PacketToSend { addr, payload } => format!("send {} {}", addr_text(&addr), hex(payload)),
        ServerResult::Payload { client_id, payload } => format!("payload {} {}", client_id, hex(payload)),
        ServerResult::ClientConnected { client_id, addr, user_data, payload } => {
            format!("connected {} {} {} {}", client_id, addr_text(&addr), hex(&user_data[..]), hex(payload))
        }
        ServerResult::ClientDisconnected { client_id, addr, payload } => format!(
            "disconnected {} {} {}",
            client_id,
            addr_text(&addr),
            match payload {
                None => "none".to_string(),
                Some(p) => hex(p),
            }
        ),
    }
}

impl NcWorld {
    fn datagram(&self, s: &str) -> Option<Vec<u8>> {
        if let Some(k) = s.strip_prefix('@') {
            let k = p_u64(k)? as usize;
            self.history.get(k).cloned()
        } else {
            p_hex(s)
        }
    }

    fn run(&mut self, op: &str) -> Option<String> {
        let t: Vec<&str> = op.trim().split(' ').filter(|x| !x.is_empty()).collect();
        match t.as_slice() {
            ["note", ..] => Some("ok".into()),
            ["nc-quiet", b] => {
                self.quiet = match *b {
                    "1" => true,
                    "0" => false,
                    _ => return None,
                };
                Some("ok".into())
            }
            ["rp-run", cmds] => {
                let mut rp = ReplayProtection::new();
                let mut bits = String::new();
                for c in cmds.split(',') {
                    if let Some(s) = c.strip_prefix('a') {
                        rp.advance_sequence(p_u64(s)?);
                    } else if let Some(s) = c.strip_prefix('q') {
                        bits.push(if rp.already_received(p_u64(s)?) { '1' } else { '0' });
                    } else {
                        return None;
                    }
                }
                Some(format!("{} {}", if bits.is_empty() { "-" } else { &bits }, rp.verif_dump()))
            }
            ["nc-enc", cap, proto, seq, key, pkt @ ..] => {
                let cap = p_u64(cap)? as usize;
                let proto = p_u64(proto)?;
                let term = p_packet(pkt)?;
                let crypto: Option<(u64, [u8; 32])> = if *seq == "-" && *key == "-" { None } else { Some((p_u64(seq)?, p_hexn(key)?)) };
                if cap > 4096 {
                    return None;
                }
                let mut buf = vec![0u8; cap];
                let packet = term.packet();
                match packet.encode(&mut buf, proto, crypto.as_ref().map(|(s, k)| (*s, k))) {
                    Ok(len) => Some(format!("ok {}", hex(&buf[..len]))),
                    Err(e) => Some(format!("err:{}", err_name(&e))),
                }
            }
            ["nc-dec", proto, key, rp, dg] => {
                let proto = p_u64(proto)?;
                let key: Option<[u8; 32]> = if *key == "-" { None } else { Some(p_hexn(key)?) };
                let mut rp: Option<ReplayProtection> = if *rp == "-" {
                    None
                } else {
                    let mut it = rp.split(',');
                    if it.next() != Some("n") {
                        return None;
                    }
                    let mut w = ReplayProtection::new();
                    for s in it {
                        w.advance_sequence(p_u64(s)?);
                    }
                    Some(w)
                };
                let mut buf = self.datagram(dg)?;
                let r = match Packet::decode(&mut buf, proto, key.as_ref(), rp.as_mut()) {
                    Ok((seq, p)) => format!("ok {} {}", seq, show_packet(&p)),
                    Err(e) => format!("err:{}", err_name(&e)),
                };
                Some(format!("{} rp={}", r, rp.map(|w| w.verif_dump()).unwrap_or("-".into())))
            }
            ["nc-stream", proto, key, dgs] => {
                let proto = p_u64(proto)?;
                let key: [u8; 32] = p_hexn(key)?;
                let mut rp = ReplayProtection::new();
                let mut outs: Vec<String> = vec![];
                for h in dgs.split(',') {
                    let mut buf = p_hex(h)?;
                    outs.push(match Packet::decode(&mut buf, proto, Some(&key), Some(&mut rp)) {
                        Ok((seq, p)) => format!(
                            "ok:{}:{}",
                            seq,
                            match p {
                                Packet::ConnectionRequest { .. } => "req",
                                Packet::ConnectionDenied => "denied",
                                Packet::Challenge { .. } => "chal",
                                Packet::Response { .. } => "resp",
                                Packet::KeepAlive { .. } => "ka",
                                Packet::Payload(_) => "pay",
                                Packet::Disconnect => "disc",
                            }
                        ),
                        Err(e) => format!("err:{}", err_name(&e)),
                    });
                }
                Some(format!("{} rp={}", outs.join(","), rp.verif_dump()))
            }
            ["tok-write", id, ver, proto, create, expire, xnonce, private, timeout, addrs, c2s, s2c] => {
                let token = ConnectToken {
                    client_id: p_u64(id)?,
                    version_info: p_hexn(ver)?,
                    protocol_id: p_u64(proto)?,
                    create_timestamp: p_u64(create)?,
                    expire_timestamp: p_u64(expire)?,
                    xnonce: p_hexn(xnonce)?,
                    server_addresses: addr_array(&p_addrs(addrs)?),
                    client_to_server_key: p_hexn(c2s)?,
                    server_to_client_key: p_hexn(s2c)?,
                    private_data: p_hexn(private)?,
                    timeout_seconds: p_i32(timeout)?,
                };
                let mut out: Vec<u8> = vec![];
                match token.write(&mut out) {
                    Ok(()) => Some(format!("ok {}", hex(&out))),
                    Err(_) => Some("err:IoError".into()),
                }
            }
            ["tok-read", h] => {
                let b = p_hex(h)?;
                match ConnectToken::read(&mut &b[..]) {
                    Ok(t) => Some(format!(
                        "ok {} {} {} {} {} {} {} {} {} {} {}",
                        t.client_id,
                        hex(&t.version_info),
                        t.protocol_id,
                        t.create_timestamp,
                        t.expire_timestamp,
                        hex(&t.xnonce),
                        hex(&t.private_data),
                        t.timeout_seconds,
                        show_addrs(&t.server_addresses),
                        hex(&t.client_to_server_key),
                        hex(&t.server_to_client_key)
                    )),
                    Err(e) => Some(format!("err:{}", err_name(&e))),
                }
            }
            ["tok-gen", now, proto, expire_s, id, timeout, addrs, ud, key] => {
                let (now, proto, expire_s, id, timeout) = (p_u64(now)?, p_u64(proto)?, p_u64(expire_s)?, p_u64(id)?, p_i32(timeout)?);
                let addrs = p_addrs_max(addrs, 40)?;
                let key: [u8; 32] = p_hexn(key)?;
                let ud: Option<[u8; 256]> = if *ud == "-" { None } else { Some(p_hexn(ud)?) };
                if addrs.iter().any(|a| a.is_none()) {
                    return None;
                }
                let list: Vec<SocketAddr> = addrs.into_iter().flatten().collect();
                match ConnectToken::generate(Duration::from_micros(now), proto, expire_s, id, timeout, list, ud.as_ref(), &key) {
                    Ok(t) => {
                        let consistent = match private_token_decode(&t.private_data, proto, t.expire_timestamp, &t.xnonce, &key) {
                            Some(f) => {
                                f.0 == id
                                    && f.1 == timeout
                                    && f.2[..] == t.server_addresses[..]
                                    && ud.map(|u| u == f.5).unwrap_or(true)
                                    && f.3 == t.client_to_server_key
                                    && f.4 == t.server_to_client_key
                            }
                            None => false,
                        };
                        Some(format!(
                            "ok {} {} {} {} {} {} {} consistent={}",
                            t.client_id,
                            hex(&t.version_info),
                            t.protocol_id,
                            t.create_timestamp,
                            t.expire_timestamp,
                            t.timeout_seconds,
                            show_addrs(&t.server_addresses),
                            consistent as u8
                        ))
                    }
                    Err(e) => Some(format!(
                        "err:{}",
                        match e {
                            renetcode::TokenGenerationError::MaxHostCount => "MaxHostCount",
                            renetcode::TokenGenerationError::CryptoError => "CryptoError",
                            renetcode::TokenGenerationError::IoError(_) => "IoError",
                            renetcode::TokenGenerationError::NoServerAddressAvailable => "NoServerAddressAvailable",
                        }
                    )),
                }
            }
            ["tok-make", tk, now, proto, expire_s, id, timeout, addrs, ud, key] => {
                let (tk, now, proto, expire_s, id, timeout) = (p_u64(tk)?, p_u64(now)?, p_u64(proto)?, p_u64(expire_s)?, p_u64(id)?, p_i32(timeout)?);
                let addrs = p_addrs_max(addrs, 40)?;
                let key: [u8; 32] = p_hexn(key)?;
                let ud: Option<[u8; 256]> = if *ud == "-" { None } else { Some(p_hexn(ud)?) };
                if addrs.iter().any(|a| a.is_none()) {
                    return None;
                }
                let list: Vec<SocketAddr> = addrs.into_iter().flatten().collect();
                match ConnectToken::generate(Duration::from_micros(now), proto, expire_s, id, timeout, list, ud.as_ref(), &key) {
                    Ok(t) => {
                        let line = format!(
                            "ok {} {} {} {} {} {} distinct={}",
                            t.client_id,
                            t.protocol_id,
                            t.create_timestamp,
                            t.expire_timestamp,
                            t.timeout_seconds,
                            show_addrs(&t.server_addresses),
                            (t.client_to_server_key != t.server_to_client_key) as u8
                        );
                        self.tokens.insert(tk, t);
                        Some(line)
                    }
                    Err(e) => Some(format!(
                        "err:{}",
                        match e {
                            renetcode::TokenGenerationError::MaxHostCount => "MaxHostCount",
                            renetcode::TokenGenerationError::CryptoError => "CryptoError",
                            renetcode::TokenGenerationError::IoError(_) => "IoError",
                            renetcode::TokenGenerationError::NoServerAddressAvailable => "NoServerAddressAvailable",
                        }
                    )),
                }
            }
            ["cli-newt", h, now, tk] => {
                let h = p_u64(h)?;
                let now = p_u64(now)?;
                let t = self.tokens.get(&p_u64(tk)?)?;
                let mut bytes: Vec<u8> = vec![];
                t.write(&mut bytes).ok()?;
                let token = ConnectToken::read(&mut &bytes[..]).ok()?;
                match NetcodeClient::new(Duration::from_micros(now), ClientAuthentication::Secure { connect_token: token }) {
                    Ok(c) => {
                        self.clients.insert(h, c);
                        Some("ok".into())
                    }
                    Err(e) => Some(format!("err:{}", err_name(&e))),
                }
            }
            ["ptok-seal", proto, expire, xnonce, key, id, timeout, addrs, c2s, s2c, ud] => {
                let fields: PrivateFields = (p_u64(id)?, p_i32(timeout)?, p_addrs(addrs)?, p_hexn(c2s)?, p_hexn(s2c)?, p_user_data(ud)?);
                match private_token_encode(&fields, p_u64(proto)?, p_u64(expire)?, &p_hexn(xnonce)?, &p_hexn(key)?) {
                    Some(b) => Some(format!("ok {}", hex(&b))),
                    None => Some("err".into()),
                }
            }
            ["ptok-open", proto, expire, xnonce, key, h] => {
                match private_token_decode(&p_hexn(h)?, p_u64(proto)?, p_u64(expire)?, &p_hexn(xnonce)?, &p_hexn(key)?) {
                    Some(f) => Some(format!("ok {} {} {} {} {} {}", f.0, f.1, show_addrs(&f.2), hex(&f.3), hex(&f.4), hex(&f.5))),
                    None => Some("err".into()),
                }
            }
            ["srv-new", h, now, max, proto, secure, key, ckey, addrs] => {
                let h = p_u64(h)?;
                let now = p_u64(now)?;
                let max = p_u64(max)? as usize;
                let proto = p_u64(proto)?;
                let secure = match *secure {
                    "1" => true,
                    "0" => false,
                    _ => return None,
                };
                let key: [u8; 32] = p_hexn(key)?;
                let ckey: Option<[u8; 32]> = if *ckey == "-" { None } else { Some(p_hexn(ckey)?) };
                let addrs = p_addrs(addrs)?;
                if addrs.iter().any(|a| a.is_none()) {
                    return None;
                }
                let mut server = NetcodeServer::new(ServerConfig {
                    current_time: Duration::from_micros(now),
                    max_clients: max,
                    protocol_id: proto,
                    public_addresses: addrs.into_iter().flatten().collect(),
                    authentication: if secure { ServerAuthentication::Secure { private_key: key } } else { ServerAuthentication::Unsecure },
                });
                if let Some(ckey) = ckey {
                    server.verif_set_challenge_key(ckey);
                }
                self.servers.insert(h, server);
                Some("ok".into())
            }
            ["srv-setmax", h, n] => {
                let n = p_u64(n)? as usize;
                self.servers.get_mut(&p_u64(h)?)?.set_max_clients(n);
                Some("ok".into())
            }
            ["srv-upd", h, us] => {
                let us = p_u64(us)?;
                self.servers.get_mut(&p_u64(h)?)?.update(Duration::from_micros(us));
                Some("ok".into())
            }
            ["srv-updc", h, id] => {
                let id = p_u64(id)?;
                Some(show_result(self.servers.get_mut(&p_u64(h)?)?.update_client(id)))
            }
            ["srv-disc", h, id] => {
                let id = p_u64(id)?;
                Some(show_result(self.servers.get_mut(&p_u64(h)?)?.disconnect(id)))
            }
            ["srv-pay", h, id, p] => {
                let id = p_u64(id)?;
                let p = p_hex(p)?;
                match self.servers.get_mut(&p_u64(h)?)?.generate_payload_packet(id, &p) {
                    Ok((addr, out)) => Some(format!("send {} {}", addr_text(&addr), hex(out))),
                    Err(e) => Some(format!("err:{}", err_name(&e))),
                }
            }
            ["srv-rx", h, addr, dg] => {
                let addr = p_addr(addr)?;
                let mut buf = self.datagram(dg)?;
                let s = self.servers.get_mut(&p_u64(h)?)?;
                Some(show_result(s.process_packet(addr, &mut buf)))
            }
            ["srv-q", h, id] => {
                let id = p_u64(id)?;
                let s = self.servers.get(&p_u64(h)?)?;
                let ids: Vec<String> = s.clients_id().iter().map(|x| x.to_string()).collect();
                let slots: Vec<String> = s.clients_slot().iter().map(|x| x.to_string()).collect();
                let public: Vec<String> = s.addresses().iter().map(addr_text).collect();
                Some(format!(
                    "ids=[{}] n={} max={} conn={} addr={} ud={} idle={} time={} slots=[{}] pub={}",
                    ids.join(","),
                    s.connected_clients(),
                    s.max_clients(),
                    if s.is_client_connected(id) { 1 } else { 0 },
                    s.client_addr(id).map(|a| addr_text(&a)).unwrap_or("-".into()),
                    s.user_data(id).map(|u| hex(&u[..])).unwrap_or("-".into()),
                    s.time_since_last_received_packet(id).map(|d| d.as_nanos().to_string()).unwrap_or("-".into()),
                    s.current_time().as_nanos(),
                    slots.join(","),
                    if public.is_empty() { "-".to_string() } else { public.join(",") }
                ))
            }
            ["srv-dump", h] => Some(self.servers.get(&p_u64(h)?)?.verif_dump()),
            ["cli-new", h, now, tok] => {
                let h = p_u64(h)?;
                let now = p_u64(now)?;
                let b = p_hex(tok)?;
                let token = match ConnectToken::read(&mut &b[..]) {
                    Ok(t) => t,
                    Err(e) => return Some(format!("err:{}", err_name(&e))),
                };
                match NetcodeClient::new(Duration::from_micros(now), ClientAuthentication::Secure { connect_token: token }) {
                    Ok(c) => {
                        self.clients.insert(h, c);
                        Some("ok".into())
                    }
                    Err(e) => Some(format!("err:{}", err_name(&e))),
                }
            }
            ["cli-upd", h, us] => {
                let us = p_u64(us)?;
                match self.clients.get_mut(&p_u64(h)?)?.update(Duration::from_micros(us)) {
                    None => Some("none".into()),
                    Some((out, addr)) => Some(format!("send {} {}", addr_text(&addr), hex(out))),
                }
            }
            ["cli-rx", h, dg] => {
                let mut buf = self.datagram(dg)?;
                match self.clients.get_mut(&p_u64(h)?)?.process_packet(&mut buf) {
                    None => Some("none".into()),
                    Some(p) => Some(format!("payload {}", hex(p))),
                }
            }
            ["cli-pay", h, p] => {
                let p = p_hex(p)?;
                match self.clients.get_mut(&p_u64(h)?)?.generate_payload_packet(&p) {
                    Ok((addr, out)) => Some(format!("send {} {}", addr_text(&addr), hex(out))),
                    Err(e) => Some(format!("err:{}", err_name(&e))),
                }
            }
            ["cli-disc", h] => match self.clients.get_mut(&p_u64(h)?)?.disconnect() {
                Ok((addr, out)) => Some(format!("send {} {}", addr_text(&addr), hex(out))),
                Err(e) => Some(format!("err:{}", err_name(&e))),
            },
            ["cli-q", h] => {
                let c = self.clients.get(&p_u64(h)?)?;
                Some(format!(
                    "connecting={} connected={} disconnected={} reason={} id={} addr={} idle={} now={}",
                    c.is_connecting() as u8,
                    c.is_connected() as u8,
                    c.is_disconnected() as u8,
                    c.disconnect_reason().map(|r| format!("{:?}", r)).unwrap_or("-".into()),
                    c.client_id(),
                    addr_text(&c.server_addr()),
                    c.time_since_last_received_packet().as_nanos(),
                    c.current_time().as_nanos()
                ))
            }
            ["cli-dump", h] => Some(self.clients.get(&p_u64(h)?)?.verif_dump()),
            _ => None,
        }
    }
}

impl World for NcWorld {
    fn exec(&mut self, op: &str) -> String {
        let out = self.run(op).unwrap_or_else(|| "bad-op".to_string());
        if let Some((_, d)) = emitted_of(op, &out) {
            self.history.push(d);
            if self.quiet {
                return hide_datagram(&out);
            }
        }
        out
    }
}

include!("nc_profiles.rs");
