//! netcode engine (E4) — placeholder until the netcode slice lands
use crate::common::*;
pub fn profiles() -> Vec<Profile> {
    vec![]
}
pub fn oracles() -> Vec<Oracle> {
    vec![]
}
