//! Engine E5b — the transports' receive buffers against a peer that fills payloads up to the limit (C13).
//!
//! renet's own sender never builds packets above ~1240 bytes, so the E5 worlds (tp.rs) never put a datagram
//! longer than ~1265 bytes on the wire.  The wire format allows payloads up to NETCODE_MAX_PAYLOAD_BYTES,
//! i.e. datagrams up to 1 + 8 + 1300 + 16 bytes, and the property says the transports' receive buffers hold
//! them.  Here the peer of each real transport is a bare `renetcode` endpoint driven by the harness:
//!
//!   s2c: `renetcode::NetcodeServer` (harness)  --UDP-->  real `NetcodeClientTransport` + `RenetClient`
//!   c2s: `renetcode::NetcodeClient` (harness)  --UDP-->  real `NetcodeServerTransport` + `RenetServer`
//!
//! ops:   mxnew                 both pairs complete their handshake            -> ok | fail:<why>
//!        mx s2c|c2s <len>      one legal renet packet (a single unreliable message) of exactly <len> bytes is
//!                              sealed by the bare endpoint, sent, received by the real transport's `update`
//!                              -> delivered | dropped | too-big (the netcode layer refused the payload)
//! The model (Transport/Driver `mx`) seals the same payload, truncates it to the receive buffer size read
//! from the source (`recv_from` semantics) and opens it.
use crate::common::*;
use renet::{ConnectionConfig, RenetClient, RenetServer};
use renet_netcode::{ClientAuthentication, NetcodeClientTransport, NetcodeServerTransport, ServerAuthentication, ServerConfig};
use renetcode::{NetcodeClient, NetcodeServer, ServerResult};
use std::net::{SocketAddr, UdpSocket};
use std::time::Duration;

const PROTOCOL_ID: u64 = 7;
const CLIENT_ID: u64 = 42;
const TICK: Duration = Duration::from_millis(20);

struct S2c {
    server: NetcodeServer,
    server_sock: UdpSocket,
    transport: NetcodeClientTransport,
    client: RenetClient,
    seq: u8,
}

struct C2s {
    nclient: NetcodeClient,
    client_sock: UdpSocket,
    transport: NetcodeServerTransport,
    server: RenetServer,
    seq: u8,
}

pub struct MWorld {
    s2c: Option<S2c>,
    c2s: Option<C2s>,
}

pub fn new_world() -> Box<dyn World> {
    Box::new(MWorld { s2c: None, c2s: None })
}

fn bind() -> Option<(UdpSocket, SocketAddr)> {
    let s = UdpSocket::bind("127.0.0.1:0").ok()?;
    s.set_nonblocking(true).ok()?;
    let a = s.local_addr().ok()?;
    Some((s, a))
}

/// a renet `SmallUnreliable` packet on channel 0 holding one message, `total` bytes long (71 <= total < 16391)
fn packet_of(seq: u8, total: usize, fill: u8) -> Option<(Vec<u8>, Vec<u8>)> {
    if total < 71 || total - 7 >= 16384 {
        return None;
    }
    let mlen = total - 7;
    let msg: Vec<u8> = (0..mlen).map(|i| fill.wrapping_add((i % 251) as u8)).collect();
    let mut p = vec![1u8, seq & 63, 0u8];
    p.extend_from_slice(&1u16.to_be_bytes());
    p.extend_from_slice(&(0x4000u16 | mlen as u16).to_be_bytes());
    p.extend_from_slice(&msg);
    Some((p, msg))
}

fn pump_bare_server(server: &mut NetcodeServer, sock: &UdpSocket) -> bool {
    let mut connected = false;
    let mut buf = [0u8; 2048];
    loop {
        let (len, addr) = match sock.recv_from(&mut buf) {
            Ok(r) => r,
            Err(_) => break,
        };
        match server.process_packet(addr, &mut buf[..len]) {
            ServerResult::PacketToSend { addr, payload } => {
                let _ = sock.send_to(payload, addr);
            }
            ServerResult::ClientConnected { addr, payload, .. } => {
                let _ = sock.send_to(payload, addr);
                connected = true;
            }
            _ => {}
        }
    }
    connected
}

fn make_s2c() -> Result<S2c, String> {
    let (server_sock, server_addr) = bind().ok_or("bind")?;
    let mut server = NetcodeServer::new(ServerConfig {
        current_time: Duration::ZERO,
        max_clients: 4,
        protocol_id: PROTOCOL_ID,
        public_addresses: vec![server_addr],
        authentication: ServerAuthentication::Unsecure,
    });
    let (client_sock, _) = bind().ok_or("bind")?;
    let auth = ClientAuthentication::Unsecure { protocol_id: PROTOCOL_ID, client_id: CLIENT_ID, server_addr, user_data: None };
    let mut transport = NetcodeClientTransport::new(Duration::ZERO, auth, client_sock).map_err(|_| "client-transport")?;
    let mut client = RenetClient::new(ConnectionConfig::default());
    let mut up = false;
    for _ in 0..500 {
        client.update(TICK);
        let _ = transport.update(TICK, &mut client);
        std::thread::sleep(Duration::from_millis(1));
        server.update(TICK);
        up |= pump_bare_server(&mut server, &server_sock);
        std::thread::sleep(Duration::from_millis(1));
        if up && client.is_connected() {
            return Ok(S2c { server, server_sock, transport, client, seq: 0 });
        }
    }
    Err("s2c-handshake".into())
}

fn pump_bare_client(c: &mut NetcodeClient, sock: &UdpSocket) {
    let mut buf = [0u8; 2048];
    loop {
        let (len, addr) = match sock.recv_from(&mut buf) {
            Ok(r) => r,
            Err(_) => break,
        };
        if addr == c.server_addr() {
            let _ = c.process_packet(&mut buf[..len]);
        }
    }
}

fn make_c2s() -> Result<C2s, String> {
    let (server_sock, server_addr) = bind().ok_or("bind")?;
    let mut transport = NetcodeServerTransport::new(
        ServerConfig { current_time: Duration::ZERO, max_clients: 4, protocol_id: PROTOCOL_ID, public_addresses: vec![server_addr], authentication: ServerAuthentication::Unsecure },
        server_sock,
    )
    .map_err(|_| "server-transport")?;
    let mut server = RenetServer::new(ConnectionConfig::default());
    let (client_sock, _) = bind().ok_or("bind")?;
    let auth = ClientAuthentication::Unsecure { protocol_id: PROTOCOL_ID, client_id: CLIENT_ID, server_addr, user_data: None };
    let mut nclient = NetcodeClient::new(Duration::ZERO, auth).map_err(|_| "client")?;
    for _ in 0..500 {
        if let Some((pkt, addr)) = nclient.update(TICK) {
            let _ = client_sock.send_to(pkt, addr);
        }
        std::thread::sleep(Duration::from_millis(1));
        server.update(TICK);
        let _ = transport.update(TICK, &mut server);
        std::thread::sleep(Duration::from_millis(1));
        pump_bare_client(&mut nclient, &client_sock);
        if nclient.is_connected() && server.is_connected(CLIENT_ID) {
            return Ok(C2s { nclient, client_sock, transport, server, seq: 0 });
        }
    }
    Err("c2s-handshake".into())
}

impl S2c {
    /// one attempt: Some(true) delivered intact, Some(false) nothing arrived within the wait, None refused
    fn attempt(&mut self, total: usize, wait_ms: u64) -> Result<Option<bool>, String> {
        self.seq = self.seq.wrapping_add(1);
        let (pkt, msg) = packet_of(self.seq, total, 0xA0 ^ self.seq).ok_or("bad-len")?;
        match self.server.generate_payload_packet(CLIENT_ID, &pkt) {
            Ok((addr, d)) => {
                let _ = self.server_sock.send_to(d, addr);
            }
            Err(_) => return Ok(None),
        }
        for _ in 0..wait_ms {
            let _ = self.transport.update(Duration::from_micros(100), &mut self.client);
            if let Some(m) = self.client.receive_message(0u8) {
                return if m[..] == msg[..] { Ok(Some(true)) } else { Err("corrupted".into()) };
            }
            // keep the bare server's view of the client alive
            self.server.update(Duration::from_micros(100));
            pump_bare_server(&mut self.server, &self.server_sock);
            std::thread::sleep(Duration::from_millis(1));
        }
        Ok(Some(false))
    }
}

impl C2s {
    fn attempt(&mut self, total: usize, wait_ms: u64) -> Result<Option<bool>, String> {
        self.seq = self.seq.wrapping_add(1);
        let (pkt, msg) = packet_of(self.seq, total, 0x50 ^ self.seq).ok_or("bad-len")?;
        match self.nclient.generate_payload_packet(&pkt) {
            Ok((addr, d)) => {
                let _ = self.client_sock.send_to(d, addr);
            }
            Err(_) => return Ok(None),
        }
        for _ in 0..wait_ms {
            let _ = self.transport.update(Duration::from_micros(100), &mut self.server);
            if let Some(m) = self.server.receive_message(CLIENT_ID, 0u8) {
                return if m[..] == msg[..] { Ok(Some(true)) } else { Err("corrupted".into()) };
            }
            let _ = self.nclient.update(Duration::from_micros(100));
            pump_bare_client(&mut self.nclient, &self.client_sock);
            std::thread::sleep(Duration::from_millis(1));
        }
        Ok(Some(false))
    }
}

fn verdict(mut attempt: impl FnMut(u64) -> Result<Option<bool>, String>) -> String {
    // a loopback datagram is never lost while the socket buffer has room; the second, longer attempt only
    // guards the verdict `dropped` against a starved scheduler
    for wait in [150u64, 1000] {
        match attempt(wait) {
            Err(e) => return format!("fail:{}", e),
            Ok(None) => return "too-big".into(),
            Ok(Some(true)) => return "delivered".into(),
            Ok(Some(false)) => {}
        }
    }
    "dropped".into()
}

impl World for MWorld {
    fn exec(&mut self, op: &str) -> String {
        let t: Vec<&str> = op.split(' ').filter(|x| !x.is_empty()).collect();
        match t.as_slice() {
            ["mxnew"] => {
                self.s2c = None;
                self.c2s = None;
                match (make_s2c(), make_c2s()) {
                    (Ok(a), Ok(b)) => {
                        self.s2c = Some(a);
                        self.c2s = Some(b);
                        "ok".into()
                    }
                    (Err(e), _) | (_, Err(e)) => format!("fail:{}", e),
                }
            }
            ["mx", dir, len] => {
                let total: usize = match len.parse() {
                    Ok(n) => n,
                    Err(_) => return "bad-op".into(),
                };
                if total < 71 || total >= 16391 {
                    return "bad-op".into();
                }
                match *dir {
                    "s2c" => match self.s2c.as_mut() {
                        Some(w) => verdict(|ms| w.attempt(total, ms)),
                        None => "bad-op".into(),
                    },
                    "c2s" => match self.c2s.as_mut() {
                        Some(w) => verdict(|ms| w.attempt(total, ms)),
                        None => "bad-op".into(),
                    },
                    _ => "bad-op".into(),
                }
            }
            ["note", _] => "ok".into(),
            _ => "bad-op".into(),
        }
    }
}

fn script(rng: &mut Rng, _tier: Tier, ex: &mut dyn FnMut(&str) -> String) {
    ex("mxnew");
    let edges = [71usize, 600, 1200, 1236, 1275, 1276, 1280, 1282, 1283, 1284, 1290, 1299, 1300, 1301, 1375, 1376, 1400, 2000];
    let n = rng.range(8, 16);
    for _ in 0..n {
        let len = if rng.chance(2, 3) { rng.pick(&edges) } else { rng.range(71, 1310) as usize };
        let dir = if rng.chance(1, 2) { "s2c" } else { "c2s" };
        ex(&format!("mx {} {}", dir, len));
    }
}

pub fn profiles() -> Vec<Profile> {
    vec![Profile {
        name: "mx-maxsize",
        props: &["C13", "C20"],
        cases: |t| if t == Tier::Quick { 12 } else { 120 },
        new_world,
        script,
        nontrivial: |t| t.outs.iter().any(|o| o == "delivered"),
        keep: |_| 1,
        fixed: None,
    }]
}

/// C13 (last clause): a payload within NETCODE_MAX_PAYLOAD_BYTES sealed by the peer is received whole by the
/// transport (its receive buffer is at least as large as the datagram), and is refused by the sender above it.
fn oracle_maxsize(ops: &[String], outs: &[String]) -> Option<OracleFail> {
    for (i, (op, out)) in ops.iter().zip(outs.iter()).enumerate() {
        let t: Vec<&str> = op.split(' ').collect();
        if t.len() == 3 && t[0] == "mx" {
            let len: usize = t[2].parse().ok()?;
            if len <= renetcode::NETCODE_MAX_PAYLOAD_BYTES && out == "too-big" {
                return Some(OracleFail {
                    at: i,
                    signature: format!("legal-payload-refused:{}", t[1]),
                    what: format!("a {}-byte payload (within the {}-byte limit) was refused by the sending netcode layer ({})", len, renetcode::NETCODE_MAX_PAYLOAD_BYTES, t[1]),
                });
            }
            if len <= renetcode::NETCODE_MAX_PAYLOAD_BYTES && out == "dropped" {
                return Some(OracleFail {
                    at: i,
                    signature: format!("legal-payload-dropped:{}", t[1]),
                    what: format!("a {}-byte payload (within the {}-byte limit) sealed by the peer was dropped by the receiving transport ({})", len, renetcode::NETCODE_MAX_PAYLOAD_BYTES, t[1]),
                });
            }
            if len > renetcode::NETCODE_MAX_PAYLOAD_BYTES && out != "too-big" {
                return Some(OracleFail { at: i, signature: "oversized-payload-accepted".into(), what: format!("a {}-byte payload above the limit was sealed by the netcode layer", len) });
            }
            if out.starts_with("fail:corrupted") {
                return Some(OracleFail { at: i, signature: "payload-corrupted".into(), what: "a payload came out of the transport with different bytes".into() });
            }
        }
    }
    None
}

pub fn oracles() -> Vec<Oracle> {
    vec![
        Oracle { prop: "C13", name: "tp-max-datagram-received", engines: &["mx-maxsize"], check: oracle_maxsize },
        Oracle { prop: "C20", name: "tp-max-datagram-received", engines: &["mx-maxsize"], check: oracle_maxsize },
    ]
}
