//! Correspondence harness: runs the real renet/renetcode code and the Lean model on the same
//! operation lines, diffs the outputs, evaluates the property oracles on the implementation's
//! traces, minimises failures and writes replay files + a result summary (JSON) for `check`.
mod common;
mod nc;
mod rn;
mod tp;
mod tpmax;

use common::*;
use std::collections::{BTreeMap, HashSet};
use std::sync::{Arc, Mutex};

struct Args {
    cmd: String,
    props: Vec<String>,
    tier: Tier,
    seed: u64,
    driver: String,
    out: String,
    replay: String,
    only: Vec<String>,
    replay_dir: String,
    scale: f64,
}

fn parse_args() -> Args {
    let mut a = Args {
        cmd: String::new(),
        props: vec![],
        tier: Tier::Quick,
        seed: 1,
        driver: "/verif/lean/.lake/build/bin/driver".into(),
        out: String::new(),
        replay: String::new(),
        only: vec![],
        replay_dir: "/verif/replays".into(),
        scale: 1.0,
    };
    let v: Vec<String> = std::env::args().collect();
    if v.len() > 1 {
        a.cmd = v[1].clone();
    }
    let mut i = 2;
    while i < v.len() {
        let val = v.get(i + 1).cloned().unwrap_or_default();
        match v[i].as_str() {
            "--props" => a.props = val.split(',').map(|s| s.to_string()).collect(),
            "--tier" => a.tier = if val == "thorough" { Tier::Thorough } else { Tier::Quick },
            "--seed" => a.seed = val.parse().unwrap_or(1),
            "--driver" => a.driver = val,
            "--out" => a.out = val,
            "--file" => a.replay = val,
            "--profiles" => a.only = val.split(',').map(|s| s.to_string()).collect(),
            "--replay-dir" => a.replay_dir = val,
            "--scale" => a.scale = val.parse().unwrap_or(1.0),
            _ => {}
        }
        i += 2;
    }
    a
}

fn all_profiles() -> Vec<Profile> {
    let mut v = rn::profiles();
    v.extend(nc::profiles());
    v.extend(tp::profiles());
    v.extend(tpmax::profiles());
    v
}

fn all_oracles() -> Vec<Oracle> {
    let mut v = rn::oracles();
    v.extend(nc::oracles());
    v.extend(tp::oracles());
    v.extend(tpmax::oracles());
    v
}

struct CaseResult {
    profile: usize,
    case: usize,
    seed: u64,
    trace: Trace,
}

#[derive(Clone)]
struct Finding {
    prop: String,
    kind: String, // impl-oracle | correspondence
    profile: String,
    oracle: String,
    signature: String,
    what: String,
    replay: String,
}

fn write_replay(dir: &str, f: &Finding, seed: u64, case: usize, ops: &[String], imp: &[String], model: &[String], at: usize) -> String {
    let _ = std::fs::create_dir_all(dir);
    let body = format!(
        "{{\n \"property\": {},\n \"kind\": {},\n \"profile\": {},\n \"oracle\": {},\n \"signature\": {},\n \"what\": {},\n \"seed\": {},\n \"case\": {},\n \"failed_at\": {},\n \"ops\": {},\n \"impl\": {},\n \"model\": {}\n}}\n",
        json_str(&f.prop),
        json_str(&f.kind),
        json_str(&f.profile),
        json_str(&f.oracle),
        json_str(&f.signature),
        json_str(&f.what),
        seed,
        case,
        at,
        json_list(ops),
        json_list(imp),
        json_list(model)
    );
    let h = fnv(&format!("{}{}{}", f.prop, f.kind, ops.join("\n")));
    let path = format!("{}/{}-{}-{:012x}.json", dir, f.prop, f.kind, h & 0xffff_ffff_ffff);
    let _ = std::fs::write(&path, body);
    path
}

fn main() {
    // keep panic messages of the implementation out of the way (they are expected outputs)
    std::panic::set_hook(Box::new(|_| {}));
    let args = parse_args();
    match args.cmd.as_str() {
        "list" => {
            for p in all_profiles() {
                println!("{} props={:?} quick={} thorough={}", p.name, p.props, (p.cases)(Tier::Quick), (p.cases)(Tier::Thorough));
            }
            for o in all_oracles() {
                println!("oracle {} {}", o.prop, o.name);
            }
        }
        "run" => run(&args),
        "replay" => replay(&args),
        _ => {
            eprintln!("usage: harness run|replay|list …");
            std::process::exit(2);
        }
    }
}

fn oracle_applies(o: &Oracle, profile: &str) -> bool {
    o.engines.is_empty() || o.engines.iter().any(|e| profile.starts_with(e))
}

fn run(args: &Args) {
    let t0 = std::time::Instant::now();
    let profiles: Vec<Profile> = all_profiles()
        .into_iter()
        .filter(|p| {
            (args.props.is_empty() || p.props.iter().any(|x| args.props.iter().any(|y| y == x)))
                && (args.only.is_empty() || args.only.iter().any(|n| n == p.name))
        })
        .collect();
    let oracles = all_oracles();
    let profiles = Arc::new(profiles);
    // work list
    let mut work: Vec<(usize, usize)> = vec![];
    for (pi, p) in profiles.iter().enumerate() {
        let n = (((p.cases)(args.tier) as f64) * args.scale).ceil() as usize;
        for c in 0..n {
            work.push((pi, c));
        }
    }
    let nthreads = std::thread::available_parallelism().map(|n| n.get()).unwrap_or(8).min(16);
    let work = Arc::new(Mutex::new(work.into_iter().rev().collect::<Vec<_>>()));
    let results: Arc<Mutex<Vec<CaseResult>>> = Arc::new(Mutex::new(vec![]));
    let model_out: Arc<Mutex<BTreeMap<(usize, usize), Vec<String>>>> = Arc::new(Mutex::new(BTreeMap::new()));
    let infra_err: Arc<Mutex<Option<String>>> = Arc::new(Mutex::new(None));
    let mut handles = vec![];
    for _ in 0..nthreads {
        let work = work.clone();
        let results = results.clone();
        let profiles = profiles.clone();
        let model_out = model_out.clone();
        let infra_err = infra_err.clone();
        let seed = args.seed;
        let tier = args.tier;
        let driver = args.driver.clone();
        handles.push(std::thread::spawn(move || loop {
            // take a batch
            // (a case of a fixed-script profile is a batch of its own: such cases can be long, and the cases of one batch
            // go through one model process one after the other)
            let batch: Vec<(usize, usize)> = {
                let mut w = work.lock().unwrap();
                let is_fixed = |x: &(usize, usize)| profiles[x.0].fixed.is_some();
                let mut n = 0usize;
                while n < 25 && n < w.len() {
                    let x = &w[w.len() - 1 - n];
                    if is_fixed(x) {
                        if n == 0 {
                            n = 1;
                        }
                        break;
                    }
                    n += 1;
                }
                let at = w.len() - n;
                w.split_off(at)
            };
            if batch.is_empty() {
                break;
            }
            let mut local: Vec<CaseResult> = vec![];
            for (pi, c) in batch {
                let p = &profiles[pi];
                let cs = seed.wrapping_mul(0x1000_0000_01b3).wrapping_add(fnv(p.name)).wrapping_add((c as u64).wrapping_mul(0x9E37_79B9));
                let mut rng = Rng::new(cs);
                let trace = run_script(p, &mut rng, tier, c);
                if let Ok(dir) = std::env::var("VERIF_DUMP_TRACES") {
                    // debugging aid: one file per case with `op => output` lines (outputs truncated)
                    let mut txt = String::new();
                    for (o, r) in trace.ops.iter().zip(trace.outs.iter()) {
                        txt.push_str(&format!("{} => {}\n", trunc(o, 160), trunc(r, 400)));
                    }
                    let _ = std::fs::create_dir_all(&dir);
                    let _ = std::fs::write(format!("{}/{}-{}.txt", dir, p.name, c), txt);
                }
                local.push(CaseResult { profile: pi, case: c, seed: cs, trace });
            }
            let cases: Vec<&[String]> = local.iter().map(|r| r.trace.ops.as_slice()).collect();
            // (an implementation-only profile is a fixed one: its case is a batch of its own)
            let drv = if local.iter().all(|r| impl_only(profiles[r.profile].name)) { "none".to_string() } else { driver.clone() };
            match run_model(&drv, &cases) {
                Ok(outs) => {
                    let mut m = model_out.lock().unwrap();
                    for (r, o) in local.iter().zip(outs.into_iter()) {
                        m.insert((r.profile, r.case), o);
                    }
                }
                Err(e) if e == "no-model" => {
                    let mut m = model_out.lock().unwrap();
                    for r in local.iter() {
                        m.insert((r.profile, r.case), r.trace.outs.clone());
                    }
                }
                Err(e) => {
                    *infra_err.lock().unwrap() = Some(e);
                }
            }
            results.lock().unwrap().extend(local);
        }));
    }
    for h in handles {
        if h.join().is_err() {
            // a generator or the harness itself unwound: the work of that thread is lost, so the run proves nothing
            *infra_err.lock().unwrap() = Some("a harness worker thread panicked (script generator bug?)".to_string());
        }
    }
    if let Some(e) = infra_err.lock().unwrap().clone() {
        eprintln!("INFRASTRUCTURE ERROR: {}", e);
        std::process::exit(2);
    }
    let mut results = Arc::try_unwrap(results).ok().unwrap().into_inner().unwrap();
    results.sort_by_key(|r| (r.profile, r.case));
    let model_out = Arc::try_unwrap(model_out).ok().unwrap().into_inner().unwrap();

    // statistics
    let mut op_hist: BTreeMap<String, u64> = BTreeMap::new();
    let mut out_hist: BTreeMap<String, u64> = BTreeMap::new();
    let mut per_profile: BTreeMap<String, (u64, u64, u64)> = BTreeMap::new(); // cases, ops, nontrivial-distinct
    let mut distinct: HashSet<u64> = HashSet::new();
    let mut samples: Vec<String> = vec![];
    let mut findings: Vec<Finding> = vec![];
    let mut mismatches = 0u64;
    let mut oracle_evals = 0u64;
    let mut seen_sig: HashSet<String> = HashSet::new();
    for r in results.iter() {
        let p = &profiles[r.profile];
        let e = per_profile.entry(p.name.to_string()).or_insert((0, 0, 0));
        e.0 += 1;
        e.1 += r.trace.ops.len() as u64;
        for (op, out) in r.trace.ops.iter().zip(r.trace.outs.iter()) {
            let k = op.split(' ').next().unwrap_or("").to_string();
            *op_hist.entry(format!("{}:{}", p.name, k)).or_insert(0) += 1;
            let mut ok = out.split(|c| c == ' ' || c == ':' || c == '=').next().unwrap_or("").to_string();
            if ok.chars().all(|c| c.is_ascii_digit()) {
                ok = "<n>".to_string();
            }
            if out.starts_with("disconnected:") {
                ok = out.split('(').next().unwrap_or("").to_string();
            }
            if ok.len() > 24 {
                ok = "<data>".to_string();
            }
            *out_hist.entry(format!("{}>{}", k, ok)).or_insert(0) += 1;
        }
        if (p.nontrivial)(&r.trace) {
            if distinct.insert(fnv(&r.trace.ops.join("\n"))) {
                e.2 += 1;
            }
        }
        if r.case < 1 && samples.len() < 12 {
            let n = r.trace.ops.len().min(14);
            let s: Vec<String> = (0..n).map(|i| format!("{} => {}", trunc(&r.trace.ops[i], 90), trunc(&r.trace.outs[i], 90))).collect();
            samples.push(format!("[{} case {}] {}", p.name, r.case, s.join(" | ")));
        }
        let model = &model_out[&(r.profile, r.case)];
        // correspondence
        if let Some(at) = first_diff(&r.trace.outs, model) {
            mismatches += 1;
            let sig = format!("corr:{}", p.name);
            if seen_sig.insert(sig.clone()) {
                let nw = p.new_world;
                let driver = args.driver.clone();
                let mut fails = |ops: &[String]| -> bool {
                    let imp = run_ops(nw, ops);
                    match run_model(&driver, &[ops]) {
                        Ok(m) => first_diff(&imp, &m[0]).is_some(),
                        Err(_) => false,
                    }
                };
                let keep = (p.keep)(&r.trace.ops);
                let min_ops = shrink(&r.trace.ops[..(at + 1).min(r.trace.ops.len())], keep, &mut fails);
                let imp = run_ops(nw, &min_ops);
                let mdl = run_model(&args.driver, &[&min_ops]).map(|m| m[0].clone()).unwrap_or_default();
                let at2 = first_diff(&imp, &mdl).unwrap_or(0);
                for prop in p.props.iter() {
                    if !args.props.is_empty() && !args.props.iter().any(|x| x == prop) {
                        continue;
                    }
                    let mut f = Finding {
                        prop: prop.to_string(),
                        kind: "correspondence".into(),
                        profile: p.name.into(),
                        oracle: String::new(),
                        signature: sig.clone(),
                        what: format!(
                            "model and implementation disagree at op {} ({}): impl={:?} model={:?}",
                            at2,
                            min_ops.get(at2).map(|s| trunc(s, 80)).unwrap_or_default(),
                            imp.get(at2).map(|s| trunc(s, 120)),
                            mdl.get(at2).map(|s| trunc(s, 120))
                        ),
                        replay: String::new(),
                    };
                    f.replay = write_replay(&args.replay_dir, &f, r.seed, r.case, &min_ops, &imp, &mdl, at2);
                    findings.push(f);
                }
            }
        }
        // oracles on the implementation's trace
        for o in oracles.iter() {
            if !oracle_applies(o, p.name) {
                continue;
            }
            if !args.props.is_empty() && !args.props.iter().any(|x| x == o.prop) {
                continue;
            }
            oracle_evals += 1;
            if let Some(fail) = (o.check)(&r.trace.ops, &r.trace.outs) {
                let sig = format!("{}:{}:{}", o.prop, o.name, fail.signature);
                if !seen_sig.insert(sig.clone()) {
                    continue;
                }
                let nw = p.new_world;
                let chk = o.check;
                let want = fail.signature.clone();
                let mut fails = |ops: &[String]| -> bool {
                    let imp = run_ops(nw, ops);
                    match chk(ops, &imp) {
                        Some(f2) => f2.signature == want,
                        None => false,
                    }
                };
                let keep = if liveness_signature(&fail.signature) { usize::MAX } else { (p.keep)(&r.trace.ops) };
                let upto = (fail.at + 1).min(r.trace.ops.len());
                let start_ops: Vec<String> = if fails(&r.trace.ops[..upto]) { r.trace.ops[..upto].to_vec() } else { r.trace.ops.clone() };
                let min_ops = shrink(&start_ops, keep, &mut fails);
                let imp = run_ops(nw, &min_ops);
                let mdl = if impl_only(p.name) { vec![] } else { run_model(&args.driver, &[&min_ops]).map(|m| m[0].clone()).unwrap_or_default() };
                let f2 = chk(&min_ops, &imp).unwrap_or(fail.clone());
                let mut f = Finding {
                    prop: o.prop.to_string(),
                    kind: "impl-oracle".into(),
                    profile: p.name.into(),
                    oracle: o.name.into(),
                    signature: f2.signature.clone(),
                    what: f2.what.clone(),
                    replay: String::new(),
                };
                f.replay = write_replay(&args.replay_dir, &f, r.seed, r.case, &min_ops, &imp, &mdl, f2.at);
                findings.push(f);
            }
        }
    }
    // the totals count traces that were validated against the model; implementation-only cases are listed apart
    let modelled = |k: &&String| !impl_only(k.as_str());
    let evaluations: u64 = per_profile.iter().filter(|(k, _)| modelled(k)).map(|(_, v)| v.0).sum();
    let total_ops: u64 = per_profile.iter().filter(|(k, _)| modelled(k)).map(|(_, v)| v.1).sum();
    let nontrivial: u64 = per_profile.iter().filter(|(k, _)| modelled(k)).map(|(_, v)| v.2).sum();
    let impl_only_cases: u64 = per_profile.iter().filter(|(k, _)| !modelled(k)).map(|(_, v)| v.0).sum();
    // result json
    let mut s = String::new();
    s.push_str("{\n");
    s.push_str(&format!(" \"seed\": {},\n \"tier\": {},\n", args.seed, json_str(if args.tier == Tier::Quick { "quick" } else { "thorough" })));
    s.push_str(&format!(" \"evaluations\": {},\n \"ops\": {},\n \"distinct_nontrivial\": {},\n \"mismatches\": {},\n \"oracle_evaluations\": {},\n", evaluations, total_ops, nontrivial, mismatches, oracle_evals));
    s.push_str(&format!(" \"impl_only_cases\": {},\n", impl_only_cases));
    s.push_str(&format!(" \"wall_s\": {:.2},\n", t0.elapsed().as_secs_f64()));
    let pp: Vec<String> = per_profile
        .iter()
        .map(|(k, v)| format!("{}: {{\"cases\": {}, \"ops\": {}, \"distinct_nontrivial\": {}}}", json_str(k), v.0, v.1, v.2))
        .collect();
    s.push_str(&format!(" \"profiles\": {{{}}},\n", pp.join(", ")));
    let oh: Vec<String> = op_hist.iter().map(|(k, v)| format!("{}: {}", json_str(k), v)).collect();
    s.push_str(&format!(" \"op_histogram\": {{{}}},\n", oh.join(", ")));
    let oh: Vec<String> = out_hist.iter().map(|(k, v)| format!("{}: {}", json_str(k), v)).collect();
    s.push_str(&format!(" \"outcome_histogram\": {{{}}},\n", oh.join(", ")));
    s.push_str(&format!(" \"samples\": {},\n", json_list(&samples)));
    let fs: Vec<String> = findings
        .iter()
        .map(|f| {
            format!(
                "{{\"property\": {}, \"kind\": {}, \"profile\": {}, \"oracle\": {}, \"signature\": {}, \"what\": {}, \"replay\": {}}}",
                json_str(&f.prop),
                json_str(&f.kind),
                json_str(&f.profile),
                json_str(&f.oracle),
                json_str(&f.signature),
                json_str(&f.what),
                json_str(&f.replay)
            )
        })
        .collect();
    s.push_str(&format!(" \"findings\": [{}]\n}}\n", fs.join(",\n  ")));
    if args.out.is_empty() {
        print!("{}", s);
    } else {
        std::fs::write(&args.out, s).expect("write result");
    }
}

fn trunc(s: &str, n: usize) -> String {
    if s.len() <= n {
        s.to_string()
    } else {
        format!("{}…({}B)", &s[..n], s.len())
    }
}

/// Re-execute a replay file's ops on implementation and model, print both traces and the
/// verdict of every oracle of the file's property.
fn replay(args: &Args) {
    let text = std::fs::read_to_string(&args.replay).expect("read replay file");
    let ops = extract_string_list(&text, "\"ops\":");
    let profile_name = extract_string(&text, "\"profile\":");
    let prop = extract_string(&text, "\"property\":");
    let profiles = all_profiles();
    let p = match profiles.iter().find(|p| p.name == profile_name) {
        Some(p) => p,
        None => {
            // proof-kind replay files name a theorem, not a trace
            println!("replay file has no executable trace (profile {:?})", profile_name);
            print!("{}", text);
            return;
        }
    };
    let imp = run_ops(p.new_world, &ops);
    let mdl = if impl_only(p.name) {
        println!("(profile {} runs on the implementation only: the model column repeats the implementation's answers)", p.name);
        imp.clone()
    } else {
        run_model(&args.driver, &[&ops]).map(|m| m[0].clone()).unwrap_or_default()
    };
    for i in 0..ops.len() {
        let mark = if imp.get(i) != mdl.get(i) { " <<< DIFFERS" } else { "" };
        println!("[{}] {}\n     impl : {}\n     model: {}{}", i, trunc(&ops[i], 200), trunc(&imp[i], 200), mdl.get(i).map(|s| trunc(s, 200)).unwrap_or_default(), mark);
    }
    let mut bad = false;
    for o in all_oracles() {
        if o.prop == prop && oracle_applies(&o, p.name) {
            match (o.check)(&ops, &imp) {
                Some(f) => {
                    bad = true;
                    println!("oracle {} {}: FAILS on implementation at op {}: {} [{}]", o.prop, o.name, f.at, f.what, f.signature)
                }
                None => println!("oracle {} {}: holds on implementation trace", o.prop, o.name),
            }
            if impl_only(p.name) {
                continue;
            }
            if let Some(f) = (o.check)(&ops, &mdl) {
                println!("oracle {} {}: FAILS on model trace at op {}: {}", o.prop, o.name, f.at, f.what)
            }
        }
    }
    if first_diff(&imp, &mdl).is_some() {
        println!("correspondence: model and implementation DIFFER");
        bad = true;
    } else {
        println!("correspondence: identical outputs");
    }
    std::process::exit(if bad { 1 } else { 0 });
}

fn extract_string(text: &str, key: &str) -> String {
    if let Some(i) = text.find(key) {
        let rest = &text[i + key.len()..];
        if let Some(a) = rest.find('"') {
            let (s, _) = parse_json_string(&rest[a..]);
            return s;
        }
    }
    String::new()
}

fn parse_json_string(s: &str) -> (String, usize) {
    // s starts with '"'
    let b: Vec<char> = s.chars().collect();
    let mut out = String::new();
    let mut i = 1;
    while i < b.len() {
        match b[i] {
            '"' => return (out, i + 1),
            '\\' => {
                i += 1;
                match b.get(i) {
                    Some('n') => out.push('\n'),
                    Some('t') => out.push('\t'),
                    Some('u') => {
                        let h: String = b[i + 1..i + 5].iter().collect();
                        if let Some(c) = u32::from_str_radix(&h, 16).ok().and_then(char::from_u32) {
                            out.push(c);
                        }
                        i += 4;
                    }
                    Some(c) => out.push(*c),
                    None => {}
                }
            }
            c => out.push(c),
        }
        i += 1;
    }
    (out, i)
}

fn extract_string_list(text: &str, key: &str) -> Vec<String> {
    let mut res = vec![];
    if let Some(i) = text.find(key) {
        let rest: String = text[i + key.len()..].to_string();
        let chars: Vec<char> = rest.chars().collect();
        let mut j = 0;
        while j < chars.len() && chars[j] != '[' {
            j += 1;
        }
        j += 1;
        while j < chars.len() {
            match chars[j] {
                ']' => break,
                '"' => {
                    let sub: String = chars[j..].iter().collect();
                    let (s, n) = parse_json_string(&sub);
                    res.push(s);
                    j += n;
                }
                _ => j += 1,
            }
        }
    }
    res
}
